"""Per-property configuration of bin/check: theorem modules, streams, trivial tags, notes."""

TRUSTED_BASE = [
    "Lean 4.33.0 kernel (thorough tier: leanchecker re-check of the compiled modules)",
    "axioms: at most propext, Classical.choice, Quot.sound (audited per theorem on every run); no axioms of our own, no sorry/admit/native_decide/bv_decide",
    "the Lean compiler, for the vdriver executable only (the compiled model is what is diffed against Rust)",
    "bin/extract.py (regex translation of constants, code tables and RDATA layouts), bin/check, the Rust harness generators and its text canonicaliser",
    "the hand-written Lean model is tied to the Rust only by the differential streams (sampled, seeded, measured)",
    "rustc, std, bytes, tokio, priority-queue: neither modelled nor verified",
]

PROPS = {
    "C16": {
        "modules": ["Resolved.Props.C16"],
        "streams": [
            {"name": "name", "quick": 20000, "thorough": 3000000},
            {"name": "wire-decode", "quick": 8000, "thorough": 100000},
            {"name": "tables", "quick": 1, "thorough": 1, "shards": 1, "fixed": True},
        ],
        "trivial_tags": [r":bad-op"],
        "assumptions": [
            "strings are modelled as their UTF-8 octets; `&str` arguments are valid UTF-8 by Rust's type",
            "the model is tied to the Rust by the name/wire streams, not by proof",
        ],
    },
    "C03": {
        "modules": ["Resolved.Props.C03"],
        "streams": [
            {"name": "wire-decode", "quick": 20000, "thorough": 400000},
            {"name": "wire-mutations", "quick": 24, "thorough": 400},
            # the RELEASE build of the server itself gets the deepest legal pointer chain over TCP (its worker
            # threads' stack is what the clause is about); thorough tier only (release build of the repo)
            {"name": "server-deep", "quick": 1, "thorough": 1, "shards": 1, "fixed": True, "tiers": ["thorough"],
             "bins_release": ["resolved"]},
            # maximal backward pointer chains on a 2 MiB-stack thread: dev profile up to depth 4000,
            # release profile (the profile the property is about) up to the 8180 maximum
            {"name": "wire-deep", "quick": 4000, "thorough": 4000, "shards": 1, "fixed": True},
            {"name": "wire-deep", "quick": 8180, "thorough": 8180, "shards": 1, "fixed": True, "release": True, "tiers": ["thorough"]},
        ],
        "trivial_tags": [r":bad-op", r"decode:CompletelyBusted", r"decode:HeaderTooShort"],
        "assumptions": [
            "native stack consumption per recursion frame is not modelled (depth is bounded by theorem; the thorough tier measures the real decoder on maximal pointer chains)",
            "octets after the last counted record are ignored (D6)",
        ],
    },
    "C04": {
        "modules": ["Resolved.Props.C04"],
        "streams": [
            {"name": "wire-encode", "quick": 3000, "thorough": 200000, "extra_quick": [16], "extra_thorough": [400]},
            # decode -> encode -> decode on arbitrary decodable byte strings (suffix compression, chains)
            {"name": "wire-decode", "quick": 12000, "thorough": 200000},
            {"name": "tables", "quick": 1, "thorough": 1, "shards": 1, "fixed": True},
        ],
        "trivial_tags": [r":bad-op"],
        "assumptions": ["well-formed message = WfMsg (Spec/Wire.lean); RDATA or section counts >= 65536 make to_octets fail, as the property allows"],
    },
    "C02": {
        "modules": ["Resolved.Props.C02"],
        "streams": [{"name": "zone-resolve", "quick": 30000, "thorough": 6000000}],
        "trivial_tags": [r":bad-op", r"none/outside"],
        "assumptions": ["D1: zones holding records strictly beneath a delegation point are outside the spec oracle (still in Impl-vs-Model)"],
    },
    "C12": {
        "modules": ["Resolved.Props.C12"],
        "streams": [{"name": "zones-merge", "quick": 20000, "thorough": 2000000},
                    {"name": "hosts", "quick": 30000, "thorough": 600000},
                    {"name": "config-load", "quick": 2000, "thorough": 60000}],
        "trivial_tags": [r":bad-op", r":nozone"],
        "assumptions": ["directory enumeration and path ordering by the OS/std are observed through the binary, not modelled"],
    },
    "C05": {
        "modules": ["Resolved.Props.C05"],
        "streams": [{"name": "cache", "quick": 4000, "thorough": 800000},
                    # the cache as the resolver uses it: questions asked after cached records have run out
                    {"name": "resolve-local", "quick": 3000, "thorough": 100000}],
        "trivial_tags": [r":bad-op", r"cache\.hist.*:len0/"],
        "assumptions": [
            "the real monotonic clock is replaced by the virtual clock hook (cfg resolved_verif)",
            "D3: liveness is claimed from now + 1 s <= expiry (the reported TTL is the floor of the remaining seconds)",
        ],
        "trusted_extra": ["priority-queue crate: modelled as key->priority map with arg-min pop; contract assumed"],
    },
    "C15": {
        "modules": ["Resolved.Props.C15"],
        "streams": [{"name": "cache", "quick": 4000, "thorough": 800000},
                    {"name": "cache-threads", "quick": 40, "thorough": 600, "shards": 2, "timeout_quick": 180, "timeout_thorough": 1800}],
        "trivial_tags": [r":bad-op", r"cache\.hist.*:len0/"],
        "assumptions": [
            "std::sync::Mutex: every SharedCache method is one critical section, so a concurrent history is a sequential one (observed with 2-8 real threads, not proved)",
        ],
        "trusted_extra": ["priority-queue crate: modelled as key->priority map with arg-min pop; contract assumed"],
    },
    "C06": {
        "modules": ["Resolved.Props.C06"],
        "streams": [{"name": "upstream", "quick": 24000, "thorough": 500000},
                    # the delegation depth handed to the filter by the resolver loop, and what reaches the cache
                    {"name": "resolve-universe", "quick": 1200, "thorough": 30000},
                    {"name": "resolve-faults", "quick": 1200, "thorough": 30000}],
        "trivial_tags": [r":bad-op"],
        "assumptions": ["the three cache.insert_all call sites insert exactly the validated record lists (read from the code; covered end-to-end by the resolver streams of C07)"],
    },
    "C01": {
        "modules": ["Resolved.Props.C01"],
        "streams": [{"name": "resolve-local", "quick": 6000, "thorough": 400000},
                    {"name": "resolve-universe", "quick": 800, "thorough": 200000}],
        "trivial_tags": [r":bad-op"],
        "assumptions": ["the cache clock is frozen during one resolution (virtual clock hook)",
                        "D5: AA is claimed for replies whose whole chain stays in authoritative zones"],
    },
    "C10": {
        "modules": ["Resolved.Props.C10", "Resolved.Props.C10Machine"],
        "streams": [{"name": "resolve-local", "quick": 6000, "thorough": 400000},
                    {"name": "resolve-universe", "quick": 800, "thorough": 200000},
                    {"name": "resolve-faults", "quick": 1200, "thorough": 30000},
                    {"name": "upstream", "quick": 8000, "thorough": 200000}],
        "trivial_tags": [r":bad-op"],
        "assumptions": ["D7: upstream servers list alias chains in chain order and answer with records of the asked type"],
    },
    "C07": {
        "modules": ["Resolved.Props.C07", "Resolved.Props.C07Universe", "Resolved.Props.C07Universe2", "Resolved.Props.C06"],
        "streams": [{"name": "resolve-universe", "quick": 2400, "thorough": 200000},
                    # the socket code beneath the mock transport (shared by recursive and forwarding resolution):
                    # answers that need the TCP retry, in several segments, on real sockets
                    {"name": "server-fwd", "quick": 300, "thorough": 6000, "shards": 2}],
        "bins": ["resolved"],
        "trivial_tags": [r":bad-op", r"/x0$"],
        "assumptions": ["D8: RRsets carry one TTL; answers compared up to TTL and order inside the final RRset",
                        "with several nameservers per zone the referral host order comes from a HashSet: those cases are judged by the specification oracle only"],
    },
    "C08": {
        "modules": ["Resolved.Props.C08"],
        "streams": [{"name": "resolve-faults", "quick": 3000, "thorough": 80000},
                    # local alias chains and circles (zones, cache) in all three modes: termination does not
                    # depend on upstream behaving
                    {"name": "resolve-local", "quick": 3000, "thorough": 120000},
                    # two zones whose (glueless) nameservers live in each other: k = 2..5 under the virtual clock
                    {"name": "resolve-mutual", "quick": 4, "thorough": 4, "shards": 1, "fixed": True},
                    # ... and k = 8 under the REAL clock (a CPU-bound search costs no virtual time): the resolution
                    # must end at the 60 s budget; thorough tier only (one case = 60 s of wall time), release build
                    {"name": "resolve-mutual-real", "quick": 1, "thorough": 1, "shards": 1, "fixed": True,
                     "tiers": ["thorough"], "release": True, "timeout_thorough": 400},
                    # the real binary in forwarding mode against a mock forwarder on real sockets: replies cut
                    # short (UDP datagram ending inside a record, TCP stream dying after one octet) supply nothing
                    {"name": "server-fwd", "quick": 300, "thorough": 6000, "shards": 2},
                    {"name": "resolve-universe", "quick": 600, "thorough": 40000},
                    {"name": "upstream", "quick": 8000, "thorough": 200000}],
        "bins": ["resolved"],
        "trivial_tags": [r":bad-op", r"/x0$"],
        "assumptions": ["tokio's timeout/sleep on the paused clock stand for the real timers; that a future is cancelled at an await point is tokio's contract"],
    },
    "C18": {
        "modules": ["Resolved.Props.C18"],
        "streams": [{"name": "resolve-universe", "quick": 2400, "thorough": 200000},
                    {"name": "resolve-faults", "quick": 800, "thorough": 20000},
                    # the real binary in forwarding mode (command-line glue, real sockets): a mock forwarder
                    # and a decoy on the recursive upstream port
                    {"name": "server-fwd", "quick": 300, "thorough": 6000, "shards": 2}],
        "bins": ["resolved"],
        "trivial_tags": [r":bad-op", r"/x0$"],
        "assumptions": ["addresses are observed at the mock transport, which replaces the socket layer; in the server-fwd stream at real UDP sockets on 127.0.0.1"],
    },
    "C09": {
        "modules": ["Resolved.Props.C09", "Resolved.Props.C09Owners"],
        "bins": ["resolved"],
        "streams": [{"name": "server", "quick": 1600, "thorough": 30000, "shards": 4}],
        "trivial_tags": [r":bad-op", r":alive"],
        "assumptions": [
            "process survival, socket behaviour and the mpsc reply path are observed on the real binary, not modelled",
            "D2: 'flagged as a response' is evaluated on messages that parse; an unparseable message gets FORMERR whatever its QR bit",
            "one TCP message per connection; no RDATA > 65535 octets in zone files",
            "no-reply is established by a sentinel query on the same socket plus a 40 ms grace period",
        ],
    },
    "C19": {
        "modules": ["Resolved.Props.C19"],
        "bins": ["resolved"],
        "streams": [{"name": "reload", "quick": 60, "thorough": 1500, "shards": 4},
                    {"name": "reload-blocked", "quick": 4, "thorough": 60, "shards": 2},
                    # reloads while the server is busy: a large previous configuration, a query stuck on a silent forwarder
                    {"name": "reload-live", "quick": 3, "thorough": 9, "shards": 1, "fixed": True},
                    {"name": "config-load", "quick": 600, "thorough": 20000}],
        "trivial_tags": [r":bad-op", r"reload/ok0/failed0"],
        "assumptions": [
            "signal delivery, the tokio RwLock and the file system are observed on the real binary only",
            "unreadable = invalid UTF-8 (chmod is useless as root); invalid = $INCLUDE or a malformed record",
        ],
    },
    "C14": {
        "modules": ["Resolved.Props.C14"],
        "streams": [
            {"name": "hosts", "quick": 60000, "thorough": 4000000},
            # every shard replays the exhaustive part first (256 zero patterns x 4 value sets x
            # {show, parse(show), parse(alt form)} + boundary tables), then random strings
            {"name": "ip", "quick": 60000, "thorough": 4000000},
            # htoh / htoz / ztoh [--strict] binaries built from the working tree against the library functions (glue)
            {"name": "bins-hosts", "quick": 2000, "thorough": 40000},
        ],
        "bins": ["htoh", "htoz", "ztoh"],
        "trivial_tags": [r":bad-op", r"hosts\.parse:ok/0/$"],
        "assumptions": [
            "std::net::{IpAddr::from_str, Display for Ipv4Addr/Ipv6Addr} are re-implemented in Lean (Model/Hosts.lean, namespace Ip, after library/core/src/net/{parser.rs, ip_addr.rs} of the pinned nightly) and tied to std by the `ip` stream only; print-then-parse is PROVED of that model for every address",
            "D-H1: a single malformed field followed by white space (`garbage `) is CouldNotParseAddress although the line maps nothing, while `garbage` is ignored unexamined - the property text is silent, the specification follows the implementation",
            "D-H2: a `%` after the first character of the first field skips the line without examining the address part; a leading `%` is an ordinary character",
            "D-H3: non-ASCII text is an error where the reader reaches it, including the first character behind a run of `#`s",
            "D-H4: the text round trip is claimed for HostsWF data only (labels of ASCII octets other than white space, `#`, `.`)",
        ],
        "trusted_extra": ["Lean model of std::net parser/printer (validated exhaustively over zero-group patterns x boundary values and by random strings, not verified against the std source)"],
    },
    "C11": {
        "modules": ["Resolved.Props.C11"],
        "streams": [{"name": "ztext", "quick": 160000, "thorough": 12000000}],
        "trivial_tags": [r":bad-op", r"ztext\.rendered:ambiguous", r"ztext\.parse:err/MissingType"],
        "stated_not_proved": [],
        "assumptions": ["see PROPS_ENTRY.txt"],
    },    "C13": {
        "modules": ["Resolved.Props.C13"],
        "streams": [{"name": "ztext-roundtrip", "quick": 80000, "thorough": 1500000}],
        "trivial_tags": [r":bad-op", r"ztext\.roundtrip:err/", r"ztext\.api:nonwf"],
        "stated_not_proved": [],
        "assumptions": ["see PROPS_ENTRY.txt"],
    },    "C17": {
        "modules": ["Resolved.Props.C17"],
        "streams": [{"name": "ztext-fuzz", "quick": 60000, "thorough": 1000000},
                    {"name": "ztext", "quick": 40000, "thorough": 600000}],
        "trivial_tags": [r":bad-op"],
        "assumptions": ["see PROPS_ENTRY.txt"],
    },    "C11": {'assumptions': ['the meaning of a zone file is Spec/ZoneTextSpec.lean `denote` (RFC 1035 section 5 read as: origin '
                     'resolution, inheritance of owner/TTL, wildcard owners, SOA => authoritative apex, TTLs raised to '
                     'MINIMUM, the SOA record and what inherits from it carry MINIMUM - decision D9); names are compared '
                     'in canonical lower case',
                     '`Unambiguous ds` (decidable, Spec): an explicit owner token is not IN / all digits / a type mnemonic '
                     '/ $ORIGIN / $INCLUDE and does not begin with `*`; no RDATA token spells a record type (the parser '
                     'finds the type from the right); labels are ASCII without `.`; class tokens are IN CH HS CS; numbers '
                     'fit their fields; names fit 63/255',
                     '`VariantOk v`: the comments of the lexical variant contain no line feed (a comment ends at the line '
                     'end)',
                     'std text functions: char::is_whitespace, to_digit, u32/u16::from_str and integer Display are '
                     'modelled in Model/IpText.lean; Ipv4Addr/Ipv6Addr::from_str and Display are the shared model '
                     '`Resolved.Ip` of Model/Hosts.lean (lemmas Proofs/IpLemmas.lean); all after library/core sources, '
                     'tied to the real std by the streams only',
                     'C11_parse_render (= _accepted + _rejected) is a theorem about the MODEL for whole files and every '
                     'variant; the Rust is tied to the model by the ztext stream (Impl == Model on every case). For '
                     'rejected files only `some Err` is claimed, not which one (the parser may meet another fault of the '
                     'same line first, e.g. MissingType for an unresolvable RDATA name). Exception stated in the theorem: '
                     'the situation of C11-K1 (`isK1`)',
                     'escaped `.` inside labels and the relative name `\\@` are outside `Unambiguous` (open finding '
                     'C11-K2); errors badName/badRdata of the specification at the first rejected directive are outside it '
                     'too (noNameError)'],
     'modules': ['Resolved.Props.C11'],
     'stated_not_proved': [],
     'streams': [{'name': 'ztext', 'quick': 160000, 'thorough': 12000000}],
     'trivial_tags': [':bad-op', 'ztext\\.rendered:ambiguous', 'ztext\\.parse:err/MissingType']},
    "C13": {'assumptions': ['precondition of the round trip (D-list of DESIGN section C13, `ZoneTextOK` / driver `specWF`): '
                     'labels ASCII without `.`, no name label starting with `*` (API zones), no unknown record types, no '
                     "SOA-typed record besides the zone's own, non-authoritative => apex is the root; zones outside it are "
                     'still compared Impl-vs-Model (tag nonwf)',
                     'the order of the record lines inside one owner block is a hash-map order in the Rust: the serialised '
                     "text is accepted when it equals the model's up to that order (sorted per block on both sides), and "
                     "the re-read zone is compared as apex + SOA + sorted record lists, plus Rust's own `==`",
                     'std Ipv4Addr/Ipv6Addr parser and printer: the shared model `Resolved.Ip` of Model/Hosts.lean '
                     '(print/parse lemmas of Proofs/IpLemmas.lean); integer parser/printer and char classes: '
                     'Model/IpText.lean',
                     'C13_roundtrip is proved for zones built through the insertion API (Zone.build) under ZoneTextOK and '
                     'OnlyOwnSoa; that every zone obtained by PARSING satisfies these hypotheses (apart from the `*` owner '
                     'clause = C13-K1) is checked on the streams, not proved'],
     'bins': ['ztoz'],
     'modules': ['Resolved.Props.C13'],
     'stated_not_proved': [],
     'streams': [{'name': 'ztext-roundtrip', 'quick': 80000, 'thorough': 1500000},
                 # the ztoz binary built from the working tree against the library functions (glue)
                 {'name': 'bins-zone', 'quick': 2000, 'thorough': 40000}],
     'trivial_tags': [':bad-op', 'ztext\\.roundtrip:err/', 'ztext\\.api:nonwf']},
    "C17": {'assumptions': ['totality is a property of the Lean model (by construction; fuel never exhausted by theorem); the '
                     'Rust is tied to it by catch_unwind around every Zone::deserialise / serialise call on each stream '
                     'case (texts up to ~100 KB; random Unicode, unbalanced quotes/parentheses, truncated and out-of-range '
                     'escapes, NULs, huge numbers)',
                     'allocation failure and native stack depth are observed only (the parser has no recursion besides '
                     'ZoneRecords::insert, depth <= 127)'],
     'modules': ['Resolved.Props.C17', 'Resolved.Props.C14'],
     'streams': [{'name': 'ztext-fuzz', 'quick': 60000, 'thorough': 1000000},
                 {'name': 'ztext', 'quick': 40000, 'thorough': 600000},
                 {'name': 'hosts', 'quick': 30000, 'thorough': 600000}],
     'trivial_tags': [':bad-op']},
}
