#!/usr/bin/env python3
"""regenerate lean/Resolved.lean so that the library root imports every module"""
import glob, os
ROOT = os.path.dirname(os.path.dirname(os.path.abspath(__file__)))
mods = []
for d in ["Props", "Spec", "Model", "Proofs"]:
    for f in sorted(glob.glob(os.path.join(ROOT, "lean", "Resolved", d, "*.lean"))):
        mods.append("Resolved." + d + "." + os.path.basename(f)[:-5])
text = "-- root of the `Resolved` library: every model, spec, proof and property module\nimport Resolved.Generated\n" + "".join(f"import {m}\n" for m in mods)
p = os.path.join(ROOT, "lean", "Resolved.lean")
if not os.path.exists(p) or open(p).read() != text:
    open(p, "w").write(text)
