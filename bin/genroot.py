#!/usr/bin/env python3
"""regenerate lean/Resolved.lean (library root = generated constants + every Model and Spec module;
property modules are built as separate targets because helper-lemma files written independently
may reuse declaration names) and print the list of property modules"""
import glob, os
ROOT = os.path.dirname(os.path.dirname(os.path.abspath(__file__)))
mods = []
for d in ["Model", "Spec"]:
    for f in sorted(glob.glob(os.path.join(ROOT, "lean", "Resolved", d, "*.lean"))):
        mods.append("Resolved." + d + "." + os.path.basename(f)[:-5])
text = "-- root of the `Resolved` library: generated constants, every model and spec module\nimport Resolved.Generated\n" + "".join(f"import {m}\n" for m in mods)
p = os.path.join(ROOT, "lean", "Resolved.lean")
if not os.path.exists(p) or open(p).read() != text:
    open(p, "w").write(text)
props = sorted("Resolved.Props." + os.path.basename(f)[:-5] for f in glob.glob(os.path.join(ROOT, "lean", "Resolved", "Props", "*.lean")))
print(" ".join(props))
