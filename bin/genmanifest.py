#!/usr/bin/env python3
"""Writes MANIFEST.json from bin/props.py + bin/claims.py (single source of truth)."""
import json, os, sys
ROOT = os.path.dirname(os.path.dirname(os.path.abspath(__file__)))
sys.path.insert(0, os.path.join(ROOT, "bin"))
from props import PROPS
from claims import CLAIMS, NOT_APPLICABLE, HOOK_COMMITS

ids = [json.loads(l)["id"] for l in open(os.path.join(ROOT, "properties.jsonl"))]
checks = []
for pid in ids:
    if pid not in PROPS or pid not in CLAIMS:
        continue
    c = CLAIMS[pid]
    checks.append({
        "property_id": pid,
        "quick_cmd": f"bin/check {pid} --tier quick",
        "thorough_cmd": f"bin/check {pid} --tier thorough",
        "evidence_file": f"/verif/evidence/{pid}.json",
        "replay_cmd_template": f"bin/check {pid} --replay {{path}}",
        "engine": "lean4-proof+correspondence",
        "level_claimed": {"category": "proof", "text": c["text"], "design_ref": c.get("design_ref", "DESIGN.md §7 " + pid)},
        "level_note": c["note"],
        "technique": c.get("technique", "Lean 4 theorems about an executable model; model tied to the Rust by differential correspondence streams and a source extractor"),
    })
na = [{"property_id": pid, "reason": NOT_APPLICABLE.get(pid, "not yet claimed: machinery for this property is still being built (see DESIGN.md §10)")}
      for pid in ids if pid not in {c["property_id"] for c in checks}]
m = {
    "version": 1,
    "setup_cmd": "bin/setup",
    "hooks": {
        "guard": "resolved_verif",
        "enable": "RUSTFLAGS='--cfg resolved_verif' cargo build (set by bin/check for the harness build)",
        "baseline_off_cmd": "cd /repo && cargo test --workspace --no-fail-fast --offline",
        "source_commits": HOOK_COMMITS,
        "add_only": True,
    },
    "engines": [{
        "name": "lean4-proof+correspondence", "path": "/verif/bin/check",
        "serves_properties": [c["property_id"] for c in checks],
        "kind_free_text": "Lean 4 machine-checked theorems about a hand-written executable model (lean/Resolved), constants/tables/RDATA layouts regenerated from the Rust source (bin/extract.py), model tied to the implementation by seeded differential streams (harness/ + lean vdriver) with executable-spec oracles",
    }],
    "checks": checks,
    "not_applicable": na,
    "notes": "Every check: extractor -> lake build of the property's theorem modules -> #print axioms audit -> cargo build of the harness against /repo's working tree with --cfg resolved_verif -> streams Impl-vs-Model and Impl-vs-Spec -> evidence. See DESIGN.md.",
}
json.dump(m, open(os.path.join(ROOT, "MANIFEST.json"), "w"), indent=1)
print("claimed:", [c["property_id"] for c in checks])
