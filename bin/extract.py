#!/usr/bin/env python3
"""Source extractor: /repo -> /verif/lean/Resolved/Generated.lean

Re-reads the Rust source on every run and regenerates the constants, code tables and RDATA field
layouts that the Lean model and theorems are stated over.  Anchored on item names, not line
numbers.  If an anchor is missing the previous Generated.lean is kept and the status says so
(a failed extraction is not by itself an alarm; the correspondence streams still run).
Prints a JSON status on stdout.
"""
import json, os, re, sys

REPO = os.environ.get("VERIF_REPO", "/repo")
OUT = os.path.join(os.path.dirname(os.path.abspath(__file__)), "..", "lean", "Resolved", "Generated.lean")
# the server's decision logic goes to its own file, imported by Props/C09 only: an edit of main.rs then
# re-checks that module instead of everything that imports Generated.lean
OUT_SERVER = os.path.join(os.path.dirname(os.path.abspath(__file__)), "..", "lean", "Resolved", "GeneratedServer.lean")

class Missing(Exception):
    pass

def read(rel):
    p = os.path.join(REPO, rel)
    try:
        return open(p, encoding="utf-8").read()
    except OSError:
        raise Missing(f"file {rel}")

def strip_comments(src):
    src = re.sub(r"//[^\n]*", "", src)
    return src

def const(src, name):
    m = re.search(r"\bconst\s+%s\s*:\s*\w+\s*=\s*([^;]+);" % re.escape(name), src)
    if not m:
        raise Missing(f"const {name}")
    v = m.group(1).strip().replace("_", "")
    try:
        if v.startswith("0b"):
            return int(v[2:], 2)
        if v.startswith("0x"):
            return int(v[2:], 16)
        return int(v)
    except ValueError:
        raise Missing(f"const {name} value {v!r}")

def block_after(src, anchor_re):
    """text of the {...} block that follows the first match of anchor_re"""
    m = re.search(anchor_re, src)
    if not m:
        raise Missing(f"anchor /{anchor_re}/")
    i = src.index("{", m.end() - 1) if src[m.end() - 1] != "{" else m.end() - 1
    depth = 0
    for j in range(i, len(src)):
        if src[j] == "{":
            depth += 1
        elif src[j] == "}":
            depth -= 1
            if depth == 0:
                return src[i + 1:j]
    raise Missing(f"unbalanced block after /{anchor_re}/")

def from_num_table(src, ty, numty):
    body = block_after(src, r"impl\s+From<%s>\s+for\s+%s\s*\{" % (numty, ty))
    rows = [(int(n), v) for n, v in re.findall(r"\b(\d+)\s*=>\s*%s::(\w+)\s*," % ty, body)]
    mask = None
    mm = re.search(r"match\s+\w+\s*&\s*(0b[01_]+|0x[0-9a-fA-F_]+|\d+)", body)
    if mm:
        v = mm.group(1).replace("_", "")
        mask = int(v[2:], 2) if v.startswith("0b") else int(v, 0)
    if not rows:
        raise Missing(f"From<{numty}> for {ty}: no arms")
    return rows, mask

def to_num_table(src, ty, numty):
    body = block_after(src, r"impl\s+From<%s>\s+for\s+%s\s*\{" % (ty, numty))
    rows = [(v, int(n)) for v, n in re.findall(r"%s::(\w+)\s*=>\s*(\d+)\s*," % ty, body)]
    if not rows:
        raise Missing(f"From<{ty}> for {numty}: no arms")
    return rows

def split_top(s, sep=","):
    out, depth, cur = [], 0, ""
    for ch in s:
        if ch in "([{":
            depth += 1
        elif ch in ")]}":
            depth -= 1
        if ch == sep and depth == 0:
            out.append(cur)
            cur = ""
        else:
            cur += ch
    if cur.strip():
        out.append(cur)
    return [x.strip() for x in out if x.strip()]

def classify_decode_expr(e):
    e = re.sub(r"\s+", " ", e)
    if e.startswith("DomainName::deserialise("):
        return ["name false"]
    if e.startswith("Ipv4Addr::from(") and "next_u32" in e:
        return ["a"]
    if e.startswith("Ipv6Addr::new(") and e.count("next_u16") == 8:
        return ["aaaa"]
    if e.startswith("buffer.next_u32()"):
        return ["u32"]
    if e.startswith("buffer.next_u16()"):
        return ["u16"]
    if e.startswith("raw_rdata()"):
        return ["opaque"]
    raise Missing(f"decode field expression {e!r}")

def decode_layout(src):
    body = block_after(src, r"let\s+rtype_with_data\s*=\s*match\s+rtype\s*\{")
    out = []
    pos = 0
    for m in re.finditer(r"RecordType::(\w+)(\(\w+\))?\s*=>\s*RecordTypeWithData::(\w+)\s*\{", body):
        if m.start() < pos:
            continue
        depth, j = 0, m.end() - 1
        for j in range(m.end() - 1, len(body)):
            if body[j] == "{":
                depth += 1
            elif body[j] == "}":
                depth -= 1
                if depth == 0:
                    break
        inner = body[m.end():j]
        pos = j
        fields = []
        for item in split_top(inner):
            if ":" not in item:
                # shorthand field (`tag,`) carries no wire data
                continue
            _, expr = item.split(":", 1)
            fields += classify_decode_expr(expr.strip())
        if m.group(1) != m.group(3):
            raise Missing(f"decode arm {m.group(1)} builds {m.group(3)}")
        out.append((m.group(1), fields))
    if not out:
        raise Missing("decode layout: no arms")
    return out

def encode_layout(src, ip_kinds):
    body = block_after(src, r"match\s+&self\.rtype_with_data\s*\{")
    out = []
    arms = list(re.finditer(r"RecordTypeWithData::(\w+)\s*\{([^}]*)\}\s*=>", body))
    for k, m in enumerate(arms):
        end = arms[k + 1].start() if k + 1 < len(arms) else len(body)
        stmts = body[m.end():end]
        fields = []
        for call in re.finditer(r"(\w+)\.serialise\(buffer,\s*(true|false)\)|buffer\.write_(u16|u32)\(\*?(\w+)\)|buffer\.write_octets\(&?(\w+)(\.octets\(\))?\)", stmts):
            if call.group(1):
                fields.append("name " + call.group(2))
            elif call.group(3):
                fields.append(call.group(3))
            else:
                if call.group(6):
                    kind = ip_kinds.get(m.group(1))
                    if not kind:
                        raise Missing(f"encode arm {m.group(1)}: address kind")
                    fields.append(kind)
                else:
                    fields.append("opaque")
        out.append((m.group(1), fields))
    if not out:
        raise Missing("encode layout: no arms")
    return out

def name_compress_flags(src):
    q = block_after(src, r"impl\s+Question\s*\{")
    mq = re.search(r"self\.name\.serialise\(buffer,\s*(true|false)\)", q)
    r_ = block_after(src, r"impl\s+ResourceRecord\s*\{")
    mr = re.search(r"self\.name\.serialise\(buffer,\s*(true|false)\)", r_)
    if not mq or not mr:
        raise Missing("owner-name compress flags")
    return mq.group(1), mr.group(1)

def lean_pairs_ns(rows):
    return "[" + ", ".join(f'({n}, "{v}")' for n, v in rows) + "]"

def lean_pairs_sn(rows):
    return "[" + ", ".join(f'("{v}", {n})' for v, n in rows) + "]"

def lean_layout(rows):
    def f(x):
        return "." + x if " " not in x else ".name " + x.split()[1]
    return "[" + ",\n   ".join('("%s", [%s])' % (v, ", ".join(f(x) for x in fs)) for v, fs in rows) + "]"

def drop_balanced(src, start_re):
    """remove every `start_re( … )` call with balanced parentheses, and a directly following `;`"""
    out, i = [], 0
    for m in re.finditer(start_re, src):
        if m.start() < i:
            continue
        out.append(src[i:m.start()])
        depth, j = 0, m.end() - 1
        while j < len(src):
            if src[j] == "(":
                depth += 1
            elif src[j] == ")":
                depth -= 1
                if depth == 0:
                    break
            j += 1
        if j >= len(src):
            raise Missing(f"unbalanced call after /{start_re}/")
        j += 1
        k = j
        while k < len(src) and src[k] in " \t\n":
            k += 1
        i = k + 1 if k < len(src) and src[k] == ";" else j
    out.append(src[i:])
    return "".join(out)

def logic_lines(src, fn_re):
    """The decision logic of a function as its source lines, with what cannot influence the reply
    removed: tracing macros, Prometheus metric statements, the label/timer bookkeeping.  Lines are
    whitespace-normalised (the repository is rustfmt-formatted, so a line is a stable unit)."""
    body = block_after(src, fn_re)
    body = drop_balanced(body, r"tracing::\w+!\(")
    body = re.sub(r"(?:let\s+\w+\s*=\s*)?\b(?:DNS|CACHE)_[A-Z_]+\b[^;]*;", "", body)
    body = re.sub(r"let\s+(?:question_labels|duration_seconds)\b[^;]*;", "", body)
    lines = [re.sub(r"\s+", " ", l.strip()) for l in body.splitlines()]
    return [l for l in lines if l]

def lean_strs(lines):
    esc = lambda l: l.replace("\\", "\\\\").replace('"', '\\"')
    return "[\n  " + ",\n  ".join('"%s"' % esc(l) for l in lines) + "]"

def generate():
    types = strip_comments(read("crates/dns-types/src/protocol/types.rs"))
    deser = strip_comments(read("crates/dns-types/src/protocol/deserialise.rs"))
    ser = strip_comments(read("crates/dns-types/src/protocol/serialise.rs"))
    lib = strip_comments(read("crates/dns-resolver/src/lib.rs"))
    hosts = strip_comments(read("crates/dns-types/src/hosts/types.rs"))
    cache = strip_comments(read("crates/dns-resolver/src/cache.rs"))
    zser = strip_comments(read("crates/dns-types/src/zones/serialise.rs"))
    rec = strip_comments(read("crates/dns-resolver/src/recursive.rs"))
    ns = strip_comments(read("crates/dns-resolver/src/util/nameserver.rs"))

    L = []
    L.append("/-\n  GENERATED by /verif/bin/extract.py from /repo — do not edit by hand.\n"
             "  Constants, code tables and RDATA field layouts as the Rust source states them now.\n-/")
    L.append("namespace Resolved.Gen\n")
    for c in ["DOMAINNAME_MAX_LEN", "LABEL_MAX_LEN", "HEADER_MASK_QR", "HEADER_MASK_OPCODE",
              "HEADER_OFFSET_OPCODE", "HEADER_MASK_AA", "HEADER_MASK_TC", "HEADER_MASK_RD",
              "HEADER_MASK_RA", "HEADER_MASK_RCODE", "HEADER_OFFSET_RCODE"]:
        L.append(f"def {c} : Nat := {const(types, c)}")
    L.append("")
    rt_from, _ = from_num_table(types, "RecordType", "u16")
    L.append("/-- `From<u16> for RecordType`: the known codes, in source order. -/")
    L.append("def recordTypeFromU16 : List (Nat × String) :=\n  " + lean_pairs_ns(rt_from))
    L.append("/-- `From<RecordType> for u16`. -/")
    L.append("def recordTypeToU16 : List (String × Nat) :=\n  " + lean_pairs_sn(to_num_table(types, "RecordType", "u16")))
    qt_from, _ = from_num_table(types, "QueryType", "u16")
    L.append("def queryTypeFromU16 : List (Nat × String) := " + lean_pairs_ns(qt_from))
    L.append("def queryTypeToU16 : List (String × Nat) := " + lean_pairs_sn(to_num_table(types, "QueryType", "u16")))
    rc_from, _ = from_num_table(types, "RecordClass", "u16")
    L.append("def recordClassFromU16 : List (Nat × String) := " + lean_pairs_ns(rc_from))
    L.append("def recordClassToU16 : List (String × Nat) := " + lean_pairs_sn(to_num_table(types, "RecordClass", "u16")))
    qc_from, _ = from_num_table(types, "QueryClass", "u16")
    L.append("def queryClassFromU16 : List (Nat × String) := " + lean_pairs_ns(qc_from))
    L.append("def queryClassToU16 : List (String × Nat) := " + lean_pairs_sn(to_num_table(types, "QueryClass", "u16")))
    op_from, op_mask = from_num_table(types, "Opcode", "u8")
    L.append("def opcodeFromU8 : List (Nat × String) := " + lean_pairs_ns(op_from))
    L.append("def opcodeToU8 : List (String × Nat) := " + lean_pairs_sn(to_num_table(types, "Opcode", "u8")))
    if op_mask is None:
        raise Missing("Opcode::from mask")
    L.append(f"def opcodeMask : Nat := {op_mask}")
    rcode_from, rcode_mask = from_num_table(types, "Rcode", "u8")
    L.append("def rcodeFromU8 : List (Nat × String) :=\n  " + lean_pairs_ns(rcode_from))
    L.append("def rcodeToU8 : List (String × Nat) :=\n  " + lean_pairs_sn(to_num_table(types, "Rcode", "u8")))
    if rcode_mask is None:
        raise Missing("Rcode::from mask")
    L.append(f"def rcodeMask : Nat := {rcode_mask}")
    L.append("""
/-- RDATA field kinds. `name c` carries the `compress` flag passed by the serialiser. -/
inductive Field where
  | u16 | u32 | a | aaaa | opaque
  | name (compress : Bool)
deriving DecidableEq, Repr
""")
    L.append("/-- Layout read by `ResourceRecord::deserialise`, per variant name (names carry `false`). -/")
    L.append("def rdataDecodeLayout : List (String × List Field) :=\n  " + lean_layout(decode_layout(deser)))
    ip_kinds = {}
    enum_body = block_after(types, r"pub\s+enum\s+RecordTypeWithData\s*\{")
    for m in re.finditer(r"(\w+)\s*\{\s*address\s*:\s*(Ipv4Addr|Ipv6Addr)\s*,?\s*\}", enum_body):
        ip_kinds[m.group(1)] = "a" if m.group(2) == "Ipv4Addr" else "aaaa"
    L.append("\n/-- Layout written by `ResourceRecord::serialise`, per variant name, with the compress flag used. -/")
    L.append("def rdataEncodeLayout : List (String × List Field) :=\n  " + lean_layout(encode_layout(ser, ip_kinds)))
    qf, rf = name_compress_flags(ser)
    L.append("\n/-- compress flags of the owner name of a question / of a resource record. -/")
    L.append(f"def questionNameCompress : Bool := {qf}")
    L.append(f"def rrNameCompress : Bool := {rf}")
    L.append("")
    L.append(f"def RECURSION_LIMIT : Nat := {const(lib, 'RECURSION_LIMIT')}")
    m = re.search(r"Duration::from_mins\((\d+)\)", rec)
    if not m:
        raise Missing("recursive.rs resolve timeout")
    L.append(f"def RESOLVE_TIMEOUT_SECS : Nat := {int(m.group(1)) * 60}")
    m = re.search(r"Duration::from_secs\((\d+)\)", ns)
    if not m:
        raise Missing("nameserver.rs exchange timeout")
    L.append(f"def EXCHANGE_TIMEOUT_SECS : Nat := {int(m.group(1))}")
    m = re.search(r"serialised_request\.len\(\)\s*>\s*(\d+)", ns)
    if not m:
        raise Missing("nameserver.rs UDP limit")
    L.append(f"def UDP_MAX : Nat := {int(m.group(1))}")
    L.append(f"def HOSTS_TTL : Nat := {const(hosts, 'TTL')}")
    m = re.search(r"Self::with_desired_size\((\d+)\)", cache)
    if not m:
        raise Missing("cache.rs default size")
    L.append(f"def CACHE_DEFAULT_SIZE : Nat := {int(m.group(1))}")
    so = block_after(zser, r"fn\s+serialise_octets\s*\(")
    first_if = re.search(r"if\s+(\*octet.*?)\{", so, re.S)
    if not first_if:
        raise Missing("serialise_octets escape set")
    esc = re.findall(r"\*octet\s*==\s*b'(\\?.)'", first_if.group(1))
    if not esc:
        raise Missing("serialise_octets escape set (empty)")
    codes = [ord(e[-1]) for e in esc]
    L.append("/-- octets written as `\\\\X` by `serialise_octets`. -/")
    L.append(f"def zoneEscapeBackslash : List Nat := {codes}")
    # --- decision tables translated from the source text -------------------------------------
    # resolve_hostname_to_ip: protocol mode -> record types asked for, in order
    rh = block_after(rec, r"fn\s+resolve_hostname_to_ip")
    rows = re.findall(r"ProtocolMode::(\w+)\s*=>\s*vec!\[([^\]]*)\]", rh)
    if not rows:
        raise Missing("recursive.rs protocol mode table")
    table = [(m, re.findall(r"RecordType::(\w+)", body)) for m, body in rows]
    L.append("\n/-- `resolve_hostname_to_ip`: protocol mode ↦ record types asked for, in order (translated from the `match`). -/")
    L.append("def protocolModeRtypes : List (String × List String) := [" + ", ".join(
        '("%s", [%s])' % (m, ", ".join('"%s"' % t for t in ts)) for m, ts in table) + "]")
    # response_matches_request: the checks, in source order, as tags
    rm = block_after(ns, r"fn\s+response_matches_request")
    conds = re.findall(r"if\s+(.*?)\s*\{\s*return\s+false;\s*\}", rm, re.S)
    if not conds:
        raise Missing("nameserver.rs response_matches_request checks")
    def tag(c):
        c = re.sub(r"\s+", " ", c.strip())
        if c == "request.header.id != response.header.id": return "id"
        if c == "!response.header.is_response": return "qr"
        if c == "request.header.opcode != response.header.opcode": return "opcode"
        if c == "response.header.is_truncated": return "tc"
        if c == "request.questions != response.questions": return "questions"
        m = re.fullmatch(r"!\((response\.header\.rcode == Rcode::\w+(?: \|\| response\.header\.rcode == Rcode::\w+)*)\)", c)
        if m: return "rcode:" + ",".join(re.findall(r"Rcode::(\w+)", c))
        return "unknown:" + c.replace('"', "'")
    tail_true = re.search(r"\}\s*true\s*\}?\s*$", rm.strip()) is not None
    L.append("/-- `response_matches_request`: its `if … { return false; }` checks in source order (then `true`). -/")
    L.append("def responseMatchesChecks : List String := [" + ", ".join('"%s"' % tag(c) for c in conds) + "]")
    L.append(f"def responseMatchesEndsTrue : Bool := {'true' if tail_true else 'false'}")
    L.append("\nend Resolved.Gen\n")
    return "\n".join(L)

def generate_server():
    L = []
    L.append("/-\n  GENERATED by /verif/bin/extract.py from /repo/crates/resolved/src/main.rs — do not edit by hand.\n-/")
    L.append("namespace Resolved.Gen")
    # --- decision logic of the server's message handling, translated line by line ---------------
    mainrs = strip_comments(read("crates/resolved/src/main.rs"))
    for lean_name, fn_re, doc in [
            ("triageLogic", r"fn\s+triage\s*\(", "`triage`"),
            ("buildResponseLogic", r"fn\s+resolve_and_build_response\s*\(", "`resolve_and_build_response`"),
            ("handleRawMessageLogic", r"fn\s+handle_raw_message\s*\(", "`handle_raw_message`"),
            ("serialiseResponseLogic", r"fn\s+serialise_response\s*\(", "`serialise_response`")]:
        ll = logic_lines(mainrs, fn_re)
        if not ll:
            raise Missing(f"main.rs {doc} body")
        L.append(f"\n/-- {doc} (crates/resolved/src/main.rs): its body with logging and metrics removed, line by line. -/")
        L.append(f"def {lean_name} : List String := " + lean_strs(ll))
    L.append("\nend Resolved.Gen\n")
    return "\n".join(L)

def main():
    status = {"extraction": "ok"}
    try:
        status["changed"] = False
        for out, text in ((OUT, generate()), (OUT_SERVER, generate_server())):
            old = open(out, encoding="utf-8").read() if os.path.exists(out) else None
            if old != text:
                with open(out, "w", encoding="utf-8") as f:
                    f.write(text)
                status["changed"] = True
    except Missing as e:
        status = {"extraction": f"unavailable({e})", "changed": False}
    print(json.dumps(status))

if __name__ == "__main__":
    main()
