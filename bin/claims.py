"""What is claimed per property (text of the MANIFEST level claim)."""
HOOK_COMMITS = ["57f3656"]
NOT_APPLICABLE = {}
CLAIMS = {
    "C16": {
        "text": "Proved in Lean for all inputs: from_labels accepts exactly the label sequences that are non-empty, end in the root label, have no other empty label and encode in <= 255 octets, and the name it builds records exactly its encoded length (C16_fromLabels_rejects/_wf); Label::try_from rejects exactly > 63 octets and lower-cases (C16_label_*); every name built from dotted text, relative text or an origin join is well-formed (C16_fromDotted_wf, C16_fromRelativeDotted_wf, C16_makeSubdomainOf_wf); subdomain = label-wise suffix. The limits 63/255 are read from the Rust source on every run. The model is tied to the Rust by the name and wire-decode streams.",
        "note": "Trusted: Lean kernel; the model<->Rust tie is differential (sampled). Case-insensitivity of hashing/zone/cache lookup follows because every constructor lower-cases (proved) and lookups compare the stored labels (stream-checked).",
    },
    "C03": {
        "text": "The decoder model is a total Lean function on byte strings of every length (kernel-accepted structural/well-founded recursion with every index discharged by its guard: no panic, no non-termination); proved: < 2 octets => CompletelyBusted, sections exactly as long as the counts say; further theorems (ID on every error, soundness/completeness of name decoding w.r.t. the RFC 1035 grammar WireName, pointer-depth bound) are added as they close. Impl-vs-Model on random, mutated, truncated and adversarial byte strings; Impl-vs-Spec oracle = an independently structured reference decoder + the ID rule.",
        "note": "Partial: native stack use per frame is observed, not proved. Trusted: Lean kernel; model<->Rust tie is differential.",
    },
    "C04": {
        "text": "Proved: the serialiser's per-type RDATA layout equals the deserialiser's (both extracted from the Rust source each run); compression pointers are only memoised for offsets < 2^14; (name/message round-trip theorems are added as they close). Impl-vs-Model byte-exact on all 8192 header combinations, messages over all record types with shared and maximal names, sizes crossing 16 KiB and 64 KiB; oracle: reference decoder reads the implementation's bytes back to the same message and every pointer targets the start of a pointer-free name.",
        "note": "Trusted: Lean kernel; model<->Rust tie is differential. Found and fixed F1 (pointer for offsets >= 16384).",
    },
    "C02": {
        "text": "Proved on the tree model for every node/name/type: the apex never yields a referral whatever NS it carries; a name missing beneath the apex with no wildcard is a name error, not a referral; an empty non-terminal yields an empty answer (refinement of the whole lookup to the flat RFC 1034 spec ZSpec.lookup under D1 is being proved). Impl-vs-Model on generated zones x names x 14 query types; Impl-vs-Spec oracle = ZSpec.lookup (flat, tree-free) on every D1 zone.",
        "note": "Trusted: Lean kernel; model<->Rust tie is differential. D1 zones only for the spec oracle. Found and fixed F2 (apex NS referral).",
    },
    "C12": {
        "text": "Proved: merge keeps the receiver's apex, takes the merged-in zone's SOA when it has one else keeps its own (last SOA wins), refuses different apexes, and drops the receiver's SOA record set before uniting when a new SOA arrives (exactly one SOA). Union of ordinary and wildcard records: Impl-vs-Model exact and Impl-vs-Spec oracle (lookup on the concatenated entries of the files of that apex, SOA of the last file having one) over 1-5 merged zones x questions; the set-union theorem is being proved.",
        "note": "Partial: directory enumeration/sorting by the OS is observed, not modelled. Found and fixed F3 (wildcards dropped) and F4 (two SOA records).",
    },
    "C05": {
        "text": "Proved for every cache state, name, type and clock reading: every record a lookup returns has TTL >= 1 and its TTL (in ns) is at most the stored expiry minus now (floor of the remaining seconds), so a record at or past its expiry is never returned; TTL-0 records are not stored. Histories (insert, re-insert, lookup by type/ANY, unchecked lookup, prune, dump, second and sub-second clock steps) run Impl-vs-Model with exact state dumps after the virtual-clock hook, and Impl-vs-Spec against the abstract map (name,type,data) -> expiry of the LAST insertion: never stale, no duplicates, live records returned (D3), stored expiry = last insert + TTL. The whole-history refinement theorem is being proved.",
        "note": "Partial: the real monotonic clock is replaced by the virtual-clock hook; priority-queue crate contract assumed.",
    },
    "C15": {
        "text": "Proved: whenever prune returns, the record counter is <= the desired size and is the number it reports; the overflow flag is exactly 'was over size before'. Every prune in every generated history is judged by the specification oracle on dumps taken right before and after: no expired record left, counts (expired, evicted, remaining, overflow) true, survivors unchanged, evicted names whole, least-recently-used, and minimal; every dump satisfies the structural invariant (counter = number of distinct (name,type,data); queues in sync; next_expiry = minimum). 2-8 real threads on one SharedCache followed by the invariant. Invariant-preservation and termination-given-invariant theorems are being proved.",
        "note": "Partial: std::sync::Mutex and the priority-queue crate are trusted; concurrency is observed, not proved. Found and fixed F14 (next_expiry recomputed over one record type).",
    },
    "C06": {
        "text": "Proved: a reply is accepted iff ID, QR, opcode and question match, TC is clear and rcode is NoError/NameError (exact characterisation, so any mismatch discards it as a whole); answer and CNAME results of the filter are sub-lists of the reply's answer section. The full 'only allowed records' statement (CNAMEs on a path from the question name, asked type at its end, NS owned by the deepest enclosing zone below the current delegation, glue only for those hosts, SOA rules for NODATA) is checked on every adversarial reply by the Impl-vs-Spec oracle USpec.checkValidated and Impl-vs-Model exactly; its theorem is being proved.",
        "note": "Trusted: Lean kernel; model<->Rust tie differential (through the cfg-guarded wrappers). Found and fixed F8 (off-path CNAMEs) and F9 (NS with foreign owner).",
    },
    "C01": {
        "text": "Model of resolve_local / the three resolver modes tied to the Rust by whole-resolution scenarios (nested authoritative and non-authoritative zones, wildcards, CNAMEs, delegations, conflicting cache contents and upstream answers; auth-only, recursive, forwarding) with exact comparison of result, upstream exchange log, elapsed time and cache dump. Proved so far: a name error can only come from an authoritative local name error; prioritising_merge never displaces or supplements local records of a (name,type). Oracle per case: authoritative answers/name errors equal the owning zone's data with an empty exchange log; non-authoritative local records returned exactly; NXDOMAIN only from an authoritative zone; records for owned names come from the zone. Mode-independence theorems are being proved.",
        "note": "Partial until the whole-machine theorems close; open finding F11 (upstream records at a CNAME tail for locally owned names) is matched by signature K1 if it appears.",
    },
    "C10": {
        "text": "Proved for every zones/cache/question: at the recursion limit no further alias is followed (RecursionLimit), and a question already on the stack is refused (DuplicateQuestion) — so no alias is followed twice and depth is bounded by 32 for chains of every length. Oracle per case (chains 0-40, cycles, links in zones/cache/upstream, three modes): any ok result for a type other than CNAME/ANY is ChainShaped (CNAMEs in order from the question name, distinct owners, then only records of the asked type at the final target). ChainShaped theorems for the three machines are being proved.",
        "note": "D7 assumed for upstream links; native stack per recursion level observed only.",
    },
    "C07": {
        "text": "Generated consistent universes (depth 1-4, 1-3 nameservers per zone, in/out-of-zone nameserver names, glue for in-bailiwick hosts only, cross-zone CNAMEs, missing names/types), served by the mock transport from the same authoritative data; oracle: the resolver's answer equals what the authoritative data holds (chain + final RRset, or empty + the zone's SOA); Impl-vs-Model exact on single-nameserver universes. Proved: the filter only yields referrals to zones enclosing the question with strictly more labels than the delegation in use (C06_delegation_closer, when merged) and the glue short-cut only returns a record of the referral. Correctness over all universes is NOT proved (stream-checked).",
        "note": "Partial: correctness is oracle-checked on generated universes, not a theorem; HashSet order quantified by skipping model equality on multi-NS universes.",
    },
    "C08": {
        "text": "The recursive and forwarding machines are total Lean functions over an arbitrary upstream oracle. Proved: an exchange costs at most 5 s per transport, never moves the clock past 60 s, and a reply arriving at or after 5 s is never used; budgets (60 s, 5 s, 32) re-extracted from source. Fault scenarios (drop, delays up to 70 s, garbage, wrong ID, TC, error rcodes, lame/circular referrals, alias loops, unresolvable NS names, question mismatch, TCP fallback) run through the real resolver on tokio's paused clock: result, exchange log, elapsed virtual time and cache compared exactly with the model; oracle: elapsed <= 60 s, no panic, every returned record occurs in local data or an upstream reply. Fuel-suffices and whole-run budget theorems are being proved.",
        "note": "Partial: tokio cancellation semantics are its contract; observed under the paused clock.",
    },
    "C18": {
        "text": "Proved: only-v4 looks nameserver addresses up as A only, only-v6 as AAAA only, prefer-vX asks X's type first; get_ip returns IPv4 for A and IPv6 for AAAA only. Oracle on every universe/fault scenario x four modes: under only-vX every contacted address is of family X, every exchange uses the configured port, forwarding mode contacts only the forwarder, authoritative-only mode contacts nobody; the model's exchange log equals the implementation's exactly (single-NS universes). Whole-machine log theorems are being proved.",
        "note": "Addresses are observed at the mock transport (socket layer replaced).",
    },
    "C09": {
        "text": "Model of handle_raw_message / triage / resolve_and_build_response / UDP and TCP framing / read_tcp_bytes, generic in the resolver. Proved for every resolver and byte string: UDP replies are <= 512 octets, TCP replies carry their exact length prefix, a parseable message flagged as a response is never answered, every reply to a parseable message echoes ID, opcode, RD and the question with QR set. The REAL BINARY built from the working tree (authoritative-only mode over generated zone files) is driven over UDP and TCP with every header combination, 0-3 questions, unknown types/classes, random/mutated/truncated bytes, TCP short reads with early close; each reply is compared with the model's bytes (up to hash-map order) and judged by the spec oracle (reply iff, header echo, FORMERR/NOTIMP/REFUSED/RA rules, TC/512, TCP prefix, answer owners); liveness after every batch.",
        "note": "Partial: process survival, sockets, mpsc path observed not modelled. Open finding C09-K1 (F10): an authoritative referral is returned with the delegation's NS records in the ANSWER section and AA set.",
    },
    "C19": {
        "text": "Proved on the reload state machine: one unreadable/invalid file makes the load fail as a whole; a failed load leaves the live configuration untouched, a successful one replaces it entirely; a query's answer is a function of the single configuration value it reads (old or new, never a mixture). The REAL BINARY with a -Z directory is driven through edit sequences (add, remove, change, corrupt, repair files) each followed by SIGUSR1; the log verdict must equal the model's, answers after the reload must be those of the new configuration alone (or the old one in full after a failure), answers raced with the reload must equal the old or the new configuration's, and the server must keep answering.",
        "note": "Partial (the larger half is runtime): signals, tokio RwLock, fs observed on the binary only.",
    },
}
