"""What is claimed per property (text of the MANIFEST level claim)."""
HOOK_COMMITS = []
NOT_APPLICABLE = {}
CLAIMS = {
    "C16": {
        "text": "Proved in Lean for all inputs: from_labels accepts exactly the label sequences that are non-empty, end in the root label, have no other empty label and encode in <= 255 octets, and the name it builds records exactly its encoded length (C16_fromLabels_rejects/_wf); Label::try_from rejects exactly > 63 octets and lower-cases (C16_label_*); every name built from dotted text, relative text or an origin join is well-formed (C16_fromDotted_wf, C16_fromRelativeDotted_wf, C16_makeSubdomainOf_wf); subdomain = label-wise suffix. The limits 63/255 are read from the Rust source on every run. The model is tied to the Rust by the name and wire-decode streams.",
        "note": "Trusted: Lean kernel; the model<->Rust tie is differential (sampled). Case-insensitivity of hashing/zone/cache lookup follows because every constructor lower-cases (proved) and lookups compare the stored labels (stream-checked).",
    },
    "C03": {
        "text": "The decoder model is a total Lean function on byte strings of every length (kernel-accepted structural/well-founded recursion with every index discharged by its guard: no panic, no non-termination); proved: < 2 octets => CompletelyBusted, sections exactly as long as the counts say; further theorems (ID on every error, soundness/completeness of name decoding w.r.t. the RFC 1035 grammar WireName, pointer-depth bound) are added as they close. Impl-vs-Model on random, mutated, truncated and adversarial byte strings; Impl-vs-Spec oracle = an independently structured reference decoder + the ID rule.",
        "note": "Partial: native stack use per frame is observed, not proved. Trusted: Lean kernel; model<->Rust tie is differential.",
    },
    "C04": {
        "text": "Proved: the serialiser's per-type RDATA layout equals the deserialiser's (both extracted from the Rust source each run); compression pointers are only memoised for offsets < 2^14; (name/message round-trip theorems are added as they close). Impl-vs-Model byte-exact on all 8192 header combinations, messages over all record types with shared and maximal names, sizes crossing 16 KiB and 64 KiB; oracle: reference decoder reads the implementation's bytes back to the same message and every pointer targets the start of a pointer-free name.",
        "note": "Trusted: Lean kernel; model<->Rust tie is differential. Found and fixed F1 (pointer for offsets >= 16384).",
    },
}
