"""What is claimed per property (text of the MANIFEST level claim)."""
HOOK_COMMITS = []
NOT_APPLICABLE = {}
CLAIMS = {
    "C16": {
        "text": "Proved in Lean for all inputs: from_labels accepts exactly the label sequences that are non-empty, end in the root label, have no other empty label and encode in <= 255 octets, and the name it builds records exactly its encoded length (C16_fromLabels_rejects/_wf); Label::try_from rejects exactly > 63 octets and lower-cases (C16_label_*); every name built from dotted text, relative text or an origin join is well-formed (C16_fromDotted_wf, C16_fromRelativeDotted_wf, C16_makeSubdomainOf_wf); subdomain = label-wise suffix. The limits 63/255 are read from the Rust source on every run. The model is tied to the Rust by the name and wire-decode streams.",
        "note": "Trusted: Lean kernel; the model<->Rust tie is differential (sampled). Case-insensitivity of hashing/zone/cache lookup follows because every constructor lower-cases (proved) and lookups compare the stored labels (stream-checked).",
    },
}
