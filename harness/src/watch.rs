//! Watchdog for calls into the real code that might not return: the call runs on its own thread;
//! if it does not finish in time the case is reported as `hang` (the abandoned thread keeps
//! spinning until the process exits).
use std::sync::mpsc::channel;
use std::time::Duration;

/// number of calls that did not return so far in this process (each leaves a spinning thread behind)
pub static HANGS: std::sync::atomic::AtomicUsize = std::sync::atomic::AtomicUsize::new(0);

pub enum Outcome<T> {
    Done(T),
    Panic,
    Hang,
}

pub fn run<T: Send + 'static>(secs: u64, f: impl FnOnce() -> T + Send + 'static) -> Outcome<T> {
    let (tx, rx) = channel();
    let h = std::thread::Builder::new()
        .stack_size(8 * 1024 * 1024)
        .spawn(move || {
            let r = std::panic::catch_unwind(std::panic::AssertUnwindSafe(f));
            let _ = tx.send(r);
        })
        .unwrap();
    match rx.recv_timeout(Duration::from_secs(secs)) {
        Ok(Ok(v)) => {
            let _ = h.join();
            Outcome::Done(v)
        }
        Ok(Err(_)) => Outcome::Panic,
        Err(_) => {
            HANGS.fetch_add(1, std::sync::atomic::Ordering::SeqCst);
            Outcome::Hang
        }
    }
}

/// convenience for calls producing the textual output of a case
pub fn text(secs: u64, f: impl FnOnce() -> String + Send + 'static) -> String {
    match run(secs, f) {
        Outcome::Done(s) => s,
        Outcome::Panic => "panic".to_string(),
        Outcome::Hang => "hang".to_string(),
    }
}
