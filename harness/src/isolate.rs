//! Crash isolation for inputs that could exhaust the native stack or abort the process: the parse
//! runs in a child process (this same executable, `vharness child-<what> 0 0`, text on stdin) on a
//! thread with the stack size tokio gives its worker threads (2 MiB — `reload_task` parses the
//! configuration there).  A child that dies (stack overflow ⇒ SIGSEGV/SIGABRT, allocation abort)
//! is reported as `abort` for exactly this input; nothing else in the stream is lost.
use std::io::{Read, Write};
use std::process::{Command, Stdio};

pub const WORKER_STACK: usize = 2 * 1024 * 1024;

/// parent side
pub fn run_child(what: &str, text: &str) -> String {
    let exe = std::env::current_exe().expect("current_exe");
    let mut child = match Command::new(exe)
        .args([&format!("child-{what}"), "0", "0"])
        .stdin(Stdio::piped())
        .stdout(Stdio::piped())
        .stderr(Stdio::null())
        .spawn()
    {
        Ok(c) => c,
        Err(_) => return "spawn-failed".to_string(),
    };
    {
        let mut stdin = child.stdin.take().unwrap();
        let _ = stdin.write_all(text.as_bytes());
    }
    let mut s = String::new();
    let _ = child.stdout.take().unwrap().read_to_string(&mut s);
    match child.wait() {
        Ok(st) if st.success() => s,
        _ => "abort".to_string(),
    }
}

/// child side: read stdin, run `f` on a worker-sized stack, print its text
pub fn child_main(f: fn(&str) -> String) {
    let mut text = String::new();
    std::io::stdin().read_to_string(&mut text).expect("stdin");
    let h = std::thread::Builder::new().stack_size(WORKER_STACK).spawn(move || f(&text)).unwrap();
    match h.join() {
        Ok(s) => {
            print!("{s}");
            std::io::stdout().flush().unwrap();
        }
        Err(_) => {
            print!("panic");
            std::io::stdout().flush().unwrap();
        }
    }
}
