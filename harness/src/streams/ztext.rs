//! C11 / C13 / C17 streams: `Zone::deserialise` and `Zone::serialise` on text.
//!   ztext            directive lists rendered in the variants of the master-file syntax (own
//!                    renderer, mirror of lean/Resolved/Spec/ZoneTextSpec.lean `render`), AST-level
//!                    faults, and every single-fault corruption of the rendered text
//!   ztext-fuzz       random Unicode and grammar-aware mutations (C17; Impl vs Model)
//!   ztext-roundtrip  parse, serialise, parse again (C13), on text with every octet class, and on
//!                    zones built through the insertion API
use std::panic::{catch_unwind, AssertUnwindSafe};

use dns_types::protocol::types::*;
use dns_types::zones::deserialise::Error;
use dns_types::zones::types::*;

use crate::codec as c;
use crate::rng::Rng;
use crate::Out;

// ---------------------------------------------------------------------------------------------
// canonical output

pub fn error_name(e: &Error) -> &'static str {
    match e {
        Error::TokeniserUnexpected { .. } => "TokeniserUnexpected",
        Error::TokeniserUnexpectedEscape { .. } => "TokeniserUnexpectedEscape",
        Error::IncludeNotSupported { .. } => "IncludeNotSupported",
        Error::MultipleSOA => "MultipleSOA",
        Error::WildcardSOA => "WildcardSOA",
        Error::NotSubdomainOfApex { .. } => "NotSubdomainOfApex",
        Error::Unexpected { .. } => "Unexpected",
        Error::ExpectedU32 { .. } => "ExpectedU32",
        Error::ExpectedOrigin => "ExpectedOrigin",
        Error::ExpectedDomainName { .. } => "ExpectedDomainName",
        Error::WrongLen { .. } => "WrongLen",
        Error::MissingType { .. } => "MissingType",
        Error::MissingTTL { .. } => "MissingTTL",
        Error::MissingDomainName { .. } => "MissingDomainName",
    }
}

fn owner_records(m: &std::collections::HashMap<&DomainName, Vec<&ZoneRecord>>) -> String {
    let mut v: Vec<String> = Vec::new();
    for (name, zrs) in m {
        for zr in zrs {
            v.push(c::rr(&zr.to_rr(name)));
        }
    }
    if v.is_empty() {
        return "-".to_string();
    }
    v.sort();
    v.join(";")
}

pub fn zone_dump(z: &Zone) -> String {
    let soa = match z.get_soa() {
        Some(s) => crate::streams::zone::soa_text(s),
        None => "-".to_string(),
    };
    format!(
        "{}!{}!R:{}!W:{}",
        c::name(z.get_apex()),
        soa,
        owner_records(&z.all_records()),
        owner_records(&z.all_wildcard_records())
    )
}

/// `Zone::deserialise` under `catch_unwind`
pub fn parse(text: &str) -> Result<Result<Zone, Error>, ()> {
    catch_unwind(AssertUnwindSafe(|| Zone::deserialise(text))).map_err(|_| ())
}

pub fn parse_text(res: &Result<Result<Zone, Error>, ()>) -> String {
    match res {
        Err(()) => "panic".to_string(),
        Ok(Err(e)) => format!("err {}", error_name(e)),
        Ok(Ok(z)) => format!("ok {}", zone_dump(z)),
    }
}

/// the serialised text with the lines of every block (maximal run of non-empty lines) sorted:
/// inside one owner block the order of the lines comes out of hash maps
pub fn canonical_text(s: &str) -> String {
    let mut out = String::new();
    let mut block: Vec<&str> = Vec::new();
    let flush = |block: &mut Vec<&str>, out: &mut String| {
        block.sort();
        for l in block.iter() {
            out.push_str(l);
            out.push('\n');
        }
        block.clear();
    };
    let mut rest = s;
    while !rest.is_empty() {
        let (line, tail, had_nl) = match rest.find('\n') {
            Some(i) => (&rest[..i], &rest[i + 1..], true),
            None => (rest, "", false),
        };
        if line.is_empty() && had_nl {
            flush(&mut block, &mut out);
            out.push('\n');
        } else {
            block.push(line);
        }
        rest = tail;
    }
    flush(&mut block, &mut out);
    out
}

/// parse, serialise, parse again; `res1#hex(serialised text)#res2#eq`.  The driver accepts the
/// serialised text when it equals the model's up to the order of the lines inside each block
/// (`canonical_text`, mirrored in Lean), and re-reads *this* text with the model.
pub fn roundtrip_text(text: &str) -> String {
    let r1 = parse(text);
    let mut s = parse_text(&r1);
    if let Ok(Ok(z)) = &r1 {
        match catch_unwind(AssertUnwindSafe(|| z.serialise())) {
            Err(_) => s.push_str("#panic"),
            Ok(t) => {
                let r2 = parse(&t);
                let eq = match &r2 {
                    Ok(Ok(z2)) => {
                        if z2 == z {
                            "1"
                        } else {
                            "0"
                        }
                    }
                    _ => "0",
                };
                s.push_str(&format!("#{}#{}#{}", c::hex(t.as_bytes()), parse_text(&r2), eq));
            }
        }
    }
    s
}

// ---------------------------------------------------------------------------------------------
// ztext-fuzz

const WORDS: [&str; 44] = [
    "$ORIGIN", "$INCLUDE", "$TTL", "IN", "CH", "HS", "in", "A", "NS", "CNAME", "SOA", "MX", "TXT", "AAAA", "SRV",
    "PTR", "HINFO", "MINFO", "NULL", "WKS", "MD", "MF", "MB", "MG", "MR", "TYPE1", "TYPE99", "TYPE65536", "TYPE+2",
    "@", "*", "*.", "*.a", ".", "a", "b.", "example.com.", "www", "x.y", "lan.", "1.2.3.4", "::1", "fd00::1:2", "10.0.0.256",
];
const NUMS: [&str; 12] =
    ["0", "1", "30", "300", "+5", "007", "4294967295", "4294967296", "99999999999999999999", "65535", "65536", "-1"];
const ODD: [char; 30] = [
    '\u{0}', '\u{7f}', '\u{80}', '\u{85}', '\u{a0}', '\u{ff}', 'é', 'ÿ', '\u{1680}', '\u{2003}', '\u{2028}', '\u{2029}',
    '\u{202f}', '\u{205f}', '\u{3000}', '\u{feff}', '\u{10ffff}', '😀', '\r', '\t', '\u{b}', '\u{c}', ' ', '\n', '"', '\\',
    ';', '(', ')', '@',
];

fn fuzz_token(r: &mut Rng, s: &mut String) {
    match r.below(16) {
        0..=5 => s.push_str(r.pick(&WORDS)),
        6..=7 => s.push_str(r.pick(&NUMS)),
        8 => {
            // quoted string, maybe unterminated
            s.push('"');
            for _ in 0..r.below(6) {
                fuzz_char(r, s);
            }
            if !r.chance(1, 6) {
                s.push('"');
            }
        }
        9 => {
            // escape, maybe truncated / out of range
            s.push('\\');
            match r.below(6) {
                0 => {}
                1 => s.push_str(&format!("{}", r.below(10))),
                2 => s.push_str(&format!("{:02}", r.below(100))),
                3 => s.push_str(&format!("{:03}", r.below(1000))),
                4 => s.push(*r.pick(&ODD)),
                _ => s.push(*r.pick(&['a', '.', '@', '*', '"', '\\', ';', '(', ')', ' '])),
            }
        }
        10 => s.push(*r.pick(&['(', ')', ';', '"'])),
        11 => {
            for _ in 0..r.range(1, 4) {
                fuzz_char(r, s);
            }
        }
        12 => {
            // dotted name with odd labels
            for _ in 0..r.range(1, 4) {
                for _ in 0..r.range(0, 3) {
                    s.push(*r.pick(&['a', 'B', 'c', '0', '-', '*', '@', '\\', 'é']));
                }
                s.push('.');
            }
            if r.chance(1, 2) {
                s.pop();
            }
        }
        13 => {
            // long label / long name
            let len = *r.pick(&[62usize, 63, 64, 65, 200, 254, 255, 256]);
            for i in 0..len {
                s.push(if i % 50 == 49 && len > 65 { '.' } else { 'a' });
            }
            if r.chance(1, 2) {
                s.push('.');
            }
        }
        _ => s.push_str(r.pick(&WORDS)),
    }
}

fn fuzz_char(r: &mut Rng, s: &mut String) {
    match r.below(10) {
        0..=3 => s.push(*r.pick(&['a', 'b', 'z', 'A', '0', '9', '.', '-', '_'])),
        4..=5 => s.push(*r.pick(&ODD)),
        6 => s.push(char::from_u32(r.below(0x80) as u32).unwrap()),
        7 => {
            let v = r.below(0x11_0000) as u32;
            s.push(char::from_u32(v).unwrap_or('\u{fffd}'));
        }
        8 => s.push(char::from_u32(0x2000 + r.below(0x30) as u32).unwrap()),
        _ => s.push(char::from_u32(r.below(0x100) as u32).unwrap()),
    }
}

/// a line of plausible tokens
fn fuzz_line(r: &mut Rng, s: &mut String) {
    if r.chance(1, 5) {
        s.push_str(*r.pick(&[" ", "\t", "  ", "\u{a0}", "\r"]));
    }
    let k = r.range(0, 9);
    for i in 0..k {
        if i > 0 {
            s.push_str(*r.pick(&[" ", " ", " ", "\t", "  ", "\u{2003}", ""]));
        }
        fuzz_token(r, s);
    }
    if r.chance(1, 6) {
        s.push_str(" ; comment ( \" \\ ");
    }
}

/// a plausible record line (more often valid)
fn record_line(r: &mut Rng, s: &mut String) {
    let mut odd_owner = String::new();
    let owner: &str = if r.chance(1, 4) {
        // an odd owner on an otherwise plausible line (the owner is looked at after type and RDATA):
        // escapes that become non-ASCII characters, dots and stars, at every position
        // (seeded change C17-7 sliced the owner text by bytes: `a\200` panicked)
        for _ in 0..r.range(1, 4) {
            odd_owner.push_str(r.pick(&[
                "a", "*", ".", "\\200", "\\255", "\\128", "\\127", "\\046", "\\.", "\\*", "é", "@", "-", "\\\\", "x",
            ]));
        }
        &odd_owner
    } else {
        r.pick(&["", "", "@", "www", "a.b", "*", "*.w", "ns.example.com.", "x.", "IN", "300", "A", "é"])
    };
    s.push_str(owner);
    s.push(' ');
    let (ttl, class) = (*r.pick(&["", "300", "5", "0", "4294967295", "x"]), *r.pick(&["", "IN", "IN", "CH"]));
    if r.chance(1, 2) {
        s.push_str(ttl);
        s.push(' ');
        s.push_str(class);
    } else {
        s.push_str(class);
        s.push(' ');
        s.push_str(ttl);
    }
    s.push(' ');
    let paren = r.chance(1, 6);
    if paren {
        s.push_str("( ");
    }
    let rd = *r.pick(&[
        "A 10.0.0.1",
        "A 1.2.3",
        "AAAA ::1",
        "AAAA 1:2:3:4:5:6:7:8",
        "AAAA ::ffff:1.2.3.4",
        "NS ns",
        "NS ns.example.com.",
        "CNAME @",
        "MX 10 mail",
        "MX 65536 mail",
        "TXT \"hello world\"",
        "TXT \\\"x\\000\\255",
        "TXT a b",
        "HINFO x",
        "SRV 1 2 3 t",
        "MINFO a b",
        "PTR p.",
        "SOA ns admin 1 2 3 4 5",
        "SOA ns admin 1 2 3 4",
        "SOA ns. admin. 1 2 3 4 50",
        "NULL \"\"",
        "WKS \\001\\002",
        "TYPE1 1.1.1.1",
        "TYPE99 x",
        "MB m",
        "MG m",
        "MR m",
        "MD m",
        "MF m",
    ]);
    if paren && r.chance(1, 2) {
        s.push_str(&rd.replace(' ', if r.chance(1, 2) { "\n " } else { " ; c\n\t" }));
    } else {
        s.push_str(rd);
    }
    if paren && !r.chance(1, 8) {
        s.push_str(" )");
    }
}

pub fn fuzz_text(r: &mut Rng) -> String {
    let mut s = String::new();
    let sel = if r.chance(1, 50) { 1 } else { *r.pick(&[0usize, 2, 3, 3, 3, 3, 3, 3, 3, 3, 3, 3]) };
    match sel {
        0 => {
            // pure random chars
            for _ in 0..r.range(0, 40) {
                fuzz_char(r, &mut s);
            }
        }
        1 => {
            // very long token / line (up to ~100 KB)
            let len = *r.pick(&[1000usize, 5000, 20_000, 100_000]);
            match r.below(11) {
                9 | 10 => {
                    // names that are only too long once the origin is appended: each part is a valid name, the
                    // sum crosses 255 octets (boundary: 193 for three 63-octet labels + root, then k + 1 more)
                    let big = format!("{}.{}.{}.", "a".repeat(63), "b".repeat(63), "c".repeat(63));
                    let k = *r.pick(&[1usize, 60, 61, 62, 63]);
                    let rel = "r".repeat(k);
                    match r.below(5) {
                        0 => s.push_str(&format!("$ORIGIN {big}\n{rel} 300 IN A 1.2.3.4\n")),
                        1 => s.push_str(&format!("$ORIGIN {big}\nx 300 IN NS {rel}\n")),
                        2 => s.push_str(&format!("$ORIGIN {big}\n$ORIGIN {rel}\n@ 300 IN A 1.2.3.4\n")),
                        3 => s.push_str(&format!("$ORIGIN {big}\n*.{rel} 300 IN TXT t\n")),
                        _ => {
                            // an origin grown label by label with relative $ORIGIN lines
                            s.push_str("$ORIGIN e.\n");
                            for i in 0..r.range(3, 6) {
                                s.push_str(&format!("$ORIGIN {}\n", ((b'a' + i as u8) as char).to_string().repeat(60)));
                            }
                            s.push_str("@ 300 IN A 1.2.3.4\nw 300 IN MX 1 m\n");
                        }
                    }
                }
                5 | 6 => {
                    // a long run of entries that produce nothing (blank, blanks only, comment only),
                    // outside parentheses, then optionally a record / garbage
                    let unit = *r.pick(&["\n", " \n", ";\n", "; c\n", "\t\n", "\r\n", "\n;x\n"]);
                    for _ in 0..len / 2 {
                        s.push_str(unit);
                    }
                    match r.below(3) {
                        0 => s.push_str("x. 300 IN A 1.2.3.4\n"),
                        1 => s.push_str("garbage"),
                        _ => {}
                    }
                }
                7 | 8 => {
                    // one very long label where a name is expected (owner, RDATA, $ORIGIN, relative)
                    let l = *r.pick(&[63usize, 64, 254, 255, 256, 257, 300, 1000, 70_000]);
                    let long = "a".repeat(l);
                    match r.below(6) {
                        0 => s.push_str(&format!("{long}. 300 IN A 1.2.3.4\n")),
                        1 => s.push_str(&format!("x. 300 IN NS {long}.\n")),
                        2 => s.push_str(&format!("$ORIGIN {long}.\nx 300 IN A 1.2.3.4\n")),
                        3 => s.push_str(&format!("$ORIGIN e.\n{long} 300 IN A 1.2.3.4\n")),
                        4 => s.push_str(&format!("x. 300 IN MX 10 b.{long}.c.\n")),
                        _ => s.push_str(&format!("*.{long}. 300 IN TXT t\n")),
                    }
                }
                0 => s.push_str(&"a".repeat(len)),
                1 => {
                    s.push_str("x 300 IN TXT \"");
                    s.push_str(&"\\065".repeat(len / 4));
                    s.push('"');
                }
                2 => {
                    for _ in 0..len / 2 {
                        s.push_str("a ");
                    }
                }
                3 => {
                    s.push_str("$ORIGIN ");
                    for _ in 0..len / 2 {
                        s.push_str("a.");
                    }
                }
                _ => {
                    s.push_str("( ");
                    for _ in 0..len / 2 {
                        s.push_str(";\n");
                    }
                }
            }
        }
        2 => {
            // deep parens / many quotes
            let k = r.range(1, 2000);
            let ch = *r.pick(&['(', ')', '"', '\\', ';', '\n']);
            for _ in 0..k {
                s.push(ch);
                if r.chance(1, 3) {
                    s.push(' ');
                }
            }
        }
        _ => {
            let lines = r.range(0, 7);
            if r.chance(1, 2) {
                s.push_str(*r.pick(&["$ORIGIN example.com.\n", "$ORIGIN .\n", "$ORIGIN lan.\n", "$ORIGIN *.e.\n"]));
            }
            for _ in 0..lines {
                match r.below(6) {
                    0 | 1 => fuzz_line(r, &mut s),
                    _ => record_line(r, &mut s),
                }
                s.push_str(*r.pick(&["\n", "\n", "\n", "\r\n", "\n\n", ""]));
            }
        }
    }
    s
}

/// parse + canonical text (what a child process prints)
pub fn parse_text_of(text: &str) -> String {
    parse_text(&parse(text))
}

/// big inputs are parsed in a child process on a 2 MiB stack (see `isolate`): `abort` = the parser took
/// the process down (stack exhaustion, allocation abort)
pub fn parse_guarded(text: &str) -> String {
    if text.len() >= 1500 {
        crate::isolate::run_child("ztext", text)
    } else {
        parse_text_of(text)
    }
}

pub fn run_fuzz(r: &mut Rng, n: usize, out: &mut Out) {
    for _ in 0..n {
        let text = fuzz_text(r);
        out.case(&["ztext.parse", &c::hex(text.as_bytes())], &parse_guarded(&text));
    }
}

// ---------------------------------------------------------------------------------------------
// abstract syntax + renderer (mirror of lean/Resolved/Spec/ZoneTextSpec.lean)

#[derive(Clone, Debug, PartialEq)]
pub enum NameRef {
    Abs(Vec<Vec<u8>>),
    Rel(Vec<Vec<u8>>),
    At,
}

#[derive(Clone, Debug, PartialEq)]
pub enum OwnerRef {
    Name(NameRef),
    Wild(NameRef),
    Star,
}

#[derive(Clone, Debug, PartialEq)]
pub enum RField {
    Name(NameRef),
    U16(u64),
    U32(u64),
    A(u64),
    Aaaa(Vec<u64>),
    Octets(Vec<u8>),
}

#[derive(Clone, Debug, PartialEq)]
pub struct Rec {
    pub owner: Option<OwnerRef>,
    pub ttl: Option<u64>,
    pub cls: Option<Vec<u8>>,
    pub rtype: u16,
    pub rdata: Vec<RField>,
}

#[derive(Clone, Debug, PartialEq)]
pub enum Directive {
    Origin(NameRef),
    Include(Vec<u8>, Option<NameRef>),
    Record(Rec),
    Blank(Option<String>),
}

#[derive(Clone, Copy, Debug, PartialEq)]
pub enum OForm {
    Bare,
    Backslash,
    Decimal,
}

#[derive(Clone, Debug, Default)]
pub struct TokVar {
    pub quoted: bool,
    pub pattern: Vec<OForm>,
}

#[derive(Clone, Debug, Default)]
pub struct LineVar {
    pub class_first: bool,
    pub type_numeric: bool,
    pub aaaa_full: bool,
    pub toks: Vec<TokVar>,
    pub seps: Vec<usize>,
    pub open_at: usize,
    pub close_at: usize,
    pub nl_mask: u64,
    pub nl_comment: bool,
    pub comment: Option<String>,
}

#[derive(Clone, Debug)]
pub struct FileVar {
    pub lines: Vec<LineVar>,
    pub crlf: bool,
    pub final_newline: bool,
}

fn is_ws(b: u8) -> bool {
    (9..=13).contains(&b) || b == 32
}

fn bare_ok(quoted: bool, i: usize, b: u8) -> bool {
    b < 128
        && b != b'\\'
        && if quoted { b != b'"' } else { !is_ws(b) && b != b';' && (i != 0 || (b != b'(' && b != b')' && b != b'"')) }
}

fn decimal_escape(b: u8, out: &mut String) {
    out.push('\\');
    out.push((48 + b / 100) as char);
    out.push((48 + b / 10 % 10) as char);
    out.push((48 + b % 10) as char);
}

/// role of one octet of a token (see `AKind` in the Lean specification)
#[derive(Clone, Copy, Debug, PartialEq)]
pub enum AKind {
    Plain,
    Structural,
    Literal,
}

pub type Atom = (u8, AKind);

fn render_octet(quoted: bool, f: OForm, i: usize, a: Atom, out: &mut String) {
    let (b, k) = a;
    if k == AKind::Structural {
        out.push(b as char);
        return;
    }
    match f {
        OForm::Bare => {
            if k == AKind::Plain && bare_ok(quoted, i, b) {
                out.push(b as char)
            } else {
                decimal_escape(b, out)
            }
        }
        OForm::Backslash => {
            if b < 128 && !b.is_ascii_digit() {
                out.push('\\');
                out.push(b as char)
            } else {
                decimal_escape(b, out)
            }
        }
        OForm::Decimal => decimal_escape(b, out),
    }
}

pub fn render_token(tv: &TokVar, atoms: &[Atom]) -> String {
    let quoted = tv.quoted || atoms.is_empty();
    let mut out = String::new();
    if quoted {
        out.push('"');
    }
    for (i, a) in atoms.iter().enumerate() {
        let f = if tv.pattern.is_empty() { OForm::Bare } else { tv.pattern[i % tv.pattern.len()] };
        render_octet(quoted, f, i, *a, &mut out);
    }
    if quoted {
        out.push('"');
    }
    out
}

fn plain(bs: &[u8]) -> Vec<Atom> {
    bs.iter().map(|b| (*b, AKind::Plain)).collect()
}

const DOT: Atom = (b'.', AKind::Structural);

fn dotted_labels(ls: &[Vec<u8>]) -> Vec<Atom> {
    let mut v = Vec::new();
    for (i, l) in ls.iter().enumerate() {
        if i > 0 {
            v.push(DOT);
        }
        v.extend(l.iter().map(|b| (*b, if *b == b'.' { AKind::Literal } else { AKind::Plain })));
    }
    v
}

pub fn name_atoms(n: &NameRef) -> Vec<Atom> {
    match n {
        NameRef::Abs(ls) if ls.is_empty() => vec![DOT],
        NameRef::Abs(ls) => {
            let mut v = dotted_labels(ls);
            v.push(DOT);
            v
        }
        NameRef::Rel(ls) if ls.len() == 1 && ls[0] == b"@" => vec![(b'@', AKind::Literal)],
        NameRef::Rel(ls) => dotted_labels(ls),
        NameRef::At => vec![(b'@', AKind::Structural)],
    }
}

fn owner_atoms(o: &OwnerRef) -> Vec<Atom> {
    match o {
        OwnerRef::Name(n) => name_atoms(n),
        OwnerRef::Wild(n) => {
            let mut v = vec![(b'*', AKind::Structural), DOT];
            v.extend(name_atoms(n));
            v
        }
        OwnerRef::Star => vec![(b'*', AKind::Structural)],
    }
}

pub const MNEMONICS: [(u16, &str); 18] = [
    (1, "A"),
    (2, "NS"),
    (3, "MD"),
    (4, "MF"),
    (5, "CNAME"),
    (6, "SOA"),
    (7, "MB"),
    (8, "MG"),
    (9, "MR"),
    (10, "NULL"),
    (11, "WKS"),
    (12, "PTR"),
    (13, "HINFO"),
    (14, "MINFO"),
    (15, "MX"),
    (16, "TXT"),
    (28, "AAAA"),
    (33, "SRV"),
];

fn type_text(numeric: bool, code: u16) -> Vec<Atom> {
    match (numeric, MNEMONICS.iter().find(|p| p.0 == code)) {
        (false, Some(p)) => plain(p.1.as_bytes()),
        _ => plain(format!("TYPE{code}").as_bytes()),
    }
}

/// own formatter of the compressed IPv6 text (first longest run of ≥ 2 zero groups becomes `::`,
/// `::ffff:a.b.c.d` for mapped addresses) — not `std`'s, which is the thing under test upstream
fn show_ipv6(g: &[u64]) -> String {
    if g.len() == 8 && g[0..5].iter().all(|x| *x == 0) && g[5] == 0xffff {
        return format!("::ffff:{}.{}.{}.{}", g[6] >> 8, g[6] & 255, g[7] >> 8, g[7] & 255);
    }
    let (mut best_s, mut best_l, mut cur_s, mut cur_l) = (0usize, 0usize, 0usize, 0usize);
    for (i, x) in g.iter().enumerate() {
        if *x == 0 {
            if cur_l == 0 {
                cur_s = i;
            }
            cur_l += 1;
            if cur_l > best_l {
                best_s = cur_s;
                best_l = cur_l;
            }
        } else {
            cur_l = 0;
        }
    }
    let hex = |xs: &[u64]| xs.iter().map(|x| format!("{x:x}")).collect::<Vec<_>>().join(":");
    if best_l > 1 {
        format!("{}::{}", hex(&g[..best_s]), hex(&g[best_s + best_l..]))
    } else {
        hex(g)
    }
}

fn field_atoms(lv: &LineVar, f: &RField) -> Vec<Atom> {
    match f {
        RField::Name(n) => name_atoms(n),
        RField::U16(n) | RField::U32(n) => plain(n.to_string().as_bytes()),
        RField::A(a) => plain(format!("{}.{}.{}.{}", (a >> 24) & 255, (a >> 16) & 255, (a >> 8) & 255, a & 255).as_bytes()),
        RField::Aaaa(g) => {
            if lv.aaaa_full {
                plain(g.iter().map(|x| format!("{x:x}")).collect::<Vec<_>>().join(":").as_bytes())
            } else {
                plain(show_ipv6(g).as_bytes())
            }
        }
        RField::Octets(bs) => plain(bs),
    }
}

pub fn directive_tokens(lv: &LineVar, d: &Directive) -> Vec<Vec<Atom>> {
    match d {
        Directive::Origin(n) => vec![plain(b"$ORIGIN"), name_atoms(n)],
        Directive::Include(p, o) => {
            let mut v = vec![plain(b"$INCLUDE"), plain(p)];
            if let Some(n) = o {
                v.push(name_atoms(n));
            }
            v
        }
        Directive::Record(r) => {
            let mut v = Vec::new();
            if let Some(o) = &r.owner {
                v.push(owner_atoms(o));
            }
            let ttl = r.ttl.map(|t| plain(t.to_string().as_bytes()));
            let cls = r.cls.as_ref().map(|x| plain(x));
            if lv.class_first {
                v.extend(cls);
                v.extend(ttl);
            } else {
                v.extend(ttl);
                v.extend(cls);
            }
            v.push(type_text(lv.type_numeric, r.rtype));
            for f in &r.rdata {
                v.push(field_atoms(lv, f));
            }
            v
        }
        Directive::Blank(_) => Vec::new(),
    }
}

fn sep_text(k: usize) -> &'static str {
    match k % 4 {
        0 => " ",
        1 => "\t",
        2 => "  ",
        _ => " \t ",
    }
}

fn cyc<T: Clone + Default>(xs: &[T], i: usize) -> T {
    if xs.is_empty() {
        T::default()
    } else {
        xs[i % xs.len()].clone()
    }
}

/// a rendered line as pieces: (text, is_token)
pub type Pieces = Vec<(String, bool)>;

pub fn render_line(lv: &LineVar, eol: &str, d: &Directive, out: &mut Pieces) {
    if let Directive::Blank(c) = d {
        if let Some(c) = c {
            out.push((format!(";{c}"), false));
        }
        return;
    }
    let toks = directive_tokens(lv, d);
    let n = toks.len();
    let paren = lv.open_at != 0 && lv.open_at < n;
    let close = if paren { lv.close_at.max(lv.open_at).min(n - 1) } else { 0 };
    if matches!(d, Directive::Record(r) if r.owner.is_none()) {
        out.push((sep_text(cyc(&lv.seps, 0)).to_string(), false));
    }
    for (k, t) in toks.iter().enumerate() {
        if k > 0 {
            let sep = sep_text(cyc(&lv.seps, k));
            let gap = if !paren {
                sep.to_string()
            } else if k == lv.open_at {
                format!("{sep}({sep}")
            } else if lv.open_at < k && k <= close {
                if k < 64 && (lv.nl_mask >> k) & 1 == 1 {
                    format!("{}{eol}{sep}", if lv.nl_comment { " ; (c \"" } else { "" })
                } else {
                    sep.to_string()
                }
            } else if k == close + 1 {
                format!("{sep}){sep}")
            } else {
                sep.to_string()
            };
            out.push((gap, false));
        }
        out.push((render_token(&cyc(&lv.toks, k), t), true));
    }
    if paren && close == n - 1 {
        out.push((" )".to_string(), false));
    }
    if let Some(c) = &lv.comment {
        out.push((format!(" ;{c}"), false));
    }
}

pub fn render_pieces(ds: &[Directive], v: &FileVar) -> Pieces {
    let eol = if v.crlf { "\r\n" } else { "\n" };
    let mut out = Pieces::new();
    for (i, d) in ds.iter().enumerate() {
        render_line(&cyc(&v.lines, i), eol, d, &mut out);
        if i + 1 < ds.len() || v.final_newline {
            out.push((eol.to_string(), false));
        }
    }
    out
}

pub fn pieces_text(p: &Pieces) -> String {
    p.iter().map(|x| x.0.as_str()).collect()
}

// --- compact text form of directive lists and variants (parsed by Driver/ZoneTextCmds.lean)

fn nameref_text(n: &NameRef) -> String {
    match n {
        NameRef::Abs(ls) => format!("A{}", c::raw_labels(ls)),
        NameRef::Rel(ls) => format!("L{}", c::raw_labels(ls)),
        NameRef::At => "@".to_string(),
    }
}

fn opt_hex_chars(c: &Option<String>) -> String {
    match c {
        None => "-".to_string(),
        Some(s) => format!("={}", c::raw_hex(s.as_bytes())),
    }
}

pub fn directive_text(d: &Directive) -> String {
    match d {
        Directive::Origin(n) => format!("O,{}", nameref_text(n)),
        Directive::Include(p, o) => format!("I,{},{}", c::hex(p), o.as_ref().map_or("-".to_string(), nameref_text)),
        Directive::Record(r) => {
            let owner = match &r.owner {
                None => "-".to_string(),
                Some(OwnerRef::Star) => "*".to_string(),
                Some(OwnerRef::Name(n)) => format!("N{}", nameref_text(n)),
                Some(OwnerRef::Wild(n)) => format!("W{}", nameref_text(n)),
            };
            let rdata: Vec<String> = r
                .rdata
                .iter()
                .map(|f| match f {
                    RField::Name(n) => format!("n={}", nameref_text(n)),
                    RField::U16(n) => format!("h={n}"),
                    RField::U32(n) => format!("w={n}"),
                    RField::A(n) => format!("a={n}"),
                    RField::Aaaa(g) => format!("q={}", g.iter().map(|x| x.to_string()).collect::<Vec<_>>().join("_")),
                    RField::Octets(bs) => format!("o={}", c::hex(bs)),
                })
                .collect();
            format!(
                "R,{},{},{},{},{}",
                owner,
                r.ttl.map_or("-".to_string(), |t| t.to_string()),
                r.cls.as_ref().map_or("-".to_string(), |x| c::hex(x)),
                r.rtype,
                if rdata.is_empty() { "-".to_string() } else { rdata.join("+") }
            )
        }
        Directive::Blank(cm) => format!("B,{}", opt_hex_chars(cm)),
    }
}

pub fn directives_text(ds: &[Directive]) -> String {
    if ds.is_empty() {
        return "-".to_string();
    }
    ds.iter().map(directive_text).collect::<Vec<_>>().join(" ")
}

fn b01(b: bool) -> char {
    if b {
        '1'
    } else {
        '0'
    }
}

pub fn filevar_text(v: &FileVar) -> String {
    let mut s = format!("{}{}", b01(v.crlf), b01(v.final_newline));
    for lv in &v.lines {
        let toks = if lv.toks.is_empty() {
            "-".to_string()
        } else {
            lv.toks
                .iter()
                .map(|t| {
                    let mut x = String::new();
                    x.push(b01(t.quoted));
                    for f in &t.pattern {
                        x.push(match f {
                            OForm::Bare => 'b',
                            OForm::Backslash => 'x',
                            OForm::Decimal => 'd',
                        });
                    }
                    x
                })
                .collect::<Vec<_>>()
                .join(".")
        };
        let seps = if lv.seps.is_empty() { "-".to_string() } else { lv.seps.iter().map(|k| (k % 4).to_string()).collect() };
        s.push_str(&format!(
            " {}{}{}{},{},{},{},{},{},{}",
            b01(lv.class_first),
            b01(lv.type_numeric),
            b01(lv.aaaa_full),
            b01(lv.nl_comment),
            lv.open_at,
            lv.close_at,
            lv.nl_mask,
            seps,
            toks,
            opt_hex_chars(&lv.comment)
        ));
    }
    s
}

// ---------------------------------------------------------------------------------------------
// generators of directive lists and variants

const PLAIN_LABELS: [&[u8]; 10] = [b"a", b"b", b"www", b"ns", b"mail", b"x1", b"Host", b"sub", b"in", b"txt"];
const ODD_LABELS: [&[u8]; 16] = [
    b"a b",
    b"q\"t",
    b"b\\s",
    b"s;c",
    b"(p)",
    b"@",
    b"a@b",
    b"*x",
    b"x*",
    b"\x00\x01",
    b"\x7f",
    b"\t",
    b"UP",
    b"IN",
    b"300",
    b"$ORIGIN",
];

/// labels with a literal dot, and the label `@` (written escaped; candidate finding C11-K2)
const DOT_LABELS: [&[u8]; 5] = [b"a.b", b".", b"x.", b"@", b".y"];

thread_local! { static DOTS: std::cell::Cell<bool> = const { std::cell::Cell::new(false) }; }

fn gen_label(r: &mut Rng, odd: bool) -> Vec<u8> {
    if DOTS.with(|d| d.get()) && r.chance(1, 3) {
        return r.pick(&DOT_LABELS).to_vec();
    }
    if odd && r.chance(1, 3) {
        if r.chance(1, 4) {
            // any ASCII octets but '.'
            let len = r.range(1, 4);
            (0..len)
                .map(|_| loop {
                    let b = r.below(128) as u8;
                    if b != b'.' {
                        break b;
                    }
                })
                .collect()
        } else {
            r.pick(&ODD_LABELS).to_vec()
        }
    } else {
        r.pick(&PLAIN_LABELS).to_vec()
    }
}

/// an absolute name (labels without root) beneath `base`
fn gen_under(r: &mut Rng, base: &[Vec<u8>], max: usize, odd: bool) -> Vec<Vec<u8>> {
    let k = r.range(0, max);
    let mut v: Vec<Vec<u8>> = (0..k).map(|_| gen_label(r, odd)).collect();
    v.extend(base.iter().cloned());
    v
}

/// write an absolute name in one of the forms possible under the current origin
fn name_ref(r: &mut Rng, abs: &[Vec<u8>], origin: &Option<Vec<Vec<u8>>>) -> NameRef {
    if let Some(o) = origin {
        let lower = |v: &[Vec<u8>]| v.iter().map(|l| l.to_ascii_lowercase()).collect::<Vec<_>>();
        if abs.len() >= o.len() && lower(&abs[abs.len() - o.len()..]) == lower(o) && !r.chance(1, 4) {
            let rel = &abs[..abs.len() - o.len()];
            if rel.is_empty() {
                return NameRef::At;
            }
            if rel != [b"@".to_vec()] || DOTS.with(|d| d.get()) {
                return NameRef::Rel(rel.to_vec());
            }
        }
    }
    NameRef::Abs(abs.to_vec())
}

fn gen_octets(r: &mut Rng) -> Vec<u8> {
    match r.below(8) {
        0 => Vec::new(),
        1 => (0..r.range(1, 12)).map(|_| r.byte()).collect(),
        2 => (0..r.range(1, 8)).map(|_| *r.pick(b"\"\\;() \t\n@*.\x00\x7f\xff\x80")).collect(),
        3 => r.pick(&[&b"A"[..], b"NS", b"TYPE1", b"IN", b"300", b"$ORIGIN", b"@", b"*"]).to_vec(),
        _ => (0..r.range(1, 10)).map(|_| *r.pick(b"abcxyz019 -_=")).collect(),
    }
}

pub const ALL_TYPES: [u16; 18] = [1, 2, 3, 4, 5, 6, 7, 8, 9, 10, 11, 12, 13, 14, 15, 16, 28, 33];

struct Ctx {
    apex: Vec<Vec<u8>>,
    origin: Option<Vec<Vec<u8>>>,
    odd: bool,
}

fn gen_target(r: &mut Rng, cx: &Ctx) -> NameRef {
    let abs = if r.chance(1, 5) {
        gen_under(r, &[b"other".to_vec(), b"net".to_vec()], 1, cx.odd)
    } else {
        gen_under(r, &cx.apex, 2, cx.odd)
    };
    name_ref(r, &abs, &cx.origin)
}

fn gen_num(r: &mut Rng, max: u64) -> u64 {
    match r.below(6) {
        0 => 0,
        1 => max,
        2 => r.next_u64() % (max + 1),
        _ => r.below(1000) as u64,
    }
}

fn gen_rdata(r: &mut Rng, cx: &Ctx, rtype: u16) -> Vec<RField> {
    match rtype {
        1 => vec![RField::A(match r.below(4) {
            0 => 0,
            1 => 0xffff_ffff,
            2 => r.next_u64() & 0xffff_ffff,
            _ => 0x0a00_0000 + r.below(4) as u64,
        })],
        28 => {
            let g: Vec<u64> = match r.below(7) {
                0 => vec![0; 8],
                1 => vec![0, 0, 0, 0, 0, 0, 0, 1],
                2 => vec![0, 0, 0, 0, 0, 0xffff, r.below(65536) as u64, r.below(65536) as u64],
                3 => (0..8).map(|_| r.below(65536) as u64).collect(),
                4 => (0..8).map(|_| if r.chance(1, 2) { 0 } else { r.below(65536) as u64 }).collect(),
                5 => vec![1, 0, 0, 2, 0, 0, 0, 3],
                _ => vec![0xfd00, 0, 0, 0, 0, 0, 0, r.below(4) as u64],
            };
            vec![RField::Aaaa(g)]
        }
        2 | 3 | 4 | 5 | 7 | 8 | 9 | 12 => vec![RField::Name(gen_target(r, cx))],
        6 => vec![
            RField::Name(gen_target(r, cx)),
            RField::Name(gen_target(r, cx)),
            RField::U32(gen_num(r, 0xffff_ffff)),
            RField::U32(gen_num(r, 0xffff_ffff)),
            RField::U32(gen_num(r, 0xffff_ffff)),
            RField::U32(gen_num(r, 0xffff_ffff)),
            RField::U32(*r.pick(&[0u64, 0, 10, 300, 5000, 0xffff_ffff])),
        ],
        10 | 11 | 13 | 16 => vec![RField::Octets(gen_octets(r))],
        14 => vec![RField::Name(gen_target(r, cx)), RField::Name(gen_target(r, cx))],
        15 => vec![RField::U16(gen_num(r, 0xffff)), RField::Name(gen_target(r, cx))],
        33 => vec![
            RField::U16(gen_num(r, 0xffff)),
            RField::U16(gen_num(r, 0xffff)),
            RField::U16(gen_num(r, 0xffff)),
            RField::Name(gen_target(r, cx)),
        ],
        _ => vec![RField::Octets(gen_octets(r))],
    }
}

fn gen_ttl(r: &mut Rng) -> u64 {
    *r.pick(&[0u64, 5, 300, 300, 3600, 86400, 0xffff_ffff])
}

fn gen_owner(r: &mut Rng, cx: &Ctx) -> OwnerRef {
    let abs = gen_under(r, &cx.apex, 2, cx.odd);
    match r.below(10) {
        0 if cx.origin.is_some() => OwnerRef::Star,
        1 | 2 => OwnerRef::Wild(name_ref(r, &abs, &cx.origin)),
        _ => OwnerRef::Name(name_ref(r, &abs, &cx.origin)),
    }
}

const COMMENTS: [&str; 6] = ["", " comment", " ( unbalanced \" \\", " ) ; ;", " \t$ORIGIN x.", " é\u{2028}😀"];

/// a directive list that is (mostly) a valid zone file
pub fn gen_directives(r: &mut Rng) -> Vec<Directive> {
    let dots = r.chance(1, 30);
    DOTS.with(|d| d.set(dots));
    let auth = r.chance(2, 3);
    let apex: Vec<Vec<u8>> = if auth {
        match r.below(5) {
            0 => vec![],
            1 => vec![b"lan".to_vec()],
            2 => vec![b"a".to_vec(), b"example".to_vec(), b"com".to_vec()],
            _ => vec![b"example".to_vec(), b"com".to_vec()],
        }
    } else {
        vec![]
    };
    let mut cx = Ctx { apex: apex.clone(), origin: None, odd: r.chance(1, 3) };
    let mut ds = Vec::new();
    if r.chance(1, 4) {
        ds.push(Directive::Blank(if r.chance(1, 2) { Some(r.pick(&COMMENTS).to_string()) } else { None }));
    }
    if r.chance(4, 5) {
        let o = if r.chance(3, 4) { apex.clone() } else { gen_under(r, &apex, 1, false) };
        ds.push(Directive::Origin(NameRef::Abs(o.clone())));
        cx.origin = Some(o);
    }
    let nrec = r.range(1, 8);
    let soa_at = if auth { r.below(nrec.min(2)) } else { usize::MAX };
    let mut have_prev = false;
    for i in 0..nrec {
        if r.chance(1, 8) {
            ds.push(Directive::Blank(if r.chance(1, 2) { Some(r.pick(&COMMENTS).to_string()) } else { None }));
        }
        if r.chance(1, 10) {
            // change the origin: absolute, or relative to the current one
            let o_abs = gen_under(r, &apex, 1, cx.odd);
            let nr = name_ref(r, &o_abs, &cx.origin);
            if nr != NameRef::At || cx.origin.is_some() {
                ds.push(Directive::Origin(nr));
                cx.origin = Some(o_abs);
            }
        }
        let rtype = if i == soa_at { 6 } else { *r.pick(&[1u16, 1, 1, 2, 2, 5, 15, 16, 16, 28, 28, 33, 12, 13, 14, 10, 11, 3, 4, 7, 8, 9]) };
        let owner = if i == soa_at {
            Some(OwnerRef::Name(name_ref(r, &apex, &cx.origin)))
        } else if have_prev && r.chance(1, 3) {
            None
        } else {
            Some(gen_owner(r, &cx))
        };
        let ttl = if (have_prev && r.chance(1, 3)) || (rtype == 6 && r.chance(1, 2)) { None } else { Some(gen_ttl(r)) };
        let cls = if r.chance(2, 3) { Some(b"IN".to_vec()) } else { None };
        let rdata = gen_rdata(r, &cx, rtype);
        ds.push(Directive::Record(Rec { owner, ttl, cls, rtype, rdata }));
        have_prev = true;
    }
    if r.chance(1, 6) {
        ds.push(Directive::Blank(Some(r.pick(&COMMENTS).to_string())));
    }
    ds
}

fn gen_tokvar(r: &mut Rng, plain: bool) -> TokVar {
    if plain {
        return TokVar::default();
    }
    let quoted = r.chance(1, 4);
    let pattern = match r.below(6) {
        0 => vec![OForm::Decimal],
        1 => vec![OForm::Backslash],
        2 => (0..r.range(1, 4)).map(|_| *r.pick(&[OForm::Bare, OForm::Backslash, OForm::Decimal])).collect(),
        _ => vec![],
    };
    TokVar { quoted, pattern }
}

pub fn gen_linevar(r: &mut Rng) -> LineVar {
    let plain = r.chance(1, 2);
    let paren = r.chance(1, 4);
    LineVar {
        class_first: r.chance(1, 2),
        type_numeric: r.chance(1, 8),
        aaaa_full: r.chance(1, 4),
        toks: (0..r.range(0, 4))
            .map(|_| {
                let p = plain || r.chance(1, 2);
                gen_tokvar(r, p)
            })
            .collect(),
        seps: (0..r.range(0, 3)).map(|_| r.below(4)).collect(),
        open_at: if paren { r.range(1, 4) } else { 0 },
        close_at: if paren { r.range(1, 12) } else { 0 },
        nl_mask: if paren { r.next_u64() & 0xfff } else { 0 },
        nl_comment: r.chance(1, 3),
        comment: if r.chance(1, 5) { Some(r.pick(&COMMENTS).to_string()) } else { None },
    }
}

pub fn gen_filevar(r: &mut Rng) -> FileVar {
    FileVar {
        lines: (0..r.range(1, 5)).map(|_| gen_linevar(r)).collect(),
        crlf: r.chance(1, 6),
        final_newline: !r.chance(1, 4),
    }
}

/// one AST-level fault
pub fn ast_fault(r: &mut Rng, ds: &[Directive]) -> Vec<Directive> {
    let mut v = ds.to_vec();
    let rec_idx: Vec<usize> = v.iter().enumerate().filter(|(_, d)| matches!(d, Directive::Record(_))).map(|(i, _)| i).collect();
    let soa_idx = rec_idx.iter().copied().find(|i| matches!(&v[*i], Directive::Record(x) if x.rtype == 6));
    match r.below(9) {
        0 => {
            let at = r.below(v.len() + 1);
            let o = if r.chance(1, 2) { Some(NameRef::Abs(vec![b"inc".to_vec()])) } else { None };
            v.insert(at, Directive::Include(b"other.zone".to_vec(), o));
        }
        1 | 2 if !rec_idx.is_empty() => {
            let i = *r.pick(&rec_idx);
            if let Directive::Record(x) = &mut v[i] {
                x.cls = Some(r.pick(&[&b"CH"[..], b"HS", b"CS"]).to_vec());
                // bias towards the shapes of the known finding
                if r.chance(1, 2) {
                    x.owner = None;
                }
                if r.chance(1, 3) {
                    x.ttl = None;
                }
            }
        }
        3 if r.chance(1, 2) => {
            // the FIRST $ORIGIN loses its final dot (or becomes `@`): a relative name with nothing to be
            // relative to - the file is to be rejected, not read against the root
            if let Some(i) = v.iter().position(|d| matches!(d, Directive::Origin(_))) {
                if let Directive::Origin(n) = &mut v[i] {
                    *n = match n.clone() {
                        NameRef::Abs(ls) if !ls.is_empty() && r.chance(3, 4) => NameRef::Rel(ls),
                        _ => NameRef::At,
                    };
                }
            }
        }
        3 => {
            // remove every $ORIGIN
            v.retain(|d| !matches!(d, Directive::Origin(_)));
        }
        4 => {
            // a second SOA (or a first one that is a wildcard)
            let cx = Ctx { apex: vec![b"example".to_vec(), b"com".to_vec()], origin: None, odd: false };
            let mut rd = gen_rdata(r, &cx, 6);
            for f in rd.iter_mut() {
                if let RField::Name(_) = f {
                    *f = RField::Name(NameRef::Abs(vec![b"ns".to_vec()]));
                }
            }
            let owner = match soa_idx {
                Some(i) => match &v[i] {
                    Directive::Record(x) => x.owner.clone(),
                    _ => None,
                },
                None => Some(OwnerRef::Wild(NameRef::Abs(vec![b"w".to_vec()]))),
            };
            let owner = owner.or(Some(OwnerRef::Name(NameRef::Abs(vec![]))));
            v.push(Directive::Record(Rec { owner, ttl: Some(5), cls: Some(b"IN".to_vec()), rtype: 6, rdata: rd }));
        }
        5 => {
            if let Some(i) = soa_idx {
                if let Directive::Record(x) = &mut v[i] {
                    x.owner = match x.owner.take() {
                        Some(OwnerRef::Name(n)) => Some(OwnerRef::Wild(n)),
                        o => o,
                    };
                }
            }
        }
        6 => {
            v.push(Directive::Record(Rec {
                owner: Some(OwnerRef::Name(NameRef::Abs(vec![b"outside".to_vec(), b"invalid".to_vec()]))),
                ttl: Some(1),
                cls: Some(b"IN".to_vec()),
                rtype: 1,
                rdata: vec![RField::A(1)],
            }));
        }
        7 => {
            // no TTL anywhere before the first non-SOA record
            for i in &rec_idx {
                if let Directive::Record(x) = &mut v[*i] {
                    x.ttl = None;
                    if x.rtype != 6 {
                        break;
                    }
                }
            }
        }
        _ => {
            if let Some(i) = rec_idx.first() {
                if let Directive::Record(x) = &mut v[*i] {
                    x.owner = None;
                }
            }
        }
    }
    v
}

/// every single-fault corruption of a rendered text (by pieces), capped at `cap` (sampled beyond)
pub fn text_faults(r: &mut Rng, p: &Pieces, cap: usize) -> Vec<String> {
    let mut out = Vec::new();
    let tok_idx: Vec<usize> = p.iter().enumerate().filter(|(_, x)| x.1).map(|(i, _)| i).collect();
    let build = |f: &dyn Fn(usize, &str, &mut String)| -> String {
        let mut s = String::new();
        for (i, x) in p.iter().enumerate() {
            f(i, &x.0, &mut s);
        }
        s
    };
    const ALTER: [&str; 10] = ["IN", "CH", "300", "x", "@", "*", "A", "SOA", "\"", "\\"];
    for &t in &tok_idx {
        // drop (with the gap before it, when there is one)
        out.push(build(&|i, x, s| {
            if i != t {
                s.push_str(x)
            }
        }));
        // duplicate
        out.push(build(&|i, x, s| {
            s.push_str(x);
            if i == t {
                s.push(' ');
                s.push_str(x)
            }
        }));
        // alter
        for a in ALTER {
            out.push(build(&|i, x, s| s.push_str(if i == t { a } else { x })));
        }
    }
    // unbalance one quote / parenthesis: delete or insert one such char at each position where one stands
    let text = pieces_text(p);
    let chars: Vec<char> = text.chars().collect();
    for (i, ch) in chars.iter().enumerate() {
        if matches!(ch, '"' | '(' | ')' | '\\') {
            out.push(chars.iter().enumerate().filter(|(j, _)| *j != i).map(|(_, c)| *c).collect());
            let mut d: Vec<char> = chars.clone();
            d.insert(i, *ch);
            out.push(d.into_iter().collect());
        }
    }
    for ins in ['"', '(', ')', '\\', ';'] {
        let at = r.below(chars.len() + 1);
        let mut d = chars.clone();
        d.insert(at, ins);
        out.push(d.into_iter().collect());
    }
    // truncate
    if !chars.is_empty() {
        let at = r.below(chars.len());
        out.push(chars[..at].iter().collect());
    }
    while out.len() > cap {
        let i = r.below(out.len());
        out.swap_remove(i);
    }
    out
}

/// a (mostly valid) rendered zone file, as text
pub fn rendered_text(r: &mut Rng) -> String {
    let ds = gen_directives(r);
    let v = gen_filevar(r);
    pieces_text(&render_pieces(&ds, &v))
}

fn emit_rendered(ds: &[Directive], v: &FileVar, out: &mut Out) -> Pieces {
    let p = render_pieces(ds, v);
    let text = pieces_text(&p);
    let res = parse(&text);
    out.case(
        &["ztext.rendered", &directives_text(ds), &filevar_text(v), &c::hex(text.as_bytes())],
        &parse_text(&res),
    );
    p
}

/// the systematic part: for each type, each of the 2^4 optional-field shapes, one line and parenthesised
fn shape_product(r: &mut Rng, out: &mut Out) {
    let apex = vec![b"example".to_vec(), b"com".to_vec()];
    for &rtype in ALL_TYPES.iter() {
        for bits in 0..32u32 {
            let (own, ttl, cls, cf, paren) = (bits & 1 != 0, bits & 2 != 0, bits & 4 != 0, bits & 8 != 0, bits & 16 != 0);
            let cx = Ctx { apex: apex.clone(), origin: Some(apex.clone()), odd: false };
            let first = Directive::Record(Rec {
                owner: Some(OwnerRef::Name(NameRef::Rel(vec![b"first".to_vec()]))),
                ttl: Some(7),
                cls: Some(b"IN".to_vec()),
                rtype: 16,
                rdata: vec![RField::Octets(b"t".to_vec())],
            });
            let second = Directive::Record(Rec {
                owner: if own { Some(OwnerRef::Name(NameRef::Rel(vec![b"second".to_vec()]))) } else { None },
                ttl: if ttl { Some(9) } else { None },
                cls: if cls { Some(b"IN".to_vec()) } else { None },
                rtype,
                rdata: gen_rdata(r, &cx, rtype),
            });
            let lv = LineVar {
                class_first: cf,
                open_at: if paren { 1 } else { 0 },
                close_at: 20,
                nl_mask: if paren { 0b1010_1010 } else { 0 },
                ..LineVar::default()
            };
            let v = FileVar { lines: vec![lv], crlf: false, final_newline: true };
            emit_rendered(&[Directive::Origin(NameRef::Abs(apex.clone())), first, second], &v, out);
        }
    }
}

pub fn run_rendered(r: &mut Rng, n: usize, out: &mut Out) {
    shape_product(r, out);
    let mut done = 0;
    while done < n {
        let ds = gen_directives(r);
        let v = gen_filevar(r);
        let p = emit_rendered(&ds, &v, out);
        done += 1;
        // the same directives in another variant
        if r.chance(1, 2) {
            let v2 = gen_filevar(r);
            emit_rendered(&ds, &v2, out);
            done += 1;
        }
        // the same text with every trailing comment glued onto the token before it (`1.2.3.4;web`): a `;`
        // starts a comment wherever it stands outside quotes, so the meaning must not change
        {
            let mut glued = String::new();
            let mut any = false;
            for (i, (text, is_tok)) in p.iter().enumerate() {
                if !*is_tok && text.starts_with(" ;") && i > 0 && p[i - 1].1 {
                    glued.push_str(&text[1..]);
                    any = true;
                } else {
                    glued.push_str(text);
                }
            }
            if any {
                let orig = pieces_text(&p);
                out.case(&["ztext.glued", &c::hex(orig.as_bytes()), &c::hex(glued.as_bytes())], &parse_text(&parse(&glued)));
                done += 1;
            }
        }
        // one AST-level fault
        let fds = ast_fault(r, &ds);
        emit_rendered(&fds, &v, out);
        done += 1;
        // single-fault corruptions of the text: all of them for small files, a sample otherwise
        let ntok = p.iter().filter(|x| x.1).count();
        let cap = if ntok <= 8 { usize::MAX } else { 12 };
        for t in text_faults(r, &p, cap) {
            let res = parse(&t);
            out.case(&["ztext.parse", &c::hex(t.as_bytes())], &parse_text(&res));
            done += 1;
        }
    }
}

// ---------------------------------------------------------------------------------------------
// ztext-roundtrip

fn api_label(r: &mut Rng, wf: bool) -> Label {
    let bs: Vec<u8> = match r.below(8) {
        0 => {
            // any ASCII octet but '.', not starting with '*'
            let len = r.range(1, 5);
            (0..len)
                .map(|i| loop {
                    let b = r.below(128) as u8;
                    if b != b'.' && !(i == 0 && b == b'*') {
                        break b;
                    }
                })
                .collect()
        }
        1 => r.pick(&[&b"@"[..], b"a b", b"q\"", b"\\", b";", b"(", b")", b"\x00", b"\x7f", b"x*", b"300", b"in", b"a@"]).to_vec(),
        2 if !wf => r.pick(&[&b"*"[..], b"*x", b"a.b", b".", b"\xff", b"\x80\xc3"]).to_vec(),
        _ => r.pick(&PLAIN_LABELS).to_vec(),
    };
    Label::try_from(&bs[..]).unwrap()
}

fn api_name(r: &mut Rng, base: &DomainName, max: usize, wf: bool) -> DomainName {
    let k = r.range(0, max);
    let mut ls: Vec<Label> = (0..k).map(|_| api_label(r, wf)).collect();
    ls.extend(base.labels.iter().cloned());
    DomainName::from_labels(ls).unwrap_or_else(|| base.clone())
}

fn api_rdata(r: &mut Rng, apex: &DomainName, wf: bool) -> RecordTypeWithData {
    use bytes::Bytes;
    use std::net::{Ipv4Addr, Ipv6Addr};
    use RecordTypeWithData as R;
    let nm = |r: &mut Rng| {
        if r.chance(1, 4) {
            api_name(r, &DomainName::root_domain(), 2, wf)
        } else {
            api_name(r, apex, 2, wf)
        }
    };
    let oct = |r: &mut Rng| Bytes::from(gen_octets(r));
    match r.below(22) {
        0 | 1 => R::A { address: Ipv4Addr::from(r.next_u64() as u32) },
        2 => R::A { address: Ipv4Addr::new(10, 0, 0, r.below(3) as u8) },
        3 | 4 => {
            let g: Vec<u16> = match r.below(5) {
                0 => vec![0; 8],
                1 => vec![0, 0, 0, 0, 0, 0xffff, r.next_u64() as u16, r.next_u64() as u16],
                2 => (0..8).map(|_| r.next_u64() as u16).collect(),
                3 => (0..8).map(|_| if r.chance(1, 2) { 0 } else { r.next_u64() as u16 }).collect(),
                _ => vec![0xfd00, 0, 0, 0, 0, 0, 0, r.below(3) as u16],
            };
            R::AAAA { address: Ipv6Addr::new(g[0], g[1], g[2], g[3], g[4], g[5], g[6], g[7]) }
        }
        5 => R::NS { nsdname: nm(r) },
        6 => R::MD { madname: nm(r) },
        7 => R::MF { madname: nm(r) },
        8 => R::CNAME { cname: nm(r) },
        9 => R::MB { madname: nm(r) },
        10 => R::MG { mdmname: nm(r) },
        11 => R::MR { newname: nm(r) },
        12 => R::PTR { ptrdname: nm(r) },
        13 => R::NULL { octets: oct(r) },
        14 => R::WKS { octets: oct(r) },
        15 => R::HINFO { octets: oct(r) },
        16 | 17 => R::TXT { octets: oct(r) },
        18 => R::MINFO { rmailbx: nm(r), emailbx: nm(r) },
        19 => R::MX { preference: r.next_u64() as u16, exchange: nm(r) },
        20 if !wf && r.chance(1, 2) => match RecordType::from(*r.pick(&[99u16, 0, 65535])) {
            RecordType::Unknown(tag) => R::Unknown { tag, octets: oct(r) },
            _ => unreachable!(),
        },
        20 if !wf => R::SOA {
            mname: nm(r),
            rname: nm(r),
            serial: 1,
            refresh: 2,
            retry: 3,
            expire: 4,
            minimum: 5,
        },
        _ => R::SRV { priority: r.next_u64() as u16, weight: r.below(3) as u16, port: r.next_u64() as u16, target: nm(r) },
    }
}

/// a zone built through `Zone::new` / `insert` / `insert_wildcard`, with its zonespec text
fn api_zone(r: &mut Rng) -> (Zone, String) {
    let wf = !r.chance(1, 8);
    let root = DomainName::root_domain();
    let auth = r.chance(2, 3);
    let apex = if auth || (!wf && r.chance(1, 2)) {
        match r.below(4) {
            0 => root.clone(),
            1 => api_name(r, &root, 2, wf),
            2 => DomainName::from_dotted_string("lan.").unwrap(),
            _ => DomainName::from_dotted_string("example.com.").unwrap(),
        }
    } else {
        root.clone()
    };
    let soa = if auth {
        Some(SOA {
            mname: api_name(r, &apex, 1, wf),
            rname: api_name(r, &root, 2, wf),
            serial: r.next_u64() as u32,
            refresh: r.below(5) as u32,
            retry: r.below(5) as u32,
            expire: u32::MAX,
            minimum: *r.pick(&[0u32, 0, 10, 300, 5000]),
        })
    } else {
        None
    };
    let mut spec = format!("{}!{}", c::name(&apex), soa.as_ref().map_or("-".to_string(), crate::streams::zone::soa_text));
    let mut zone = Zone::new(apex.clone(), soa);
    for _ in 0..r.range(0, 8) {
        let name = if r.chance(1, 5) { apex.clone() } else { api_name(r, &apex, 3, wf) };
        let data = api_rdata(r, &apex, wf);
        let ttl = *r.pick(&[0u32, 5, 300, 300, 86400, u32::MAX]);
        let rr = ResourceRecord { name: name.clone(), rtype_with_data: data.clone(), rclass: RecordClass::IN, ttl };
        if r.chance(1, 4) {
            zone.insert_wildcard(&name, data, ttl);
            spec.push_str(&format!("!w:{}", c::rr(&rr)));
        } else {
            zone.insert(&name, data, ttl);
            spec.push_str(&format!("!i:{}", c::rr(&rr)));
        }
    }
    (zone, spec)
}

/// serialise, parse again, compare: `dump1#hex(serialised text)#res2#eq`
fn api_roundtrip_text(z: &Zone) -> String {
    match catch_unwind(AssertUnwindSafe(|| z.serialise())) {
        Err(_) => "panic".to_string(),
        Ok(t) => {
            let r2 = parse(&t);
            let eq = matches!(&r2, Ok(Ok(z2)) if z2 == z);
            format!("{}#{}#{}#{}", zone_dump(z), c::hex(t.as_bytes()), parse_text(&r2), if eq { "1" } else { "0" })
        }
    }
}

/// zone text whose labels and RDATA go through every octet class
fn octet_class_text(r: &mut Rng, k: usize) -> String {
    let mut s = String::new();
    let auth = k % 3 != 0;
    let apex = *r.pick(&["example.com.", "lan.", "."]);
    if auth {
        s.push_str(&format!("$ORIGIN {apex}\n@ IN SOA ns admin 1 2 3 4 {}\n", r.pick(&[0u32, 30, 300])));
    } else if r.chance(1, 2) {
        s.push_str(&format!("$ORIGIN {apex}\n"));
    }
    let esc = |b: u8| format!("\\{:03}", b);
    // owner labels: octet b (ASCII, not '.') alone and inside a label
    let b = (k % 128) as u8;
    if b != b'.' {
        let origin_known = auth || s.starts_with("$ORIGIN");
        let suffix = if origin_known { "" } else { "." };
        s.push_str(&format!("{}{} 300 IN A 10.0.0.1\n", esc(b), suffix));
        s.push_str(&format!("x{}y{} 300 IN A 10.0.0.2\n", esc(b), suffix));
        s.push_str(&format!("*.{}{} 300 IN A 10.0.0.3\n", esc(b), suffix));
        s.push_str(&format!("t{} 300 IN NS {}.t{}\n", suffix, esc(b), suffix));
        s.push_str(&format!("u{} 300 IN MX 1 {}{}\n", suffix, esc(b), suffix));
    }
    // RDATA octets: every value of the 256
    let o = (k % 256) as u8;
    s.push_str(&format!("txt{} 300 IN TXT {}\n", if auth { "" } else { "." }, esc(o)));
    s.push_str(&format!("txt{} 300 IN HINFO a{}b{}\n", if auth { "" } else { "." }, esc(o), esc(o.wrapping_add(128))));
    s.push_str(&format!("txt{} 300 IN NULL \"{} \"\n", if auth { "" } else { "." }, esc(o)));
    s.push_str(&format!("*{} 300 IN WKS {}{}\n", if auth { "" } else { "." }, esc(o), esc(o.wrapping_mul(7))));
    s
}

pub fn run_roundtrip(r: &mut Rng, n: usize, out: &mut Out) {
    // the known finding, and its neighbours
    for t in [
        "$ORIGIN *.e.\n@ 300 IN A 1.2.3.4\n",
        "$ORIGIN *.e.\n@ IN SOA ns admin 1 2 3 4 5\n@ 300 IN A 1.2.3.4\n",
        "$ORIGIN e.\n@ IN SOA ns admin 1 2 3 4 5\n$ORIGIN *.e.\n@ 300 IN A 1.2.3.4\nx 300 IN A 1.2.3.5\n",
        "$ORIGIN *.e.\n@ 300 IN A 1.2.3.4\n*.e. 300 IN A 1.2.3.4\n*.e. 30 IN TXT x\n",
        "$ORIGIN e.\n*.*.e. 300 IN A 1.2.3.4\n\\*x 300 IN A 1.2.3.4\nx\\* 1 IN NS *.f.\n",
        "$ORIGIN example.com.\n@ IN SOA ns admin 1 2 3 4 5\n\\@ 300 IN A 1.2.3.4\n\\@.sub 300 IN CNAME \\@\n",
    ] {
        out.case(&["ztext.roundtrip", &c::hex(t.as_bytes())], &roundtrip_text(t));
    }
    for k in 0..256 {
        let t = octet_class_text(r, k);
        out.case(&["ztext.roundtrip", &c::hex(t.as_bytes())], &roundtrip_text(&t));
    }
    let mut done = 0;
    let mut k = 256;
    while done < n {
        match r.below(10) {
            0..=3 => {
                // a rendered directive list (valid zone files in every variant)
                let ds = gen_directives(r);
                let v = gen_filevar(r);
                let t = pieces_text(&render_pieces(&ds, &v));
                out.case(&["ztext.roundtrip", &c::hex(t.as_bytes())], &roundtrip_text(&t));
            }
            4 => {
                let t = octet_class_text(r, k);
                k += 1;
                out.case(&["ztext.roundtrip", &c::hex(t.as_bytes())], &roundtrip_text(&t));
            }
            5 => {
                let t = fuzz_text(r);
                if t.len() < 4000 {
                    out.case(&["ztext.roundtrip", &c::hex(t.as_bytes())], &roundtrip_text(&t));
                }
            }
            6 => {
                let (z, spec) = api_zone(r);
                let text = match catch_unwind(AssertUnwindSafe(|| z.serialise())) {
                    Ok(t) => c::hex(t.as_bytes()),
                    Err(_) => "panic".to_string(),
                };
                out.case(&["ztext.serialise", &spec], &text);
            }
            _ => {
                let (z, spec) = api_zone(r);
                out.case(&["ztext.api", &spec], &api_roundtrip_text(&z));
            }
        }
        done += 1;
    }
}
