//! C02 / C12 streams: `Zone::{new, insert, insert_wildcard, resolve, merge}`.
use std::net::{Ipv4Addr, Ipv6Addr};
use std::panic::{catch_unwind, AssertUnwindSafe};

use bytes::Bytes;
use dns_types::protocol::types::*;
use dns_types::zones::types::*;

use crate::codec as c;
use crate::rng::Rng;
use crate::Out;

pub const LABELS: [&[u8]; 6] = [b"a", b"b", b"c", b"www", b"ns", b"x1"];

pub fn lbl(b: &[u8]) -> Label {
    Label::try_from(b).unwrap()
}

pub fn rel_name(r: &mut Rng, max: usize, apex: &DomainName) -> DomainName {
    let k = r.range(0, max);
    let mut ls: Vec<Label> = (0..k).map(|_| lbl(r.pick(&LABELS))).collect();
    ls.extend(apex.labels.iter().cloned());
    DomainName::from_labels(ls).unwrap()
}

pub fn small_name(r: &mut Rng) -> DomainName {
    let apexes: [&[&[u8]]; 4] = [&[], &[b"com"], &[b"example", b"com"], &[b"lan"]];
    let a = r.pick(&apexes);
    let mut ls: Vec<Label> = a.iter().map(|b| lbl(b)).collect();
    ls.push(Label::new());
    let base = DomainName::from_labels(ls).unwrap();
    rel_name(r, 2, &base)
}

pub fn soa(r: &mut Rng) -> SOA {
    SOA {
        mname: small_name(r),
        rname: small_name(r),
        serial: r.below(5) as u32,
        refresh: r.below(5) as u32,
        retry: r.below(5) as u32,
        expire: r.below(5) as u32,
        minimum: *r.pick(&[0u32, 0, 10, 300, 5000]),
    }
}

pub fn soa_text(s: &SOA) -> String {
    format!(
        "n:{},n:{},u32:{},u32:{},u32:{},u32:{},u32:{}",
        c::name(&s.mname),
        c::name(&s.rname),
        s.serial,
        s.refresh,
        s.retry,
        s.expire,
        s.minimum
    )
}

pub fn small_rdata(r: &mut Rng, apex: &DomainName) -> RecordTypeWithData {
    use RecordTypeWithData as R;
    match r.below(16) {
        0..=4 => R::A { address: Ipv4Addr::new(10, 0, 0, r.below(3) as u8) },
        5..=7 => R::NS { nsdname: rel_name(r, 2, apex) },
        8..=9 => R::CNAME { cname: if r.chance(1, 2) { rel_name(r, 2, apex) } else { small_name(r) } },
        10 => R::TXT { octets: Bytes::from(vec![b'a' + r.below(3) as u8; r.below(3)]) },
        11 => R::MX { preference: r.below(3) as u16, exchange: rel_name(r, 2, apex) },
        12..=13 => R::AAAA { address: Ipv6Addr::new(0xfd00, 0, 0, 0, 0, 0, 0, r.below(3) as u16) },
        14 => R::PTR { ptrdname: small_name(r) },
        _ => R::SRV { priority: 1, weight: 2, port: r.below(3) as u16, target: rel_name(r, 1, apex) },
    }
}

pub struct GenZone {
    pub zone: Zone,
    pub spec: String,
    pub apex: DomainName,
    pub owners: Vec<DomainName>,
}

/// build a zone through the insertion API and the matching zonespec text
pub fn gen_zone(r: &mut Rng, apex: Option<DomainName>, max_ops: usize) -> GenZone {
    let apex = apex.unwrap_or_else(|| match r.below(4) {
        0 => DomainName::root_domain(),
        1 => DomainName::from_dotted_string("com.").unwrap(),
        2 => DomainName::from_dotted_string("a.example.com.").unwrap(),
        _ => DomainName::from_dotted_string("example.com.").unwrap(),
    });
    let s = if r.chance(3, 4) { Some(soa(r)) } else { None };
    let mut spec = format!("{}!{}", c::name(&apex), s.as_ref().map_or("-".to_string(), soa_text));
    let mut zone = Zone::new(apex.clone(), s);
    let nops = r.range(0, max_ops);
    let mut owners = vec![apex.clone()];
    for _ in 0..nops {
        let name = if r.chance(1, 12) { small_name(r) } else { rel_name(r, 3, &apex) };
        let data = small_rdata(r, &apex);
        let ttl = *r.pick(&[0u32, 5, 300, 300, 86400]);
        let wild = r.chance(1, 5);
        let rr = ResourceRecord { name: name.clone(), rtype_with_data: data.clone(), rclass: RecordClass::IN, ttl };
        owners.push(name.clone());
        if wild {
            zone.insert_wildcard(&name, data, ttl);
            spec.push_str(&format!("!w:{}", c::rr(&rr)));
        } else {
            zone.insert(&name, data, ttl);
            spec.push_str(&format!("!i:{}", c::rr(&rr)));
        }
    }
    GenZone { zone, spec, apex, owners }
}

pub fn zone_result_text(qtype: QueryType, res: &Option<ZoneResult>) -> String {
    match res {
        None => "none".to_string(),
        Some(ZoneResult::Answer { rrs }) => {
            if qtype == QueryType::Wildcard {
                format!("answer {}", c::rrs_sorted(rrs))
            } else {
                format!("answer {}", c::rrs(rrs))
            }
        }
        Some(ZoneResult::CNAME { cname, rr }) => format!("cname {} {}", c::name(cname), c::rr(rr)),
        Some(ZoneResult::Delegation { ns_rrs }) => format!("delegation {}", c::rrs(ns_rrs)),
        Some(ZoneResult::NameError) => "nameerror".to_string(),
    }
}

/// a query name biased towards configured owners, their ancestors and their children
pub fn query_name(r: &mut Rng, owners: &[DomainName], apex: &DomainName) -> DomainName {
    match r.below(10) {
        0 => small_name(r),
        1 | 2 => rel_name(r, 4, apex),
        3..=5 => r.pick(owners).clone(),
        6 | 7 => {
            // an ancestor of an owner (possibly an empty non-terminal)
            let o = r.pick(owners);
            let k = r.below(o.labels.len());
            DomainName::from_labels(o.labels[k..].to_vec()).unwrap_or_else(|| o.clone())
        }
        _ => {
            // one or two labels beneath an owner (wildcard matches, delegated names)
            let o = r.pick(owners);
            rel_name(r, 2, o)
        }
    }
}

pub const QTYPES: [u16; 14] = [1, 2, 5, 16, 15, 28, 6, 12, 33, 255, 252, 253, 254, 99];

pub fn run_resolve(r: &mut Rng, n: usize, out: &mut Out) {
    let mut done = 0;
    while done < n {
        let gz = gen_zone(r, None, 10);
        let nq = r.range(4, 12);
        for _ in 0..nq {
            let qname = query_name(r, &gz.owners, &gz.apex);
            let qt = QueryType::from(*r.pick(&QTYPES));
            let res = catch_unwind(AssertUnwindSafe(|| gz.zone.resolve(&qname, qt)));
            let text = match res {
                Ok(x) => zone_result_text(qt, &x),
                Err(_) => "panic".to_string(),
            };
            out.case(&["zone.resolve", &gz.spec, &c::name(&qname), &u16::from(qt).to_string()], &text);
            done += 1;
        }
    }
}

/// C12: several zones merged through `Zones::insert_merge`, then `Zones::resolve`.
pub fn run_merge(r: &mut Rng, n: usize, out: &mut Out) {
    let mut done = 0;
    while done < n {
        let k = r.range(1, 5);
        let shared = if r.chance(2, 3) {
            Some(DomainName::from_dotted_string(*r.pick(&["example.com.", "com.", "."])).unwrap())
        } else {
            None
        };
        let mut zones = Zones::new();
        let mut specs = Vec::new();
        let mut owners = Vec::new();
        let mut panicked = false;
        let overlap = shared.is_some() && r.chance(1, 3);
        for _ in 0..k {
            let apex = if overlap || r.chance(3, 4) { shared.clone() } else { None };
            let mut gz = gen_zone(r, apex, 6);
            if overlap {
                // RRsets of several records that overlap between the files, in varying order: the union
                // must hold each record once wherever the common ones stand in either list
                for (wild, label) in [(false, "dup"), (true, "wdup")] {
                    let mut ls = vec![Label::try_from(label.as_bytes()).unwrap()];
                    ls.extend(gz.zone.get_apex().labels.iter().cloned());
                    let Some(owner) = DomainName::from_labels(ls) else { continue };
                    let mut picks: Vec<u8> = vec![1, 2, 3, 4];
                    for i in (1..picks.len()).rev() {
                        picks.swap(i, r.below(i + 1));
                    }
                    picks.truncate(r.range(1, 3));
                    for x in picks {
                        let data = RecordTypeWithData::A { address: std::net::Ipv4Addr::new(10, 1, 1, x) };
                        let rr = ResourceRecord { name: owner.clone(), rtype_with_data: data.clone(), rclass: RecordClass::IN, ttl: 300 };
                        if wild {
                            gz.zone.insert_wildcard(&owner, data, 300);
                            gz.spec.push_str(&format!("!w:{}", c::rr(&rr)));
                        } else {
                            gz.zone.insert(&owner, data, 300);
                            gz.spec.push_str(&format!("!i:{}", c::rr(&rr)));
                        }
                        if !gz.owners.contains(&owner) {
                            gz.owners.push(owner.clone());
                        }
                    }
                }
            }
            specs.push(gz.spec.clone());
            owners.extend(gz.owners.iter().cloned());
            let z = gz.zone;
            if catch_unwind(AssertUnwindSafe(|| zones.insert_merge(z))).is_err() {
                panicked = true;
                break;
            }
        }
        let spec = specs.join("^");
        let root = DomainName::root_domain();
        for _ in 0..r.range(4, 10) {
            let qname = query_name(r, &owners, &root);
            let qt = QueryType::from(*r.pick(&QTYPES));
            let text = if panicked {
                "panic".to_string()
            } else {
                match catch_unwind(AssertUnwindSafe(|| zones.resolve(&qname, qt))) {
                    Err(_) => "panic".to_string(),
                    Ok(None) => "nozone".to_string(),
                    Ok(Some((zone, res))) => format!(
                        "{} {} {}",
                        c::name(zone.get_apex()),
                        zone.soa_rr().map_or("-".to_string(), |rr| c::rr(&rr)),
                        zone_result_text(qt, &Some(res))
                    ),
                }
            };
            out.case(&["zones.merge", &spec, &c::name(&qname), &u16::from(qt).to_string()], &text);
            done += 1;
        }
    }
}
