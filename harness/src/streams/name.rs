//! C16 stream: Label / DomainName constructors and relations.
use dns_types::protocol::types::*;

use crate::codec as c;
use crate::gen;
use crate::rng::Rng;
use crate::Out;

fn dotted_input(r: &mut Rng) -> Vec<u8> {
    // valid UTF-8 only (the Rust API takes &str)
    let k = r.range(0, 5);
    let mut s = String::new();
    for i in 0..k {
        if i > 0 || r.chance(1, 10) {
            s.push('.');
        }
        let len = match r.below(12) {
            0 => 0,
            1 => r.range(62, 65),
            2 if r.chance(1, 4) => *r.pick(&[254usize, 255, 256, 257, 300, 1000]),
            _ => r.range(1, 6),
        };
        for _ in 0..len {
            let ch = match r.below(12) {
                0 => *r.pick(&['A', 'Z', 'M', 'é', 'ÿ', '@', '*', ' ', '\u{0}', '\u{7f}', '[', '`', '{']),
                _ => *r.pick(&['a', 'b', 'c', 'x', 'y', 'z', '0', '9', '-']),
            };
            s.push(ch);
        }
    }
    if r.chance(2, 3) {
        s.push('.');
        if r.chance(1, 8) {
            // more than one final dot: an empty label before the root
            for _ in 0..r.range(1, 3) {
                s.push('.');
            }
        }
    }
    s.into_bytes()
}

/// label sequences around the 63 / 255 limits
fn boundary_labels(r: &mut Rng) -> Vec<Vec<u8>> {
    let mut ls: Vec<Vec<u8>> = Vec::new();
    match r.below(6) {
        0 => {
            // total length exactly target, using labels up to 63
            let target = r.range(250, 260);
            let mut total = 1usize; // root label
            while total < target {
                let room = target - total;
                let l = if room >= 64 { 63 } else { room.saturating_sub(1) };
                if l == 0 {
                    break;
                }
                ls.push(vec![b'a' + (ls.len() as u8 % 26); l]);
                total += l + 1;
            }
            ls.push(Vec::new());
        }
        1 => {
            ls.push(vec![b'x'; r.range(60, 63)]);
            ls.push(Vec::new());
        }
        2 => {
            // empty label in the middle / missing root / double root
            let k = r.range(0, 4);
            for _ in 0..k {
                ls.push(if r.chance(1, 3) { Vec::new() } else { gen::label_bytes(r, 10) });
            }
            if r.chance(1, 2) {
                ls.push(Vec::new());
            }
        }
        3 => {
            // many one-octet labels: 127 labels + root = 255
            let k = r.range(125, 129);
            for _ in 0..k {
                ls.push(vec![b'a']);
            }
            ls.push(Vec::new());
        }
        _ => {
            let k = r.range(0, 6);
            for _ in 0..k {
                ls.push(gen::label_bytes(r, 63));
            }
            ls.push(Vec::new());
        }
    }
    ls
}

pub fn run(r: &mut Rng, n: usize, out: &mut Out) {
    // exhaustive label length boundary: 0..=70
    for len in 0..=70usize {
        let bs: Vec<u8> = (0..len).map(|i| b'A' + (i % 58) as u8).collect();
        let res = match Label::try_from(&bs[..]) {
            Ok(l) => c::hex(l.octets()),
            Err(_) => "none".to_string(),
        };
        out.case(&["label.tryFrom", &c::hex(&bs)], &res);
    }
    for b in 0..=255u8 {
        let res = match Label::try_from(&[b][..]) {
            Ok(l) => c::hex(l.octets()),
            Err(_) => "none".to_string(),
        };
        out.case(&["label.tryFrom", &c::hex(&[b])], &res);
    }
    for _ in 0..n {
        match r.below(7) {
            0 => {
                let raw = boundary_labels(r);
                let ls: Vec<Label> = raw
                    .iter()
                    .filter_map(|l| Label::try_from(&l[..]).ok())
                    .collect();
                if ls.len() != raw.len() {
                    continue;
                }
                let res = DomainName::from_labels(ls.clone());
                out.case(&["name.fromLabels", &c::labels(&ls)], &c::opt_name(&res));
            }
            1 => {
                let s = dotted_input(r);
                let st = std::str::from_utf8(&s).unwrap();
                let text = match std::panic::catch_unwind(|| DomainName::from_dotted_string(st)) {
                    Ok(res) => c::opt_name(&res),
                    Err(_) => "panic".to_string(),
                };
                out.case(&["name.fromDotted", &c::hex(&s)], &text);
            }
            2 => {
                let origin = gen::name(r, 4);
                let mut s = dotted_input(r);
                if r.chance(1, 2) && s.last() == Some(&b'.') {
                    s.pop();
                }
                let st = std::str::from_utf8(&s).unwrap();
                let text = match std::panic::catch_unwind(|| DomainName::from_relative_dotted_string(&origin, st)) {
                    Ok(res) => c::opt_name(&res),
                    Err(_) => "panic".to_string(),
                };
                out.case(&["name.fromRelative", &c::name(&origin), &c::hex(&s)], &text);
            }
            3 => {
                let nm = gen::name(r, 5);
                let res = nm.to_dotted_string();
                out.case(&["name.toDotted", &c::name(&nm)], &c::hex(res.as_bytes()));
            }
            4 if r.chance(1, 6) => {
                // joins whose result is 254 … 257 octets long: 3 labels of 63 (193 octets with the root)
                // joined to an origin of one label of 60 … 63 octets
                let a = DomainName::from_labels(vec![
                    Label::try_from(&[b'a'; 63][..]).unwrap(),
                    Label::try_from(&[b'b'; 63][..]).unwrap(),
                    Label::try_from(&[b'c'; 63][..]).unwrap(),
                    Label::new(),
                ])
                .unwrap();
                let k = 60 + r.below(4);
                let b = DomainName::from_labels(vec![Label::try_from(&vec![b'o'; k][..]).unwrap(), Label::new()]).unwrap();
                let res = a.make_subdomain_of(&b);
                out.case(&["name.makeSub", &c::name(&a), &c::name(&b)], &c::opt_name(&res));
            }
            4 => {
                let a = if r.chance(1, 5) { gen::maximal_name(r) } else { gen::name(r, 5) };
                let b = if r.chance(1, 5) { gen::maximal_name(r) } else { gen::name(r, 5) };
                let res = a.make_subdomain_of(&b);
                out.case(&["name.makeSub", &c::name(&a), &c::name(&b)], &c::opt_name(&res));
            }
            5 => {
                let b = gen::plain_name(r, 3);
                let a = if r.chance(1, 2) {
                    let rel = gen::plain_name(r, 3);
                    rel.make_subdomain_of(&b).unwrap_or(rel)
                } else {
                    gen::plain_name(r, 4)
                };
                // both directions: an ancestor is not a subdomain of its descendant
                let (a, b) = if r.chance(1, 3) { (b, a) } else { (a, b) };
                let res = a.is_subdomain_of(&b);
                out.case(&["name.isSub", &c::name(&a), &c::name(&b)], if res { "1" } else { "0" });
            }
            _ => {
                let a = gen::name(r, 3);
                let b = if r.chance(1, 4) { a.clone() } else { gen::name(r, 3) };
                let res = match a.cmp(&b) {
                    std::cmp::Ordering::Less => "lt",
                    std::cmp::Ordering::Equal => "eq",
                    std::cmp::Ordering::Greater => "gt",
                };
                out.case(&["name.cmp", &c::name(&a), &c::name(&b)], res);
            }
        }
    }
}

/// cross-check of the extracted code tables against the running crate: every u16 code through
/// `RecordType`/`QueryType`/`RecordClass`/`QueryClass`, every u8 through `Opcode`/`Rcode`.
pub fn run_tables(out: &mut Out) {
    for code in 0..=65535u16 {
        let rt = RecordType::from(code);
        let qt = QueryType::from(code);
        let rc = RecordClass::from(code);
        let qc = QueryClass::from(code);
        let b = |x: bool| if x { 1 } else { 0 };
        out.case(
            &["table.code", &code.to_string()],
            &format!(
                "rt:{}/{} qt:{}/{} rc:{}/{} qc:{}/{} m:{}{}{}",
                b(rt.is_unknown()),
                u16::from(rt),
                b(qt.is_unknown()),
                u16::from(qt),
                b(rc.is_unknown()),
                u16::from(rc),
                b(qc.is_unknown()),
                u16::from(qc),
                b(RecordType::A.matches(qt)),
                b(RecordType::CNAME.matches(qt)),
                b(RecordClass::IN.matches(qc)),
            ),
        );
    }
    for octet in 0..=255u8 {
        out.case(
            &["table.nibble", &octet.to_string()],
            &format!("op:{} rc:{}", u8::from(Opcode::from(octet)), u8::from(Rcode::from(octet))),
        );
    }
}
