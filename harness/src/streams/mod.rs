pub mod name;
pub mod wire;
pub mod zone;
pub mod cache;
