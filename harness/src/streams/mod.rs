pub mod name;
pub mod wire;
