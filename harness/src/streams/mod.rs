pub mod name;
pub mod wire;
pub mod zone;
pub mod cache;
pub mod upstream;
pub mod resolve;
pub mod server;
pub mod hosts;
