//! The converter binaries (`ztoz`, `ztoh [--strict]`, `htoh`, `htoz`) built from the working tree, run
//! as processes on generated zone / hosts texts; what they print and how they exit must be what the
//! library functions (which the other streams tie to the Lean model) give for the same text.  This
//! covers the glue: argument handling, reading stdin, which conversion is called, exit codes.
use std::io::Write;
use std::panic::{catch_unwind, AssertUnwindSafe};
use std::process::{Command, Stdio};

use dns_types::hosts::types::Hosts;
use dns_types::zones::types::Zone;

use crate::codec as c;
use crate::rng::Rng;
use crate::Out;

const DIR: &str = "/verif/build/repo-target/debug";

fn run_bin(tool: &str, args: &[&str], input: &str) -> (i32, String) {
    let mut child = match Command::new(format!("{DIR}/{tool}"))
        .args(args)
        .stdin(Stdio::piped())
        .stdout(Stdio::piped())
        .stderr(Stdio::null())
        .spawn()
    {
        Ok(c) => c,
        Err(_) => return (-2, String::new()),
    };
    {
        let mut stdin = child.stdin.take().unwrap();
        let _ = stdin.write_all(input.as_bytes());
    }
    let out = child.wait_with_output();
    match out {
        Ok(o) => (o.status.code().unwrap_or(-1), String::from_utf8_lossy(&o.stdout).into_owned()),
        Err(_) => (-3, String::new()),
    }
}

/// all lines sorted: the order of owners and of the lines of one owner comes out of hash maps whose
/// seeds differ between the two processes
fn sorted_lines(s: &str) -> Vec<String> {
    let mut v: Vec<String> = s.split('\n').map(|l| l.to_string()).collect();
    v.sort();
    v
}

fn expected(tool: &str, strict: bool, text: &str) -> (i32, String) {
    let res = catch_unwind(AssertUnwindSafe(|| match tool {
        "ztoz" => Zone::deserialise(text).ok().map(|z| z.serialise()),
        "ztoh" => Zone::deserialise(text).ok().and_then(|z| {
            if strict {
                Hosts::try_from(z).ok().map(|h| h.serialise())
            } else {
                Some(Hosts::from_zone_lossy(&z).serialise())
            }
        }),
        "htoh" => Hosts::deserialise(text).ok().map(|h| h.serialise()),
        "htoz" => Hosts::deserialise(text).ok().map(|h| Zone::from(h).serialise()),
        _ => unreachable!(),
    }));
    match res {
        Err(_) => (101, String::new()),
        Ok(None) => (1, String::new()),
        Ok(Some(s)) => (0, s),
    }
}

pub fn run(r: &mut Rng, n: usize, zone_side: bool, out: &mut Out) {
    for _ in 0..n {
        let (tool, strict) = if zone_side {
            ("ztoz", false)
        } else {
            *r.pick(&[("htoh", false), ("htoz", false), ("ztoh", false), ("ztoh", true)])
        };
        let zone_input = tool.starts_with('z');
        let text = if zone_input {
            match r.below(7) {
                0 | 1 => crate::streams::ztext::fuzz_text(r),
                2 => {
                    // line ends that are DATA: a CR LF inside a quoted string, a backslash right before a
                    // CR LF, a lone CR - the binary must hand the parser the very octets it was given
                    let w = *r.pick(&["a", "bb", "x y", ""]);
                    let eol = *r.pick(&["\r\n", "\n", "\r\n"]);
                    match r.below(4) {
                        0 => format!("$ORIGIN e.{eol}t 300 IN TXT \"{w}\r\n{w}z\"{eol}"),
                        1 => format!("$ORIGIN e.{eol}t 300 IN TXT {w}q\\\r\nu 300 IN A 1.2.3.4{eol}"),
                        2 => format!("$ORIGIN e.{eol}t 300 IN TXT \"{w}\r{w}\"{eol}u 300 IN TXT k\rk{eol}"),
                        _ => format!("$ORIGIN e.{eol}t 300 IN TXT ( \"{w}\" ;c\r\n \"l2\r\n\" ){eol}"),
                    }
                }
                _ => crate::streams::ztext::rendered_text(r),
            }
        } else {
            crate::streams::hosts::gen_file(r)
        };
        let args: Vec<&str> = if strict { vec!["--strict"] } else { vec![] };
        let (code, stdout) = run_bin(tool, &args, &text);
        let (ecode, estdout) = expected(tool, strict, &text);
        let same = code == ecode && sorted_lines(&stdout) == sorted_lines(&estdout);
        let class = if ecode == 0 { if estdout.trim().is_empty() { "ok-empty" } else { "ok" } } else { "err" };
        let name = if strict { "ztoh-strict" } else { tool };
        let verdict = if same { "same".to_string() } else { format!("differs exit={code}/{ecode} out={}/{}", c::hex(stdout.as_bytes()), c::hex(estdout.as_bytes())) };
        out.case(&["bin.same", name, class, &c::hex(text.as_bytes())], &verdict);
    }
}
