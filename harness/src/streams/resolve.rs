//! C01 / C07 / C08 / C10 / C18 streams: whole resolutions through `dns_resolver::resolve` with the
//! mock transport (real decoder, real 5 s / 60 s timeouts on tokio's paused clock).
use std::collections::HashMap;
use std::net::{IpAddr, Ipv4Addr, Ipv6Addr, SocketAddr};
use std::sync::{Arc, Mutex};
use std::time::Duration;

use dns_resolver::cache::SharedCache;
use dns_resolver::util::types::{ProtocolMode, ResolutionError, ResolvedRecord};
use dns_resolver::verif::{self, MockReply};
use dns_types::protocol::types::*;
use dns_types::zones::types::*;

use crate::codec as c;
use crate::rng::Rng;
use crate::streams::cache::dump_text;
use crate::streams::zone::{gen_zone, lbl, soa, soa_text, GenZone};
use crate::Out;

#[derive(Clone)]
pub enum Reply {
    None,
    Garbage,
    Msg { m: Message, same_id: bool },
}

#[derive(Clone)]
pub struct Entry {
    pub addr: IpAddr,
    pub tcp: bool,
    pub qname: DomainName,
    pub qtype: u16,
    pub delay_ms: u64,
    pub reply: Reply,
}

#[derive(Clone)]
pub enum Mode {
    Auth,
    Rec(ProtocolMode, u16),
    Fwd(SocketAddr),
}

pub struct Scenario {
    pub mode: Mode,
    pub zone_specs: Vec<String>,
    pub zones: Zones,
    pub cache_rrs: Vec<ResourceRecord>,
    pub script: Vec<Entry>,
    pub question: Question,
    /// for the C07 oracle: what the authoritative data says (`None` = not a universe scenario)
    pub expect: Option<String>,
    pub family: &'static str,
    /// seconds the clock is advanced between loading `cache_rrs` and the resolution (no prune in between)
    pub clock_advance_s: u64,
}

pub fn addr_text(a: &IpAddr) -> String {
    match a {
        IpAddr::V4(x) => format!("4:{}", u32::from(*x)),
        IpAddr::V6(x) => {
            let s = x.segments();
            format!("6:{}-{}-{}-{}-{}-{}-{}-{}", s[0], s[1], s[2], s[3], s[4], s[5], s[6], s[7])
        }
    }
}

fn pm_text(p: ProtocolMode) -> &'static str {
    match p {
        ProtocolMode::OnlyV4 => "o4",
        ProtocolMode::PreferV4 => "p4",
        ProtocolMode::PreferV6 => "p6",
        ProtocolMode::OnlyV6 => "o6",
    }
}

pub fn mode_text(m: &Mode) -> String {
    match m {
        Mode::Auth => "auth".into(),
        Mode::Rec(p, port) => format!("rec:{}:{}", pm_text(*p), port),
        Mode::Fwd(sa) => format!("fwd:{}:{}", addr_text(&sa.ip()), sa.port()),
    }
}

pub fn entry_text(e: &Entry) -> String {
    let reply = match &e.reply {
        Reply::None => "none".to_string(),
        Reply::Garbage => "garbage".to_string(),
        Reply::Msg { m, same_id } => format!("{}:{}", if *same_id { "msg" } else { "wrongid" }, c::message(m)),
    };
    format!(
        "{}~{}~{}~{}={}:{}",
        addr_text(&e.addr),
        if e.tcp { "t" } else { "u" },
        c::name(&e.qname),
        e.qtype,
        e.delay_ms,
        reply
    )
}

pub fn result_text(r: &Result<ResolvedRecord, ResolutionError>, any: bool) -> String {
    let show = |rrs: &[ResourceRecord]| if any { c::rrs_sorted(rrs) } else { c::rrs(rrs) };
    match r {
        Ok(ResolvedRecord::Authoritative { rrs, soa_rr }) => format!("ok auth {} {}", show(rrs), c::rr(soa_rr)),
        Ok(ResolvedRecord::AuthoritativeNameError { soa_rr }) => format!("ok nxdomain - {}", c::rr(soa_rr)),
        Ok(ResolvedRecord::NonAuthoritative { rrs, soa_rr }) => {
            format!("ok nonauth {} {}", show(rrs), soa_rr.as_ref().map_or("-".into(), c::rr))
        }
        Err(ResolutionError::Timeout) => "err Timeout".into(),
        Err(ResolutionError::RecursionLimit) => "err RecursionLimit".into(),
        Err(ResolutionError::DuplicateQuestion { .. }) => "err DuplicateQuestion".into(),
        Err(ResolutionError::DeadEnd { .. }) => "err DeadEnd".into(),
        Err(ResolutionError::LocalDelegationMissingNS { .. }) => "err LocalDelegationMissingNS".into(),
        Err(ResolutionError::CacheTypeMismatch { .. }) => "err CacheTypeMismatch".into(),
    }
}

/// parse the question of a serialised request (uncompressed single question after the header)
fn request_question(req: &[u8]) -> Option<(DomainName, u16)> {
    let m = Message::from_octets(req).ok()?;
    let q = m.questions.first()?;
    Some((q.name.clone(), u16::from(q.qtype)))
}

pub const T0: u64 = 1_000_000_000;

pub fn run_scenario(sc: &Scenario, out: &mut Out, cmd: &str) {
    run_scenario_clock(sc, out, cmd, false)
}

/// `real_clock`: tokio's clock is NOT paused - the 60 s budget is then wall-clock time, which is what a
/// resolution that never waits on the network (CPU-bound search) has to be measured against
pub fn run_scenario_clock(sc: &Scenario, out: &mut Out, cmd: &str, real_clock: bool) {
    // a small desired size in some runs: resolutions insert more than twice that many records, and
    // nothing may depend on the cache being below its desired size (it is only pruned periodically)
    let cache_size: usize = if sc.question.name.labels.len() % 3 == 0 && !sc.script.is_empty() { 2 } else { 512 };
    let cache = SharedCache::with_desired_size(cache_size);
    verif::set_clock_nanos(T0);
    {
        // under the watchdog as well: pre-loading the cache is a call into the real code
        let (c2, rrs) = (cache.clone(), sc.cache_rrs.clone());
        if let crate::watch::Outcome::Hang = crate::watch::run(20, move || c2.insert_all(&rrs)) {
            out.case(&[cmd, sc.family, &mode_text(&sc.mode), "-", "-", "-", &c::question(&sc.question), "-"], "hang");
            return;
        }
    }
    if sc.clock_advance_s > 0 {
        verif::set_clock_nanos(T0 + sc.clock_advance_s * 1_000_000_000);
    }
    let log: Arc<Mutex<Vec<String>>> = Arc::new(Mutex::new(Vec::new()));
    let script: HashMap<(IpAddr, bool, DomainName, u16), (u64, Reply)> = sc
        .script
        .iter()
        .map(|e| ((e.addr, e.tcp, e.qname.clone(), e.qtype), (e.delay_ms, e.reply.clone())))
        .collect();
    {
        let log = log.clone();
        verif::set_transport(Some(Box::new(move |addr: SocketAddr, tcp: bool, req: &[u8]| {
            let rd = req.len() > 2 && req[2] & 1 != 0;
            let (qn, qt) = request_question(req).unwrap_or((DomainName::root_domain(), 0));
            log.lock().unwrap().push(format!(
                "{}~{}~{}~{}~{}~{}",
                addr_text(&addr.ip()),
                addr.port(),
                if tcp { "t" } else { "u" },
                c::name(&qn),
                qt,
                if rd { 1 } else { 0 }
            ));
            match script.get(&(addr.ip(), tcp, qn, qt)) {
                None => MockReply { delay: Duration::ZERO, reply: None },
                Some((delay, reply)) => {
                    let bytes = match reply {
                        Reply::None => None,
                        Reply::Garbage => Some(vec![req[0], req[1], 0xff]),
                        Reply::Msg { m, same_id } => {
                            let mut m = m.clone();
                            let id = u16::from_be_bytes([req[0], req[1]]);
                            m.header.id = if *same_id { id } else { id.wrapping_add(1) };
                            m.to_octets().ok().map(|b| b.to_vec())
                        }
                    };
                    MockReply { delay: Duration::from_millis(*delay), reply: bytes }
                }
            }
        })));
    }
    let (is_recursive, pm, port, fwd) = match &sc.mode {
        Mode::Auth => (false, ProtocolMode::OnlyV4, 53, None),
        Mode::Rec(p, port) => (true, *p, *port, None),
        Mode::Fwd(sa) => (true, ProtocolMode::OnlyV4, 5353, Some(*sa)), // the recursive port must not leak into forwarding
    };
    let (zones_c, cache_c, question_c) = (sc.zones.clone(), cache.clone(), sc.question.clone());
    let any_q = sc.question.qtype == QueryType::Wildcard;
    let log_c = log.clone();
    // the whole resolution runs under a watchdog: a resolver that spins in synchronous code (where no
    // tokio timeout can fire) shows up as `hang` for exactly this scenario
    let text = crate::watch::text(if real_clock { 100 } else { 30 }, move || {
        let rt = tokio::runtime::Builder::new_current_thread().enable_time().start_paused(!real_clock).build().unwrap();
        let (res, elapsed) = rt.block_on(async {
            let start = tokio::time::Instant::now();
            let (_metrics, res) =
                dns_resolver::resolve(is_recursive, pm, port, fwd, &zones_c, &cache_c, &question_c).await;
            (res, start.elapsed().as_millis())
        });
        let l = log_c.lock().unwrap();
        format!(
            "{} # {} # {} # {}",
            result_text(&res, any_q),
            if l.is_empty() { "-".to_string() } else { l.join(";") },
            elapsed,
            dump_text(&cache_c.verif_dump())
        )
    });
    verif::set_transport(None);
    let zones = if sc.zone_specs.is_empty() { "-".to_string() } else { sc.zone_specs.join("^") };
    let script = if sc.script.is_empty() {
        "-".to_string()
    } else {
        sc.script.iter().map(entry_text).collect::<Vec<_>>().join("^")
    };
    out.case(
        &[
            cmd,
            sc.family,
            &mode_text(&sc.mode),
            &zones,
            &format!(
                "{}{}{}",
                if cache_size == 512 { String::new() } else { format!("S{cache_size}:") },
                if sc.clock_advance_s == 0 { String::new() } else { format!("T{}:", sc.clock_advance_s) },
                c::rrs(&sc.cache_rrs)
            ),
            &script,
            &c::question(&sc.question),
            sc.expect.as_deref().unwrap_or("-"),
        ],
        &text,
    );
}

// ---------------------------------------------------------------------------------------------
// generators

fn nm(s: &str) -> DomainName {
    DomainName::from_dotted_string(s).unwrap()
}

fn rr(name: &DomainName, data: RecordTypeWithData, ttl: u32) -> ResourceRecord {
    ResourceRecord { name: name.clone(), rtype_with_data: data, rclass: RecordClass::IN, ttl }
}

fn a4(x: u8) -> RecordTypeWithData {
    RecordTypeWithData::A { address: Ipv4Addr::new(10, 9, 9, x) }
}

/// RDATA of the asked type (A for pseudo-types), so that scripted upstream answers are well-typed
fn data_for(r: &mut Rng, qt: u16) -> RecordTypeWithData {
    let pool = crate::gen::Pool { names: vec![nm("t1.up.net."), nm("t2.up.net.")] };
    if crate::gen::KNOWN_TYPES.contains(&qt) && qt != 5 {
        crate::gen::rdata_of_type(r, &pool, qt, 4)
    } else {
        a4(66)
    }
}

fn reply_to(q: &Question) -> Message {
    let mut m = Message::from_question(0, q.clone()).make_response();
    m.header.recursion_available = true;
    m
}

fn mode(r: &mut Rng) -> Mode {
    match r.below(4) {
        0 => Mode::Auth,
        1 | 2 => Mode::Rec(
            *r.pick(&[ProtocolMode::OnlyV4, ProtocolMode::PreferV4, ProtocolMode::PreferV6, ProtocolMode::OnlyV6]),
            *r.pick(&[53u16, 5353]),
        ),
        _ => Mode::Fwd(SocketAddr::new(IpAddr::V4(Ipv4Addr::new(192, 0, 2, 53)), 53)),
    }
}

fn push_zone(zs: &mut Zones, specs: &mut Vec<String>, gz: GenZone) {
    specs.push(gz.spec.clone());
    zs.insert_merge(gz.zone);
}

/// family "local": local zones vs cache vs upstream (C01, C10)
pub fn local_scenario(r: &mut Rng) -> Scenario {
    let mut zones = Zones::new();
    let mut specs = Vec::new();
    let mut owners: Vec<DomainName> = Vec::new();
    let nz = r.range(1, 3);
    for i in 0..nz {
        let apex = match (i, r.below(3)) {
            (0, _) => None,
            (_, 0) => Some(nm("sub.example.com.")),
            (_, 1) => Some(nm("example.com.")),
            _ => Some(DomainName::root_domain()),
        };
        let gz = gen_zone(r, apex, 8);
        owners.extend(gz.owners.iter().cloned());
        push_zone(&mut zones, &mut specs, gz);
    }
    let qname = crate::streams::zone::query_name(r, &owners, &DomainName::root_domain());
    let qt: u16 = *r.pick(&[1u16, 1, 1, 28, 5, 2, 16, 255, 15, 6, 252, 253, 254]);
    #[allow(unused_mut)]
    // QCLASS * (255) is a legitimate question class: it asks about every class, i.e. here about IN
    let qclass = if r.chance(1, 8) { QueryClass::Wildcard } else { QueryClass::Record(RecordClass::IN) };
    let question = Question { name: qname.clone(), qtype: QueryType::from(qt), qclass };
    // cache: records for the question name / owners, possibly conflicting with zone data
    let mut cache_rrs = Vec::new();
    for _ in 0..r.below(4) {
        let n = if r.chance(1, 2) { qname.clone() } else { r.pick(&owners).clone() };
        let data = match r.below(4) {
            0 => RecordTypeWithData::CNAME { cname: r.pick(&owners).clone() },
            1 => RecordTypeWithData::NS { nsdname: nm("ns.cached.net.") },
            _ => a4(200 + r.below(3) as u8),
        };
        cache_rrs.push(rr(&n, data, *r.pick(&[0u32, 30, 300])));
    }
    let mut qname = qname;
    let mut question = question;
    if r.chance(1, 6) {
        // an outside alias whose cached target lies in a local zone: the zone must still speak for it
        let target = r.pick(&owners).clone();
        qname = nm("alias.outside.test.");
        question = Question { name: qname.clone(), qtype: QueryType::from(*r.pick(&[1u16, 1, 28, 16])), qclass: QueryClass::Record(RecordClass::IN) };
        cache_rrs.push(rr(&qname, RecordTypeWithData::CNAME { cname: target.clone() }, 300));
        cache_rrs.push(rr(&target, data_for(r, u16::from(question.qtype)), 300));
    }
    let qt = u16::from(question.qtype);
    let m = mode(r);
    // upstream: the forwarder (or any server) answers with foreign data for the question
    let mut script = Vec::new();
    let mut reply = reply_to(&question);
    reply.answers.push(rr(&qname, data_for(r, qt), 60));
    if r.chance(1, 3) {
        reply.header.rcode = Rcode::NameError;
        reply.answers.clear();
    }
    if (252..=254).contains(&qt) {
        // no record is of a transfer / mail-agent "type": an upstream has nothing to list (D7)
        reply.answers.clear();
    }
    let addr = match &m {
        Mode::Fwd(sa) => sa.ip(),
        _ => IpAddr::V4(Ipv4Addr::new(10, 9, 9, 1)),
    };
    script.push(Entry { addr, tcp: false, qname: qname.clone(), qtype: qt, delay_ms: 3, reply: Reply::Msg { m: reply, same_id: true } });
    // sometimes the question comes after cached records have run out (and before any prune)
    let clock_advance_s = if r.chance(1, 4) { *r.pick(&[1u64, 31, 301]) } else { 0 };
    Scenario { mode: m, zone_specs: specs, zones, cache_rrs, script, question, expect: None, family: "local", clock_advance_s }
}

/// family "chain": alias chains of length 0..40 with links in zones, cache or upstream (C10)
pub fn chain_scenario(r: &mut Rng) -> Scenario {
    let len = match r.below(6) {
        0 => r.range(30, 40),
        1 => r.range(0, 2),
        _ => r.range(1, 8),
    };
    let cyc = r.chance(1, 5);
    let in_cache_from = if r.chance(1, 3) { r.below(len + 1) } else { usize::MAX };
    let names: Vec<DomainName> = (0..=len)
        .map(|i| if i >= in_cache_from { nm(&format!("n{i}.ext.")) } else { nm(&format!("n{i}.lan.")) })
        .collect();
    let s = soa(r);
    let mut spec = format!("{}!{}", c::name(&nm("lan.")), soa_text(&s));
    let mut zone = Zone::new(nm("lan."), Some(s));
    let mut cache_rrs = Vec::new();
    let m = match r.below(3) {
        0 => Mode::Auth,
        1 => Mode::Rec(ProtocolMode::OnlyV4, 53),
        _ => Mode::Fwd(SocketAddr::new(IpAddr::V4(Ipv4Addr::new(192, 0, 2, 53)), 53)),
    };
    for i in 0..len {
        let target = if cyc && i + 1 == len { names[r.below(i + 1)].clone() } else { names[i + 1].clone() };
        let data = RecordTypeWithData::CNAME { cname: target };
        if i >= in_cache_from {
            // the tail of the chain lives in the cache under another (non-local) suffix
            cache_rrs.push(rr(&names[i], data, 300));
        } else {
            let x = rr(&names[i], data.clone(), 300);
            zone.insert(&names[i], data, 300);
            spec.push_str(&format!("!i:{}", c::rr(&x)));
        }
    }
    let mut script = Vec::new();
    let tail_upstream = !cyc && len >= 2 && in_cache_from != usize::MAX && r.chance(1, 2);
    if tail_upstream {
        // the final record is neither local nor cached: it has to come from upstream, and the
        // cached links must all stay in the answer, in order
    } else if !cyc {
        let x = rr(&names[len], a4(7), 300);
        if len >= in_cache_from {
            cache_rrs.push(x);
        } else {
            zone.insert(&names[len], a4(7), 300);
            spec.push_str(&format!("!i:{}", c::rr(&x)));
        }
    }
    let mut zones = Zones::new();
    zones.insert_merge(zone);
    let question = Question {
        name: names[0].clone(),
        qtype: QueryType::from(*r.pick(&[1u16, 1, 1, 16, 5, 255])),
        qclass: if r.chance(1, 6) { QueryClass::Wildcard } else { QueryClass::Record(RecordClass::IN) },
    };
    if cyc && matches!(m, Mode::Fwd(_)) && r.chance(1, 2) {
        // a loop made of local links, and a forwarder that would happily answer for the looping names:
        // a question refused as a loop is not "unknown locally" - it must not be forwarded
        if let Mode::Fwd(sa) = &m {
            for nme in names.iter().take(len.min(3)) {
                let qq = Question { name: nme.clone(), qtype: question.qtype, qclass: question.qclass };
                let mut reply = reply_to(&qq);
                reply.answers.push(rr(nme, data_for(r, u16::from(question.qtype)), 60));
                script.push(Entry { addr: sa.ip(), tcp: false, qname: nme.clone(), qtype: u16::from(question.qtype), delay_ms: 3, reply: Reply::Msg { m: reply, same_id: true } });
            }
        }
    }
    let mut m = m;
    if tail_upstream {
        let fwd = SocketAddr::new(IpAddr::V4(Ipv4Addr::new(192, 0, 2, 53)), 53);
        m = Mode::Fwd(fwd);
        // only names outside the local zone can be forwarded: move the chain's cached tail outside
        // (the cached part of the chain lives under ext. instead of lan.)
        let tq = Question { name: names[len].clone(), qtype: question.qtype, qclass: question.qclass };
        let mut reply = reply_to(&tq);
        reply.answers.push(rr(&names[len], data_for(r, u16::from(question.qtype)), 60));
        script.push(Entry { addr: fwd.ip(), tcp: false, qname: names[len].clone(), qtype: u16::from(question.qtype), delay_ms: 3, reply: Reply::Msg { m: reply, same_id: true } });
    }
    let clock_advance_s = if r.chance(1, 5) { *r.pick(&[299u64, 301]) } else { 0 };
    Scenario { mode: m, zone_specs: vec![spec], zones, cache_rrs, script, question, expect: None, family: "chain", clock_advance_s }
}

/// an authoritative zone with an alias whose target lies beneath one of its own delegations: the zone
/// answers the alias itself (the CNAME record leads the answer), only the target is resolved elsewhere
fn alias_into_delegation_scenario(r: &mut Rng) -> Scenario {
    let mut so = soa(r);
    so.minimum = 0;
    let apex = nm("corp.example.");
    let mut spec = format!("{}!{}", c::name(&apex), soa_text(&so));
    let mut zone = Zone::new(apex.clone(), Some(so));
    let ns_host = nm("ns.elsewhere.test.");
    let wiki = nm("wiki.corp.example.");
    let target = nm("wiki.eng.corp.example.");
    for (n, d) in [
        (nm("eng.corp.example."), RecordTypeWithData::NS { nsdname: ns_host.clone() }),
        (wiki.clone(), RecordTypeWithData::CNAME { cname: target.clone() }),
    ] {
        spec.push_str(&format!("!i:{}", c::rr(&rr(&n, d.clone(), 300))));
        zone.insert(&n, d, 300);
    }
    // the delegated server's address is known locally (a hosts-style root zone)
    let root = DomainName::root_domain();
    let mut hz = Zone::new(root.clone(), None);
    let addr = Ipv4Addr::new(10, 9, 9, 2);
    hz.insert(&ns_host, RecordTypeWithData::A { address: addr }, 5);
    let hspec = format!("{}!-!i:{}", c::name(&root), c::rr(&rr(&ns_host, RecordTypeWithData::A { address: addr }, 5)));
    let mut zones = Zones::new();
    zones.insert_merge(zone);
    zones.insert_merge(hz);
    let qt = *r.pick(&[1u16, 1, 16]);
    let question = Question { name: wiki.clone(), qtype: QueryType::from(qt), qclass: QueryClass::Record(RecordClass::IN) };
    let mut script = Vec::new();
    for qn in [&target, &wiki] {
        // the delegated server knows the target; asked about the alias name it would (wrongly) hand out an
        // address directly - the resolver must never ask it that
        let q = Question { name: qn.clone(), qtype: question.qtype, qclass: question.qclass };
        let mut m = reply_to(&q);
        m.header.is_authoritative = true;
        m.answers.push(rr(qn, data_for(r, qt), 60));
        script.push(Entry { addr: IpAddr::V4(addr), tcp: false, qname: qn.clone(), qtype: qt, delay_ms: 3, reply: Reply::Msg { m, same_id: true } });
    }
    let mode = if r.chance(1, 3) { Mode::Auth } else { Mode::Rec(ProtocolMode::OnlyV4, 53) };
    Scenario { mode, zone_specs: vec![spec, hspec], zones, cache_rrs: Vec::new(), script, question, expect: None, family: "local", clock_advance_s: 0 }
}

/// the shape of open finding F11 (C01-K1), exhibited on every run: a forwarded question whose upstream
/// answer is an alias into a LOCAL authoritative zone together with a record for that local name
fn f11_scenario(r: &mut Rng) -> Scenario {
    let s = soa(r);
    let mut spec = format!("{}!{}", c::name(&nm("lan.")), soa_text(&s));
    let mut zone = Zone::new(nm("lan."), Some(s));
    let host = nm("host.lan.");
    if r.chance(1, 2) {
        // with or without a local record for the alias target: the local zone owns the name either way
        let x = rr(&host, a4(1), 300);
        zone.insert(&host, a4(1), 300);
        spec.push_str(&format!("!i:{}", c::rr(&x)));
    }
    let mut zones = Zones::new();
    zones.insert_merge(zone);
    let fwd = SocketAddr::new(IpAddr::V4(Ipv4Addr::new(192, 0, 2, 53)), 53);
    let question = Question { name: nm("q.ext."), qtype: QueryType::from(1u16), qclass: QueryClass::Record(RecordClass::IN) };
    let mut reply = reply_to(&question);
    reply.answers.push(rr(&question.name, RecordTypeWithData::CNAME { cname: host.clone() }, 60));
    reply.answers.push(rr(&host, a4(66), 60));
    let script = vec![Entry { addr: fwd.ip(), tcp: false, qname: question.name.clone(), qtype: 1, delay_ms: 3, reply: Reply::Msg { m: reply, same_id: true } }];
    Scenario { mode: Mode::Fwd(fwd), zone_specs: vec![spec], zones, cache_rrs: Vec::new(), script, question, expect: None, family: "chain", clock_advance_s: 0 }
}

// ---- universe: a delegation tree served by scripted authoritative servers ---------------------

struct UZone {
    apex: DomainName,
    zone: Zone,
    /// (host name, addresses) of its nameservers
    servers: Vec<(DomainName, Vec<IpAddr>)>,
}

struct Universe {
    zones: Vec<UZone>,
    /// parents answer an NS question at a zone cut with a referral (as BIND does) instead of an answer
    ns_at_cut_is_referral: bool,
    /// glue records are served with TTL 0 ("use, do not cache"): open finding C07-K1
    glue_ttl0: bool,
    /// answers are truncated over UDP and complete only over TCP
    tc_over_udp: bool,
    /// referrals given by the root and the TLD servers carry glue of one family only for dual-stack
    /// hosts (Some(true) = IPv4 only); deeper servers list every address
    upper_glue_v4_only: Option<bool>,
}

impl Universe {
    fn zone_for(&self, name: &DomainName) -> &UZone {
        self.zones
            .iter()
            .filter(|z| name.is_subdomain_of(&z.apex))
            .max_by_key(|z| z.apex.labels.len())
            .unwrap()
    }

    /// the reply of an authoritative server of `z` to `q`
    fn serve(&self, z: &UZone, q: &Question) -> Message {
        let mut m = reply_to(q);
        m.header.recursion_available = false;
        match z.zone.resolve(&q.name, q.qtype) {
            None => {
                m.header.rcode = Rcode::Refused;
            }
            Some(ZoneResult::Answer { rrs })
                if self.ns_at_cut_is_referral
                    && q.qtype == QueryType::Record(RecordType::NS)
                    && q.name != z.apex
                    && !rrs.is_empty()
                    && self.zones.iter().any(|c| c.apex == q.name) =>
            {
                // the parent is not authoritative for the child's NS set: refer
                if let Some(cz) = self.zones.iter().find(|c| c.apex == q.name) {
                    for (host, addrs) in &cz.servers {
                        if host.is_subdomain_of(&z.apex) {
                            for a in addrs {
                                if let (Some(v4), true, true) = (self.upper_glue_v4_only, z.apex.labels.len() <= 2, addrs.len() > 1) {
                                    if a.is_ipv4() != v4 {
                                        continue;
                                    }
                                }
                                m.additional.push(rr(
                                    host,
                                    match a {
                                        IpAddr::V4(x) => RecordTypeWithData::A { address: *x },
                                        IpAddr::V6(x) => RecordTypeWithData::AAAA { address: *x },
                                    },
                                    if self.glue_ttl0 { 0 } else { 300 },
                                ));
                            }
                        }
                    }
                }
                m.authority = rrs;
            }
            Some(ZoneResult::Answer { rrs }) => {
                m.header.is_authoritative = true;
                if rrs.is_empty() {
                    m.authority.push(z.zone.soa_rr().unwrap());
                } else {
                    m.answers = rrs;
                }
            }
            Some(ZoneResult::CNAME { cname, rr }) => {
                m.header.is_authoritative = true;
                m.answers.push(rr);
                // follow inside this zone as a real server would
                let mut cur = cname;
                for _ in 0..8 {
                    if !cur.is_subdomain_of(&z.apex) || self.zone_for(&cur).apex != z.apex {
                        break;
                    }
                    match z.zone.resolve(&cur, q.qtype) {
                        Some(ZoneResult::Answer { rrs }) => {
                            m.answers.extend(rrs);
                            break;
                        }
                        Some(ZoneResult::CNAME { cname, rr }) => {
                            m.answers.push(rr);
                            cur = cname;
                        }
                        _ => break,
                    }
                }
            }
            Some(ZoneResult::Delegation { ns_rrs }) => {
                // glue: addresses of in-bailiwick hosts this zone knows (from the child's servers)
                let child = &ns_rrs[0].name;
                if let Some(cz) = self.zones.iter().find(|c| &c.apex == child) {
                    for (host, addrs) in &cz.servers {
                        if host.is_subdomain_of(&z.apex) {
                            for a in addrs {
                                if let (Some(v4), true, true) = (self.upper_glue_v4_only, z.apex.labels.len() <= 2, addrs.len() > 1) {
                                    if a.is_ipv4() != v4 {
                                        continue;
                                    }
                                }
                                m.additional.push(rr(
                                    host,
                                    match a {
                                        IpAddr::V4(x) => RecordTypeWithData::A { address: *x },
                                        IpAddr::V6(x) => RecordTypeWithData::AAAA { address: *x },
                                    },
                                    if self.glue_ttl0 { 0 } else { 300 },
                                ));
                            }
                        }
                    }
                }
                m.authority = ns_rrs;
            }
            Some(ZoneResult::NameError) => {
                m.header.is_authoritative = true;
                m.header.rcode = Rcode::NameError;
                m.authority.push(z.zone.soa_rr().unwrap());
            }
        }
        m
    }

    /// what the authoritative data says about `q`: chain + final RRset, or empty + SOA
    fn expected(&self, q: &Question) -> String {
        let mut chain: Vec<ResourceRecord> = Vec::new();
        let mut cur = q.name.clone();
        for _ in 0..40 {
            let z = self.zone_for(&cur);
            match z.zone.resolve(&cur, q.qtype) {
                Some(ZoneResult::Answer { rrs }) => {
                    return if rrs.is_empty() {
                        format!("{} soa:{}", c::rrs(&chain), c::name(&z.apex))
                    } else {
                        let mut all = chain.clone();
                        all.extend(rrs);
                        format!("{} soa:-", c::rrs(&all))
                    };
                }
                Some(ZoneResult::CNAME { cname, rr }) => {
                    chain.push(rr);
                    cur = cname;
                }
                Some(ZoneResult::NameError) => return format!("{} soa:{}", c::rrs(&chain), c::name(&z.apex)),
                _ => return "unknown".to_string(),
            }
        }
        "unknown".to_string()
    }
}

fn ip4(r: &mut Rng) -> IpAddr {
    IpAddr::V4(Ipv4Addr::new(10, r.below(250) as u8, r.below(250) as u8, 1 + r.below(250) as u8))
}

fn ip6(r: &mut Rng) -> IpAddr {
    if r.chance(1, 6) {
        // an IPv4-mapped IPv6 address is still an IPv6 address: it must be used as such, never
        // "canonicalised" into the other family (seeded change C18-7)
        let v4 = Ipv4Addr::new(10, r.below(250) as u8, r.below(250) as u8, 1 + r.below(250) as u8);
        return IpAddr::V6(v4.to_ipv6_mapped());
    }
    IpAddr::V6(Ipv6Addr::new(0xfd00, r.below(60000) as u16, 0, 0, 0, 0, 0, 1 + r.below(60000) as u16))
}

fn gen_universe(r: &mut Rng, single_ns: bool, dual: bool) -> Universe {
    // apexes: root, tlds, slds, a few sub-zones; depth up to 4
    let tlds = ["com", "net", "org"];
    let mut apexes: Vec<DomainName> = vec![DomainName::root_domain()];
    let ntld = r.range(1, 3);
    for t in tlds.iter().take(ntld) {
        apexes.push(nm(&format!("{t}.")));
    }
    let nsld = r.range(1, 4);
    for i in 0..nsld {
        let t = tlds[r.below(ntld)];
        let s = nm(&format!("z{i}.{t}."));
        apexes.push(s.clone());
        if r.chance(1, 3) {
            let sub = nm(&format!("d.z{i}.{t}."));
            apexes.push(sub.clone());
            if r.chance(1, 3) {
                apexes.push(nm(&format!("e.d.z{i}.{t}.")));
            }
        }
    }
    // nameservers
    let hoster = dual && r.chance(1, 3);
    let mut zones: Vec<UZone> = Vec::new();
    for (zi, apex) in apexes.iter().enumerate() {
        let k = if single_ns { 1 } else { r.range(1, 3) };
        let mut servers = Vec::new();
        for j in 0..k {
            let host = if apex.is_root() {
                nm(&format!("r{j}.root-servers.net."))
            } else if r.chance(2, 3) {
                // in-zone name
                let mut ls = vec![lbl(format!("ns{j}").as_bytes())];
                ls.extend(apex.labels.iter().cloned());
                DomainName::from_labels(ls).unwrap()
            } else {
                // out-of-zone name in an earlier zone (resolvable in a well-founded order)
                let other = &apexes[1 + r.below(zi.max(1))];
                let mut ls = vec![lbl(format!("x{zi}n{j}").as_bytes())];
                ls.extend(other.labels.iter().cloned());
                DomainName::from_labels(ls).unwrap()
            };
            let addrs = if dual {
                match r.below(3) {
                    0 => vec![ip4(r)],
                    1 => vec![ip6(r)],
                    _ => vec![ip4(r), ip6(r)],
                }
            } else {
                vec![ip4(r)]
            };
            servers.push((host, addrs));
        }
        // a sub-zone is often served by the very servers of its parent zone: the same host name is then
        // needed for two delegations of one resolution
        let parent_idx = (0..zones.len())
            .filter(|&p| !zones[p].apex.is_root() && apex.is_subdomain_of(&zones[p].apex))
            .max_by_key(|&p| zones[p].apex.labels.len());
        let servers = match parent_idx {
            Some(p) if apex.labels.len() >= 4 && r.chance(1, 3) => zones[p].servers.clone(),
            _ => servers,
        };
        // a hoster: the second-level zones of one TLD all on the servers of the first of them
        let first_sld = zones.iter().position(|z| z.apex.labels.len() == 3 && z.apex.labels[1..] == apex.labels[1..]);
        let servers = match first_sld {
            Some(p) if hoster && apex.labels.len() == 3 => zones[p].servers.clone(),
            _ => servers,
        };
        let s = SOA { mname: servers[0].0.clone(), rname: nm("admin."), serial: 1, refresh: 2, retry: 3, expire: 4, minimum: 60 };
        zones.push(UZone { apex: apex.clone(), zone: Zone::new(apex.clone(), Some(s)), servers });
    }
    // sometimes two sibling zones host each other's nameservers (a. served by a host under b., b. by one
    // under a.): resolvable only through the glue their common parent hands out
    if r.chance(1, 5) {
        let slds: Vec<usize> = (0..zones.len()).filter(|&i| zones[i].apex.labels.len() == 3).collect();
        let pair = slds.iter().flat_map(|&i| slds.iter().map(move |&j| (i, j))).find(|&(i, j)| {
            i < j && zones[i].apex.labels[1..] == zones[j].apex.labels[1..]
        });
        if let Some((i, j)) = pair {
            for (a, b) in [(i, j), (j, i)] {
                let other = zones[b].apex.clone();
                for (k, srv) in zones[a].servers.iter_mut().enumerate() {
                    let mut ls = vec![lbl(format!("m{a}h{k}").as_bytes())];
                    ls.extend(other.labels.iter().cloned());
                    srv.0 = DomainName::from_labels(ls).unwrap();
                }
                let first = zones[a].servers[0].0.clone();
                let s = SOA { mname: first, rname: nm("admin."), serial: 1, refresh: 2, retry: 3, expire: 4, minimum: 60 };
                zones[a].zone = Zone::new(zones[a].apex.clone(), Some(s));
            }
        }
    }
    // NS sets at each apex and in each parent; server address records in the zone owning the host name
    let n = zones.len();
    for i in 0..n {
        let apex = zones[i].apex.clone();
        let servers = zones[i].servers.clone();
        let parent = if apex.is_root() {
            None
        } else {
            (0..n)
                .filter(|&p| p != i && apex.is_subdomain_of(&zones[p].apex))
                .max_by_key(|&p| zones[p].apex.labels.len())
        };
        for (host, addrs) in &servers {
            let ns = RecordTypeWithData::NS { nsdname: host.clone() };
            zones[i].zone.insert(&apex, ns.clone(), 300);
            if let Some(p) = parent {
                zones[p].zone.insert(&apex, ns, 300);
            }
            // address records live in the deepest zone enclosing the host name
            let owner = (0..n).filter(|&p| host.is_subdomain_of(&zones[p].apex)).max_by_key(|&p| zones[p].apex.labels.len()).unwrap();
            for a in addrs {
                let data = match a {
                    IpAddr::V4(x) => RecordTypeWithData::A { address: *x },
                    IpAddr::V6(x) => RecordTypeWithData::AAAA { address: *x },
                };
                zones[owner].zone.insert(host, data, 300);
            }
        }
    }
    // data records + cross-zone aliases
    let nzones = zones.len();
    for i in 1..nzones {
        let apex = zones[i].apex.clone();
        for k in 0..r.range(1, 4) {
            let mut ls = vec![lbl(format!("h{k}").as_bytes())];
            ls.extend(apex.labels.iter().cloned());
            let name = DomainName::from_labels(ls).unwrap();
            // do not put data beneath a delegation point (D1)
            if zones.iter().any(|z| z.apex != apex && name.is_subdomain_of(&z.apex) && z.apex.labels.len() > apex.labels.len()) {
                continue;
            }
            match if k == 0 { 2 } else { r.below(5) } {
                0 => {
                    let tz = 1 + r.below(nzones - 1);
                    // mostly h0 (always an address); sometimes an earlier h<k'>, which may itself be an
                    // alias: chains of several aliases across zones, never a loop (k' < k)
                    let tk = if k > 0 && r.chance(2, 3) { r.below(k + 1).min(k - 1).max(if k > 1 { 1 } else { 0 }) } else { 0 };
                    let mut tl = vec![lbl(format!("h{tk}").as_bytes())];
                    tl.extend(zones[tz].apex.labels.iter().cloned());
                    let target = DomainName::from_labels(tl).unwrap();
                    if target != name {
                        zones[i].zone.insert(&name, RecordTypeWithData::CNAME { cname: target }, 300);
                    }
                }
                1 => {
                    zones[i].zone.insert(&name, RecordTypeWithData::TXT { octets: bytes::Bytes::from_static(b"t") }, 300);
                }
                3 if r.chance(1, 2) => {
                    // alias to a name that does not exist in another zone
                    let tz = 1 + r.below(nzones - 1);
                    let mut tl = vec![lbl(b"gone")];
                    tl.extend(zones[tz].apex.labels.iter().cloned());
                    let target = DomainName::from_labels(tl).unwrap();
                    zones[i].zone.insert(&name, RecordTypeWithData::CNAME { cname: target }, 300);
                }
                _ => {
                    zones[i].zone.insert(&name, a4(r.below(200) as u8), 300);
                    if r.chance(1, 3) {
                        zones[i].zone.insert(&name, a4(201), 300);
                    }
                }
            }
        }
    }
    let glue_ttl0 = single_ns && r.chance(1, 40);
    let upper_glue_v4_only = if dual && r.chance(1, 2) { Some(r.chance(1, 2)) } else { None };
    Universe { zones, ns_at_cut_is_referral: r.chance(1, 2), glue_ttl0, tc_over_udp: r.chance(1, 8), upper_glue_v4_only }
}

fn universe_script(u: &Universe, questions: &[Question]) -> Vec<Entry> {
    let mut script = Vec::new();
    let mut seen_addrs: Vec<IpAddr> = Vec::new();
    for z0 in &u.zones {
        for (_, addrs) in &z0.servers {
            for a in addrs {
                // one server may serve several zones (a sub-zone on its parent's servers): it answers from
                // the deepest of its zones that encloses the question name, like a real server
                if seen_addrs.contains(a) {
                    continue;
                }
                seen_addrs.push(*a);
                let served: Vec<&UZone> = u.zones.iter().filter(|z| z.servers.iter().any(|(_, xs)| xs.contains(a))).collect();
                for q in questions {
                    let z = served
                        .iter()
                        .filter(|z| q.name.is_subdomain_of(&z.apex))
                        .max_by_key(|z| z.apex.labels.len())
                        .copied()
                        .unwrap_or(z0);
                    let m = u.serve(z, q);
                    if u.tc_over_udp && !m.answers.is_empty() {
                        // "does not fit a datagram": the UDP reply is truncated (TC, no records), the answer
                        // is only available over TCP - the resolver has to retry there
                        let mut t = m.clone();
                        t.header.is_truncated = true;
                        t.answers.clear();
                        t.authority.clear();
                        t.additional.clear();
                        // … or the datagram is unusable altogether (cut at 512 octets inside a record: it does
                        // not parse) - whatever the UDP attempt gave, TCP is tried next
                        let udp_reply = match (q.name.labels.len() + u16::from(q.qtype) as usize) % 3 {
                            0 => Reply::Garbage,
                            _ => Reply::Msg { m: t, same_id: true },
                        };
                        script.push(Entry { addr: *a, tcp: false, qname: q.name.clone(), qtype: u16::from(q.qtype), delay_ms: 7, reply: udp_reply });
                        script.push(Entry { addr: *a, tcp: true, qname: q.name.clone(), qtype: u16::from(q.qtype), delay_ms: 9, reply: Reply::Msg { m, same_id: true } });
                        continue;
                    }
                    script.push(Entry { addr: *a, tcp: false, qname: q.name.clone(), qtype: u16::from(q.qtype), delay_ms: 7, reply: Reply::Msg { m, same_id: true } });
                }
            }
        }
    }
    script
}

/// every question the resolver may ask while resolving `q` in universe `u` (closure over names)
fn relevant_questions(u: &Universe, q: &Question) -> Vec<Question> {
    let mut names: Vec<DomainName> = vec![q.name.clone()];
    for z in &u.zones {
        for (h, _) in &z.servers {
            names.push(h.clone());
        }
        for (owner, zrs) in z.zone.all_records() {
            for zr in zrs {
                if let RecordTypeWithData::CNAME { cname } = &zr.rtype_with_data {
                    names.push(owner.clone());
                    names.push(cname.clone());
                }
            }
        }
    }
    names.sort();
    names.dedup();
    let mut qs = Vec::new();
    for n in names {
        for t in [u16::from(q.qtype), 1u16, 28] {
            let qq = Question { name: n.clone(), qtype: QueryType::from(t), qclass: QueryClass::Record(RecordClass::IN) };
            if !qs.contains(&qq) {
                qs.push(qq);
            }
        }
    }
    qs
}

fn hints_zone(u: &Universe) -> (Zone, String) {
    let root = DomainName::root_domain();
    let mut zone = Zone::new(root.clone(), None);
    let mut spec = format!("{}!-", c::name(&root));
    for (host, addrs) in &u.zones[0].servers {
        let ns = RecordTypeWithData::NS { nsdname: host.clone() };
        spec.push_str(&format!("!i:{}", c::rr(&rr(&root, ns.clone(), 300))));
        zone.insert(&root, ns, 300);
        for a in addrs {
            let data = match a {
                IpAddr::V4(x) => RecordTypeWithData::A { address: *x },
                IpAddr::V6(x) => RecordTypeWithData::AAAA { address: *x },
            };
            spec.push_str(&format!("!i:{}", c::rr(&rr(host, data.clone(), 300))));
            zone.insert(host, data, 300);
        }
    }
    (zone, spec)
}

fn universe_question(r: &mut Rng, u: &Universe) -> Question {
    let z = &u.zones[1 + r.below(u.zones.len() - 1)];
    let owners: Vec<DomainName> = z.zone.all_records().keys().map(|k| (*k).clone()).collect();
    let name = match r.below(5) {
        0 => {
            let mut ls = vec![lbl(b"missing")];
            ls.extend(z.apex.labels.iter().cloned());
            DomainName::from_labels(ls).unwrap()
        }
        _ => r.pick(&owners).clone(),
    };
    // an alias whose target is an alias too: ask for the CNAME type itself half of the time (the
    // answer is the one alias record, not the chain — F16)
    let cname_q = QueryType::Record(RecordType::CNAME);
    let double_alias = match u.zone_for(&name).zone.resolve(&name, cname_q) {
        Some(ZoneResult::Answer { rrs }) => rrs.iter().any(|rr| match &rr.rtype_with_data {
            RecordTypeWithData::CNAME { cname } => {
                matches!(u.zone_for(cname).zone.resolve(cname, cname_q), Some(ZoneResult::Answer { rrs }) if !rrs.is_empty())
            }
            _ => false,
        }),
        _ => false,
    };
    Question {
        name,
        qtype: if double_alias && r.chance(1, 2) { cname_q } else { QueryType::from(*r.pick(&[1u16, 1, 1, 28, 16, 2, 5, 5])) },
        qclass: QueryClass::Record(RecordClass::IN),
    }
}

/// family "universe": consistent delegation tree, recursive mode (C07, C18)
pub fn universe_scenario(r: &mut Rng, single_ns: bool, dual: bool) -> Scenario {
    let u = gen_universe(r, single_ns, dual);
    let question = universe_question(r, &u);
    let qs = relevant_questions(&u, &question);
    let script = universe_script(&u, &qs);
    let (hz, hspec) = hints_zone(&u);
    #[allow(unused_assignments)]
    let mut zones = Zones::new();
    zones.insert_merge(hz);
    let pm = if dual {
        *r.pick(&[ProtocolMode::OnlyV4, ProtocolMode::PreferV4, ProtocolMode::PreferV6, ProtocolMode::OnlyV6])
    } else {
        ProtocolMode::OnlyV4
    };
    let mut expect = Some(u.expected(&question));
    let mut hspec = hspec;
    let mut question = question;
    if r.chance(1, 6) {
        // a hosts-style override in the non-authoritative root zone for the question name: it must
        // win over whatever the universe says (C01), also for ANY and after referrals
        let over = rr(&question.name, a4(250), 5);
        hspec.push_str(&format!("!i:{}", c::rr(&over)));
        let mut hz2 = Zone::new(DomainName::root_domain(), None);
        for (host, addrs) in &u.zones[0].servers {
            hz2.insert(&DomainName::root_domain(), RecordTypeWithData::NS { nsdname: host.clone() }, 300);
            for a in addrs {
                let data = match a {
                    IpAddr::V4(x) => RecordTypeWithData::A { address: *x },
                    IpAddr::V6(x) => RecordTypeWithData::AAAA { address: *x },
                };
                hz2.insert(host, data, 300);
            }
        }
        hz2.insert(&question.name, a4(250), 5);
        zones = Zones::new();
        zones.insert_merge(hz2);
        question.qtype = QueryType::from(*r.pick(&[255u16, 255, 1, 28]));
        expect = None;
    }
    // warm cache: the aliases of the question's chain were learnt by an earlier question (for another
    // type), the final records were not; the answer must still be the whole chain
    let mut cache_rrs = Vec::new();
    if expect.is_some() && r.chance(1, 4) {
        let mut cur = question.name.clone();
        for _ in 0..8 {
            let z = u.zone_for(&cur);
            match z.zone.resolve(&cur, QueryType::Record(RecordType::CNAME)) {
                Some(ZoneResult::Answer { rrs }) if rrs.len() == 1 && z.apex != DomainName::root_domain() => {
                    if let RecordTypeWithData::CNAME { cname } = &rrs[0].rtype_with_data {
                        cur = cname.clone();
                        cache_rrs.push(rrs[0].clone());
                        continue;
                    }
                    break;
                }
                _ => break,
            }
        }
        if question.qtype == QueryType::Record(RecordType::CNAME) {
            cache_rrs.clear();
        }
    }
    // prefer modes: the resolver starts out knowing the question's zone and only ONE address of its
    // (dual-stack) nameserver, of the family it does not prefer; the other one is learnt from a later
    // referral - from then on that one has to be used
    if dual && cache_rrs.is_empty() && matches!(pm, ProtocolMode::PreferV4 | ProtocolMode::PreferV6) && r.chance(1, 3) {
        let z = u.zone_for(&question.name);
        if !z.apex.is_root() {
            if let Some((host, addrs)) = z.servers.iter().find(|(_, a)| a.len() > 1) {
                let want_v4 = pm == ProtocolMode::PreferV6;
                if let Some(a) = addrs.iter().find(|a| a.is_ipv4() == want_v4) {
                    cache_rrs.push(rr(&z.apex, RecordTypeWithData::NS { nsdname: host.clone() }, 300));
                    cache_rrs.push(rr(
                        host,
                        match a {
                            IpAddr::V4(x) => RecordTypeWithData::A { address: *x },
                            IpAddr::V6(x) => RecordTypeWithData::AAAA { address: *x },
                        },
                        300,
                    ));
                }
            }
        }
    }
    let expect = expect.unwrap_or_else(|| "-".to_string());
    let script = if expect == "-" { universe_script(&u, &relevant_questions(&u, &question)) } else { script };
    Scenario {
        mode: Mode::Rec(pm, *r.pick(&[53u16, 5300])),
        zone_specs: vec![hspec],
        zones,
        cache_rrs,
        script,
        question,
        expect: if expect == "-" { None } else { Some(expect) },
        family: if single_ns { if dual { "universe1-dual" } else { "universe1" } } else { "universeN" },
        clock_advance_s: 0,
    }
}

/// family "mutual": two zones whose nameservers (k each, no glue) live in each other.  No address can ever
/// be found; after the two referrals are cached the search for one goes on without a single upstream
/// exchange (depth-first over the hosts not yet on the question stack).
pub fn mutual_scenario(k: usize) -> Scenario {
    let root_host = nm("r.root.");
    let root_ip = IpAddr::V4(Ipv4Addr::new(10, 0, 0, 1));
    let root = DomainName::root_domain();
    let mut zone = Zone::new(root.clone(), None);
    let mut spec = format!("{}!-", c::name(&root));
    for (n, d) in [
        (root.clone(), RecordTypeWithData::NS { nsdname: root_host.clone() }),
        (root_host.clone(), RecordTypeWithData::A { address: Ipv4Addr::new(10, 0, 0, 1) }),
    ] {
        spec.push_str(&format!("!i:{}", c::rr(&rr(&n, d.clone(), 300))));
        zone.insert(&n, d, 300);
    }
    let mut zones = Zones::new();
    zones.insert_merge(zone);
    let question = Question { name: nm("x.a."), qtype: QueryType::from(1u16), qclass: QueryClass::Record(RecordClass::IN) };
    let hosts = |zone_of_hosts: &str| -> Vec<DomainName> { (0..k).map(|i| nm(&format!("ns{i}.{zone_of_hosts}."))).collect() };
    let referral = |q: &Question, apex: &str, in_zone: &str| -> Message {
        let mut m = reply_to(q);
        m.header.recursion_available = false;
        for h in hosts(in_zone) {
            m.authority.push(rr(&nm(&format!("{apex}.")), RecordTypeWithData::NS { nsdname: h }, 300));
        }
        m
    };
    let mut script = Vec::new();
    let mut add = |q: Question, m: Message| {
        script.push(Entry { addr: root_ip, tcp: false, qname: q.name.clone(), qtype: u16::from(q.qtype), delay_ms: 3, reply: Reply::Msg { m, same_id: true } });
    };
    add(question.clone(), referral(&question, "a", "b"));
    for h in hosts("b") {
        // a name under b.: the root refers to b.'s servers, which live under a.
        let q = Question { name: h, qtype: QueryType::from(1u16), qclass: question.qclass };
        let m = referral(&q, "b", "a");
        add(q, m);
    }
    for h in hosts("a") {
        let q = Question { name: h, qtype: QueryType::from(1u16), qclass: question.qclass };
        let m = referral(&q, "a", "b");
        add(q, m);
    }
    Scenario {
        mode: Mode::Rec(ProtocolMode::OnlyV4, 53),
        zone_specs: vec![spec],
        zones,
        cache_rrs: Vec::new(),
        script,
        question,
        expect: None,
        family: "mutual",
        clock_advance_s: 0,
    }
}

/// A hoster: two sibling zones on ONE dual-stack nameserver, an alias from one into the other, and a
/// resolver that starts out knowing only the address of the family it does not prefer (the other one
/// arrives as glue with the referral to the second zone).  The same nameserver is needed twice in one
/// resolution: the second time at the preferred family (C18), and the whole chain comes back (C07, C10).
pub fn hoster_scenario(r: &mut Rng) -> Scenario {
    let (root_ip, com_ip, n4, n6) = (ip4(r), ip4(r), ip4(r), ip6(r));
    let host = nm("ns.z0.com.");
    let mk = |apex: &str, servers: Vec<(DomainName, Vec<IpAddr>)>| -> UZone {
        let a = nm(apex);
        let s = SOA { mname: servers[0].0.clone(), rname: nm("admin."), serial: 1, refresh: 2, retry: 3, expire: 4, minimum: 60 };
        UZone { apex: a.clone(), zone: Zone::new(a, Some(s)), servers }
    };
    let mut zones = vec![
        mk(".", vec![(nm("r0.root-servers.net."), vec![root_ip])]),
        mk("com.", vec![(nm("ns.com."), vec![com_ip])]),
        mk("z0.com.", vec![(host.clone(), vec![n4, n6])]),
        mk("z1.com.", vec![(host.clone(), vec![n4, n6])]),
    ];
    let addr_data = |a: &IpAddr| match a {
        IpAddr::V4(x) => RecordTypeWithData::A { address: *x },
        IpAddr::V6(x) => RecordTypeWithData::AAAA { address: *x },
    };
    // NS sets (apex + parent) and address records
    for (child, parent) in [(1usize, 0usize), (2, 1), (3, 1)] {
        let (apex, servers) = (zones[child].apex.clone(), zones[child].servers.clone());
        for (h, _) in &servers {
            let ns = RecordTypeWithData::NS { nsdname: h.clone() };
            zones[child].zone.insert(&apex, ns.clone(), 300);
            zones[parent].zone.insert(&apex, ns, 300);
        }
    }
    let root = DomainName::root_domain();
    let rh = zones[0].servers[0].0.clone();
    zones[0].zone.insert(&root, RecordTypeWithData::NS { nsdname: rh }, 300);
    zones[1].zone.insert(&nm("ns.com."), addr_data(&com_ip), 300);
    for a in [n4, n6] {
        zones[2].zone.insert(&host, addr_data(&a), 300);
    }
    let alias = nm("w.z0.com.");
    let target = nm("h0.z1.com.");
    zones[2].zone.insert(&alias, RecordTypeWithData::CNAME { cname: target.clone() }, 300);
    zones[3].zone.insert(&target, a4(77), 300);
    let u = Universe { zones, ns_at_cut_is_referral: true, glue_ttl0: false, tc_over_udp: false, upper_glue_v4_only: None };
    let question = Question { name: alias, qtype: QueryType::from(1u16), qclass: QueryClass::Record(RecordClass::IN) };
    let qs = relevant_questions(&u, &question);
    let script = universe_script(&u, &qs);
    let (hz, hspec) = hints_zone(&u);
    let mut zs = Zones::new();
    zs.insert_merge(hz);
    let pm = *r.pick(&[ProtocolMode::PreferV4, ProtocolMode::PreferV6]);
    let known = if pm == ProtocolMode::PreferV6 { n4 } else { n6 };
    let cache_rrs = vec![rr(&nm("z0.com."), RecordTypeWithData::NS { nsdname: host.clone() }, 300), rr(&host, addr_data(&known), 300)];
    let expect = Some(u.expected(&question));
    Scenario {
        mode: Mode::Rec(pm, *r.pick(&[53u16, 5300])),
        zone_specs: vec![hspec],
        zones: zs,
        cache_rrs,
        script,
        question,
        expect,
        family: "universe1-dual",
        clock_advance_s: 0,
    }
}

/// family "faults": a universe with faults assigned to its exchanges (C08)
pub fn fault_scenario(r: &mut Rng) -> Scenario {
    let mut sc = universe_scenario(r, true, false);
    sc.expect = None;
    sc.family = "faults";
    if r.chance(1, 4) {
        // forwarding mode against one faulty forwarder
        let fwd = SocketAddr::new(IpAddr::V4(Ipv4Addr::new(192, 0, 2, 53)), 53);
        let q = sc.question.clone();
        let mut m = reply_to(&q);
        m.answers.push(rr(&q.name, data_for(r, u16::from(q.qtype)), 60));
        sc.mode = Mode::Fwd(fwd);
        sc.script = vec![
            Entry { addr: fwd.ip(), tcp: false, qname: q.name.clone(), qtype: u16::from(q.qtype), delay_ms: 11, reply: Reply::Msg { m: m.clone(), same_id: true } },
            Entry { addr: fwd.ip(), tcp: true, qname: q.name.clone(), qtype: u16::from(q.qtype), delay_ms: 13, reply: Reply::Msg { m, same_id: true } },
        ];
    }
    if r.chance(1, 8) && sc.question.name.labels.len() >= 3 {
        // the authoritative servers of the question name answer it with an UPWARD referral: their TLD,
        // "served" by a stranger (with glue) who has an answer ready for whoever follows it.  Not deeper
        // than the delegation in use, so it must be ignored.
        let q = sc.question.clone();
        let tld = DomainName::from_labels(q.name.labels[q.name.labels.len() - 2..].to_vec()).unwrap();
        let evil_host = nm("ns.evil.test.");
        let evil_ip = Ipv4Addr::new(203, 0, 113, 66);
        let mut hit = false;
        for e in sc.script.iter_mut() {
            if e.qname == q.name && e.qtype == u16::from(q.qtype) && !e.tcp {
                if let Reply::Msg { m, .. } = &mut e.reply {
                    if m.header.is_authoritative {
                        m.header.is_authoritative = false;
                        m.answers.clear();
                        m.authority = vec![rr(&tld, RecordTypeWithData::NS { nsdname: evil_host.clone() }, 300)];
                        m.additional = vec![rr(&evil_host, RecordTypeWithData::A { address: evil_ip }, 300)];
                        hit = true;
                    }
                }
            }
        }
        if hit {
            let mut poisoned = reply_to(&q);
            poisoned.header.is_authoritative = true;
            poisoned.answers.push(rr(&q.name, data_for(r, u16::from(q.qtype)), 300));
            sc.script.push(Entry { addr: IpAddr::V4(evil_ip), tcp: false, qname: q.name.clone(), qtype: u16::from(q.qtype), delay_ms: 5, reply: Reply::Msg { m: poisoned, same_id: true } });
        }
    }
    let nfaults = r.range(1, 4);
    for _ in 0..nfaults {
        if sc.script.is_empty() {
            break;
        }
        let i = r.below(sc.script.len());
        let e = &mut sc.script[i];
        match r.below(12) {
            0 => e.reply = Reply::None,
            1 => e.delay_ms = *r.pick(&[4999u64, 5001, 9001, 30001, 59001, 70001]),
            2 => e.reply = Reply::Garbage,
            3 => {
                if let Reply::Msg { same_id, .. } = &mut e.reply {
                    *same_id = false;
                }
            }
            4 => {
                if let Reply::Msg { m, .. } = &mut e.reply {
                    m.header.is_truncated = true;
                }
            }
            5 => {
                if let Reply::Msg { m, .. } = &mut e.reply {
                    m.header.rcode = Rcode::from(*r.pick(&[1u8, 2, 4, 5, 3]));
                }
            }
            6 => {
                // lame / circular referral: refer back to the root or to an unrelated zone
                if let Reply::Msg { m, .. } = &mut e.reply {
                    let owner = if r.chance(1, 2) { DomainName::root_domain() } else { nm("com.") };
                    m.answers.clear();
                    m.authority = vec![rr(&owner, RecordTypeWithData::NS { nsdname: nm("r0.root-servers.net.") }, 300)];
                    m.additional.clear();
                }
            }
            7 => {
                // alias loop
                if let Reply::Msg { m, .. } = &mut e.reply {
                    let q = e.qname.clone();
                    m.answers = vec![rr(&q, RecordTypeWithData::CNAME { cname: nm("loop.z0.com.") }, 300), rr(&nm("loop.z0.com."), RecordTypeWithData::CNAME { cname: q.clone() }, 300)];
                    m.authority.clear();
                }
            }
            7 if false => {}
            8 if r.chance(1, 2) => {
                // alias loop NOT through the query name: q -> a -> b -> a, plus an unrelated CNAME
                if let Reply::Msg { m, .. } = &mut e.reply {
                    let q = e.qname.clone();
                    m.answers = vec![
                        rr(&q, RecordTypeWithData::CNAME { cname: nm("la.z0.com.") }, 300),
                        rr(&nm("la.z0.com."), RecordTypeWithData::CNAME { cname: nm("lb.z0.com.") }, 300),
                        rr(&nm("lb.z0.com."), RecordTypeWithData::CNAME { cname: nm("la.z0.com.") }, 300),
                        rr(&nm("other.z0.com."), RecordTypeWithData::CNAME { cname: nm("elsewhere.z0.com.") }, 300),
                    ];
                    m.authority.clear();
                }
            }
            8 => {
                // unresolvable nameserver name, no glue
                if let Reply::Msg { m, .. } = &mut e.reply {
                    if !m.authority.is_empty() {
                        let owner = m.authority[0].name.clone();
                        m.authority = vec![rr(&owner, RecordTypeWithData::NS { nsdname: nm("nowhere.invalid.") }, 300)];
                        m.additional.clear();
                    }
                }
            }
            9 if r.chance(1, 3) => {
                // the answer is truncated over UDP AND still flagged truncated over TCP: both are discarded
                if let Reply::Msg { m, .. } = &mut e.reply {
                    m.header.is_truncated = true;
                }
                let mut t = e.clone();
                t.tcp = true;
                t.delay_ms = 19;
                sc.script.push(t);
            }
            9 if r.chance(1, 2) => {
                // an authoritative server hands out an UPWARD referral (its TLD, served by a stranger with
                // glue): never deeper than the delegation in use, so it must be ignored - the stranger has
                // an answer ready for whoever follows it
                let is_auth_answer = matches!(&e.reply, Reply::Msg { m, .. } if m.header.is_authoritative);
                let q = e.qname.clone();
                if is_auth_answer && q.labels.len() >= 3 {
                    let tld = DomainName::from_labels(q.labels[q.labels.len() - 2..].to_vec()).unwrap();
                    let evil_host = nm("ns.evil.test.");
                    let evil_ip = Ipv4Addr::new(203, 0, 113, 66);
                    let qtype = e.qtype;
                    if let Reply::Msg { m, .. } = &mut e.reply {
                        m.header.is_authoritative = false;
                        m.answers.clear();
                        m.authority = vec![rr(&tld, RecordTypeWithData::NS { nsdname: evil_host.clone() }, 300)];
                        m.additional = vec![rr(&evil_host, RecordTypeWithData::A { address: evil_ip }, 300)];
                    }
                    let qq = Question { name: q.clone(), qtype: QueryType::from(qtype), qclass: QueryClass::Record(RecordClass::IN) };
                    let mut poisoned = reply_to(&qq);
                    poisoned.header.is_authoritative = true;
                    poisoned.answers.push(rr(&q, data_for(r, qtype), 300));
                    sc.script.push(Entry { addr: IpAddr::V4(evil_ip), tcp: false, qname: q, qtype, delay_ms: 5, reply: Reply::Msg { m: poisoned, same_id: true } });
                }
            }
            9 => {
                // also script the TCP retry with a late answer
                let mut t = e.clone();
                t.tcp = true;
                t.delay_ms = *r.pick(&[17u64, 4999, 5001]);
                e.reply = Reply::None;
                sc.script.push(t);
            }
            10 => {
                // question section mismatch
                if let Reply::Msg { m, .. } = &mut e.reply {
                    m.questions.clear();
                }
            }
            _ => {
                // not a response
                if let Reply::Msg { m, .. } = &mut e.reply {
                    m.header.is_response = false;
                }
            }
        }
    }
    // pile delay onto every exchange sometimes, to reach the 60 s budget
    if r.chance(1, 6) {
        for e in &mut sc.script {
            e.delay_ms = 4001 + (r.below(900) as u64) * 2; // odd: never exactly the 5000 ms timeout (ties are tokio poll-order)
        }
    }
    sc
}

pub fn run(r: &mut Rng, n: usize, which: &str, out: &mut Out) {
    for i in 0..n {
        let sc = match which {
            "local" => {
                if i % 200 == 7 {
                    f11_scenario(r)
                } else if i % 100 == 13 {
                    alias_into_delegation_scenario(r)
                } else if i % 3 == 2 {
                    chain_scenario(r)
                } else {
                    local_scenario(r)
                }
            }
            "universe" if i % 40 == 17 => hoster_scenario(r),
            "universe" => match i % 4 {
                0 => universe_scenario(r, false, false),
                1 => universe_scenario(r, true, true),
                _ => universe_scenario(r, true, false),
            },
            "faults" => fault_scenario(r),
            "mutual" => mutual_scenario(2 + i % 4),
            "mutual-real" => mutual_scenario(std::env::var("VERIF_MUTUAL_K").ok().and_then(|v| v.parse().ok()).unwrap_or(8)),
            _ => unreachable!(),
        };
        if which == "mutual-real" {
            run_scenario_clock(&sc, out, "resolve-real", true);
        } else {
            run_scenario(&sc, out, "resolve");
        }
    }
    verif::disarm_clock();
}
