//! C14 / C17 streams: `Hosts::{deserialise, serialise, merge, from_zone_lossy}`,
//! `From<Hosts> for Zone`, `TryFrom<Zone> for Hosts` (stream `hosts`), and the std functions the
//! Lean model re-implements: `IpAddr::from_str`, `Display for Ipv4Addr / Ipv6Addr` (stream `ip`).
use std::collections::HashMap;
use std::net::{IpAddr, Ipv4Addr, Ipv6Addr};
use std::panic::{catch_unwind, AssertUnwindSafe};
use std::str::FromStr;

use dns_types::hosts::deserialise::Error as HErr;
use dns_types::hosts::types::*;
use dns_types::protocol::types::*;
use dns_types::zones::types::*;

use crate::codec as c;
use crate::rng::Rng;
use crate::Out;

// ---------------------------------------------------------------------------------------------
// text forms

pub fn groups_text(s: &[u16; 8]) -> String {
    s.iter().map(|g| g.to_string()).collect::<Vec<_>>().join("-")
}

pub fn hosts_dump(h: &Hosts) -> String {
    let mut e4: Vec<String> = h.v4.iter().map(|(n, a)| format!("{}={}", c::name(n), u32::from(*a))).collect();
    let mut e6: Vec<String> =
        h.v6.iter().map(|(n, a)| format!("{}={}", c::name(n), groups_text(&a.segments()))).collect();
    e4.sort();
    e6.sort();
    format!(
        "v4:{}|v6:{}",
        if e4.is_empty() { "-".to_string() } else { e4.join(",") },
        if e6.is_empty() { "-".to_string() } else { e6.join(",") }
    )
}

fn herr_text(e: &HErr) -> String {
    match e {
        HErr::ExpectedAscii { octet } => format!("ExpectedAscii({})", *octet as u32),
        HErr::CouldNotParseAddress { address } => format!("CouldNotParseAddress({})", c::hex(address.as_bytes())),
        HErr::CouldNotParseName { name } => format!("CouldNotParseName({})", c::hex(name.as_bytes())),
    }
}

/// big inputs in a child process on a 2 MiB stack (`abort` = the reader took the process down)
fn parse_text(text: &str) -> String {
    if text.len() >= 1500 {
        crate::isolate::run_child("hosts", text)
    } else {
        parse_text_of(text)
    }
}

pub fn parse_text_of(text: &str) -> String {
    match catch_unwind(AssertUnwindSafe(|| Hosts::deserialise(text))) {
        Err(_) => "panic".to_string(),
        Ok(Ok(h)) => format!("ok {}", hosts_dump(&h)),
        Ok(Err(e)) => format!("err {}", herr_text(&e)),
    }
}

fn ip_text(r: &Option<IpAddr>) -> String {
    match r {
        None => "none".to_string(),
        Some(IpAddr::V4(a)) => format!("v4:{}", u32::from(*a)),
        Some(IpAddr::V6(a)) => format!("v6:{}", groups_text(&a.segments())),
    }
}

// ---------------------------------------------------------------------------------------------
// generators: addresses

const V4_OCTETS: [u8; 14] = [0, 0, 1, 2, 9, 10, 99, 100, 127, 199, 200, 249, 250, 255];
const V6_GROUPS: [u16; 12] = [1, 1, 2, 0xf, 0x10, 0xff, 0x100, 0xabc, 0xfff, 0x1000, 0xffff, 0xffff];

fn gen_v4(r: &mut Rng) -> Ipv4Addr {
    match r.below(8) {
        0 => Ipv4Addr::new(127, 0, 0, 1),
        1 => Ipv4Addr::new(0, 0, 0, 0),
        2 => Ipv4Addr::new(10, 0, 0, r.below(3) as u8),
        3 => Ipv4Addr::from(r.next_u64() as u32),
        _ => Ipv4Addr::new(*r.pick(&V4_OCTETS), *r.pick(&V4_OCTETS), *r.pick(&V4_OCTETS), *r.pick(&V4_OCTETS)),
    }
}

/// groups with the zero pattern `mask` (bit i set = group i is zero)
fn v6_with_mask(r: &mut Rng, mask: u8, values: u8) -> [u16; 8] {
    let mut g = [0u16; 8];
    for (i, slot) in g.iter_mut().enumerate() {
        if mask & (1 << i) == 0 {
            *slot = match values {
                0 => 1,
                1 => 0xffff,
                2 => *r.pick(&V6_GROUPS),
                _ => {
                    let x = r.next_u64() as u16;
                    if x == 0 {
                        1
                    } else {
                        x
                    }
                }
            };
        }
    }
    g
}

fn gen_v6(r: &mut Rng) -> Ipv6Addr {
    let g = match r.below(10) {
        0 => [0, 0, 0, 0, 0, 0, 0, 1],
        1 => [0; 8],
        2 => [0xfe80, 0, 0, 0, 0, 0, 0, r.below(3) as u16],
        3 => [0, 0, 0, 0, 0, 0xffff, r.next_u64() as u16, r.next_u64() as u16],
        4 => [0, 0, 0, 0, 0, 0, r.next_u64() as u16, r.next_u64() as u16],
        _ => {
            let mask = r.byte();
            let values = r.below(4) as u8;
            v6_with_mask(r, mask, values)
        }
    };
    Ipv6Addr::from(g)
}

fn hex_group(r: &mut Rng, g: u16, style: usize) -> String {
    match style {
        0 => format!("{g:x}"),
        1 => format!("{g:04x}"),
        2 => format!("{g:X}"),
        3 => format!("{g:03x}"),
        _ => {
            if r.chance(1, 2) {
                format!("{g:x}")
            } else {
                format!("{g:04X}")
            }
        }
    }
}

/// a textual form of `a` that std accepts (not necessarily the canonical one)
fn v6_text_valid(r: &mut Rng, a: &Ipv6Addr) -> String {
    let s = a.segments();
    let style = r.below(5);
    let v4tail = r.chance(1, 5);
    // groups rendered individually; optionally the last two as dotted quad
    let ngroups = if v4tail { 6 } else { 8 };
    let mut parts: Vec<String> = (0..ngroups).map(|i| hex_group(r, s[i], style)).collect();
    let tail = if v4tail {
        let o = a.octets();
        Some(format!("{}.{}.{}.{}", o[12], o[13], o[14], o[15]))
    } else {
        None
    };
    // choose a run of zero groups (length >= 1) to compress, or none
    let mut runs = Vec::new();
    let mut i = 0;
    while i < ngroups {
        if s[i] == 0 {
            let mut j = i;
            while j < ngroups && s[j] == 0 {
                j += 1;
            }
            // every sub-run of a zero run may be compressed
            let a0 = r.range(i, j - 1);
            let b0 = r.range(a0 + 1, j);
            runs.push((a0, b0));
            runs.push((i, j));
            i = j;
        } else {
            i += 1;
        }
    }
    let mut out = String::new();
    if !runs.is_empty() && r.chance(4, 5) {
        let (a0, b0) = *r.pick(&runs);
        let head: Vec<String> = parts.drain(..a0).collect();
        let rest: Vec<String> = parts.drain(b0 - a0..).collect();
        out.push_str(&head.join(":"));
        out.push_str("::");
        out.push_str(&rest.join(":"));
        if let Some(t) = tail {
            if !rest.is_empty() {
                out.push(':');
            }
            out.push_str(&t);
        }
    } else {
        out.push_str(&parts.join(":"));
        if let Some(t) = tail {
            out.push(':');
            out.push_str(&t);
        }
    }
    out
}

fn v4_text_valid(a: &Ipv4Addr) -> String {
    a.to_string()
}

const IP_ALPHABET: &[u8] = b"0123456789abcdef:.%";

fn random_ip_string(r: &mut Rng) -> String {
    let n = r.range(0, 20);
    let mut s = String::new();
    for _ in 0..n {
        // bias towards separators so that structures appear
        let ch = match r.below(6) {
            0 => b':',
            1 => {
                if r.chance(1, 2) {
                    b'.'
                } else {
                    b':'
                }
            }
            _ => *r.pick(IP_ALPHABET),
        };
        s.push(ch as char);
    }
    s
}

/// a malformed or unusual address text built from a valid one
fn mutate_ip_text(r: &mut Rng, s: &str) -> String {
    let mut b: Vec<u8> = s.as_bytes().to_vec();
    match r.below(14) {
        0 => b.push(b':'),
        1 => b.insert(0, b':'),
        2 => b.extend_from_slice(b":1"),
        3 => b.extend_from_slice(b"::"),
        4 => {
            if !b.is_empty() {
                let i = r.below(b.len());
                b[i] = *r.pick(b"g:.%G-/ 0x");
            }
        }
        5 => {
            if !b.is_empty() {
                let i = r.below(b.len());
                b.remove(i);
            }
        }
        6 => {
            let i = r.below(b.len() + 1);
            b.insert(i, *r.pick(b"0123456789abcdefABCDEF:.%"));
        }
        7 => {
            // a leading zero in front of some digit run
            let i = r.below(b.len() + 1);
            b.insert(i, b'0');
        }
        8 => b.extend_from_slice(b".1"),
        9 => {
            let mut v = b"1.2.3.4:".to_vec();
            v.extend_from_slice(&b);
            b = v;
        }
        10 => b.extend_from_slice(b":1.2.3.4"),
        11 => b.extend_from_slice(b"%eth0"),
        12 => {
            // duplicate a slice
            if !b.is_empty() {
                let i = r.below(b.len());
                let j = r.range(i, b.len());
                let piece = b[i..j].to_vec();
                b.splice(j..j, piece);
            }
        }
        _ => {
            b = b.to_ascii_uppercase();
        }
    }
    String::from_utf8_lossy(&b).into_owned()
}

const BAD_ADDRS: [&str; 44] = [
    "01.2.3.4", "1.02.3.4", "1.2.3.04", "00.0.0.0", "256.1.1.1", "1.2.3.256", "1.2.3", "1.2.3.4.5", "1.2.3.",
    ".1.2.3", "1..2.3", "1.2.3.4.", "1.2.3.1000", "0x1.2.3.4", "1.2.3.a", "::1::", "1::2::3", ":::", ":", ":1",
    "1:", "1:2:3:4:5:6:7", "1:2:3:4:5:6:7:8:9", "1:2:3:4:5:6:7:8::", "::1:2:3:4:5:6:7:8", "1:2:3:4:5:6:7::8",
    "12345::", "::12345", "g::", "::g", "1.2.3.4::", "1.2.3.4::1", "::1.2.3.4:1", "1:2:3:4:5:6:7:1.2.3.4",
    "1:2:3:4:5:1.2.3.4", "::1.2.3", "::1.2.3.4.5", "::01.2.3.4", "::256.2.3.4", "1:2:3:4:5:6:1.2.3.4:7", "-1.2.3.4",
    "1.2.3.4/8", "[::1]", "localhost",
];

const GOOD_ODD_ADDRS: [&str; 22] = [
    "::", "::1", "1::", "::1.2.3.4", "::ffff:1.2.3.4", "::FFFF:255.255.255.255", "1:2:3:4:5:6:1.2.3.4",
    "1:2:3:4:5:6:7:8", "1::8", "1:2:3:4:5:6:7::", "::2:3:4:5:6:7:8", "0:0:0:0:0:0:0:0", "0000:0000::0000",
    "fe80::1", "FE80::ABCD", "1:2:3::1.2.3.4", "::0.0.0.0", "0.0.0.0", "255.255.255.255", "1::2:0:0:3",
    "0:0:1::", "a:b:c:d:e:f:0:1",
];

/// an address field: (text, is it expected to be well formed?) — the flag is only a coverage hint
fn gen_addr_text(r: &mut Rng, clean: bool) -> String {
    if clean {
        return match r.below(16) {
            0..=5 => v4_text_valid(&gen_v4(r)),
            6..=8 => gen_v6(r).to_string(),
            9..=12 => {
                let a = gen_v6(r);
                v6_text_valid(r, &a)
            }
            13 => r.pick(&GOOD_ODD_ADDRS).to_string(),
            14 => format!("{}%{}", gen_v6(r), r.pick(&["eth0", "lo0", "1"])),
            _ => v4_text_valid(&Ipv4Addr::new(10, 0, 0, r.below(4) as u8)),
        };
    }
    match r.below(20) {
        0..=5 => v4_text_valid(&gen_v4(r)),
        6..=8 => gen_v6(r).to_string(),
        9..=12 => {
            let a = gen_v6(r);
            v6_text_valid(r, &a)
        }
        13 => r.pick(&GOOD_ODD_ADDRS).to_string(),
        14 => r.pick(&BAD_ADDRS).to_string(),
        15 => {
            let base = if r.chance(1, 2) { v4_text_valid(&gen_v4(r)) } else { gen_v6(r).to_string() };
            mutate_ip_text(r, &base)
        }
        16 => {
            // interface suffix
            let base = match r.below(4) {
                0 => v4_text_valid(&gen_v4(r)),
                1 => "fe80::1".to_string(),
                2 => "zzz".to_string(),
                _ => gen_v6(r).to_string(),
            };
            format!("{base}%{}", r.pick(&["eth0", "lo0", "", "1", "%", "e\u{e9}"]))
        }
        17 => random_ip_string(r),
        _ => v4_text_valid(&Ipv4Addr::new(10, 0, 0, r.below(4) as u8)),
    }
}

// ---------------------------------------------------------------------------------------------
// generators: names and lines

const NAME_LABELS: [&str; 12] = ["a", "b", "www", "localhost", "x1", "EXAMPLE", "Com", "a-b", "_x", "p%q", "LAN", "1"];

fn gen_name_text(r: &mut Rng, clean: bool) -> String {
    let sel = if clean { 10 + r.below(30) } else { r.below(40) };
    if clean && r.chance(1, 60) {
        return if r.chance(1, 2) { ".".to_string() } else { "x".repeat(63) };
    }
    match sel {
        0 => ".".to_string(),
        1 => "a..b".to_string(),
        2 => ".a".to_string(),
        3 => "a..".to_string(),
        4 => "x".repeat(63),
        5 => "x".repeat(*r.pick(&[64usize, 64, 64, 254, 255, 256, 257, 300, 1000, 70_000])),
        6 => {
            // total length around the 255 limit: k labels of 49 octets (50 with length octet) + tail
            let mut v: Vec<String> = (0..5).map(|_| "y".repeat(49)).collect();
            v.push("z".repeat(r.range(1, 4)));
            let mut s = v.join(".");
            if r.chance(1, 2) {
                s.push('.');
            }
            s
        }
        7 => format!("caf\u{e9}.{}", r.pick(&NAME_LABELS)),
        8 => format!("{}\u{a0}x", r.pick(&NAME_LABELS)),
        9 => "\u{2003}".to_string(),
        _ => {
            let k = r.range(1, 4);
            let mut s = (0..k).map(|_| r.pick(&NAME_LABELS).to_string()).collect::<Vec<_>>().join(".");
            match r.below(8) {
                0 => s.push('.'),
                1 => s = s.to_ascii_uppercase(),
                2 => s = s.to_ascii_lowercase(),
                _ => {}
            }
            s
        }
    }
}

const WS: [&str; 9] = [" ", " ", "\t", "  ", " \t ", "\x0b", "\x0c", "\r", "\t\r "];

fn gen_comment(r: &mut Rng, clean: bool) -> String {
    if clean {
        return r.pick(&["#", "# c", "#c", "##", "## x", "# \u{e9}", "#\t1.2.3.4 hidden", "#a#b", "# 9.9.9.9 a"]).to_string();
    }
    r.pick(&["#", "# c", "#c", "##", "## x", "#\u{e9}", "# \u{e9}", "##\u{e9}", "#\t1.2.3.4 hidden", "#a#b", "# 9.9.9.9 a"])
        .to_string()
}

fn gen_line(r: &mut Rng, clean: bool) -> String {
    match r.below(40) {
        0 => return String::new(),
        1 => return r.pick(&WS).to_string(),
        2 => return gen_comment(r, clean),
        3 => return format!("{}{}", r.pick(&WS), gen_comment(r, clean)),
        4 => return gen_addr_text(r, clean),                                   // address only
        5 => return format!("{}{}", gen_addr_text(r, clean), r.pick(&WS)),    // address + blank
        6 => return format!("{}{}", gen_addr_text(r, clean), gen_comment(r, clean)), // address + adjacent comment
        7 if !clean => {
            // raw fuzz over the state machine's alphabet
            let n = r.range(0, 14);
            let alphabet = ['1', '.', ':', ' ', '#', '%', 'a', '\t', '\r', '\u{e9}', '2', 'f', '\x0b'];
            return (0..n).map(|_| *r.pick(&alphabet)).collect();
        }
        _ => {}
    }
    let mut s = String::new();
    if r.chance(1, 6) {
        s.push_str(r.pick(&WS));
    }
    s.push_str(&gen_addr_text(r, clean));
    // comment after the address field
    match r.below(30) {
        0 => {
            s.push_str(&gen_comment(r, clean));
        }
        1 => {
            s.push_str(r.pick(&WS));
            s.push_str(&gen_comment(r, clean));
        }
        _ => {}
    }
    let k = r.range(1, 4);
    for i in 0..k {
        s.push_str(r.pick(&WS));
        s.push_str(&gen_name_text(r, clean));
        // comment directly after / a blank after any name
        if r.chance(1, 8) {
            if r.chance(1, 2) {
                s.push_str(r.pick(&WS));
            }
            s.push_str(&gen_comment(r, clean));
            if r.chance(1, 2) {
                // text after the comment must stay ignored
                s.push_str(r.pick(&WS));
                s.push_str(&gen_name_text(r, clean));
            }
        }
        let _ = i;
    }
    if r.chance(1, 5) {
        s.push_str(r.pick(&WS));
    }
    s
}

pub fn gen_file(r: &mut Rng) -> String {
    let n = r.range(0, 7);
    // most files are made of valid constructs only, so that multi-line semantics is exercised;
    // the others have one bad line among valid ones, or are bad throughout
    let mode = r.below(10);
    let bad_line = r.below(n.max(1));
    let mut s = String::new();
    // a pool of previously used lines so that duplicates and conflicts happen
    let mut lines: Vec<String> = Vec::new();
    for i in 0..n {
        let clean = mode < 6 || (mode < 9 && i != bad_line);
        let line = if !lines.is_empty() && r.chance(1, 6) { r.pick(&lines).clone() } else { gen_line(r, clean) };
        s.push_str(&line);
        lines.push(line);
        let last = i + 1 == n;
        if !last || r.chance(2, 3) {
            s.push_str(match r.below(12) {
                0 | 1 => "\r\n",
                2 => "\r\r\n",
                3 => "\n\n",
                _ => "\n",
            });
        } else if r.chance(1, 4) {
            s.push('\r'); // lone CR at the very end: not a line ending
        }
    }
    s
}

// ---------------------------------------------------------------------------------------------
// generators: hosts data

fn lbl(b: &[u8]) -> Label {
    Label::try_from(b).unwrap()
}

const DATA_LABELS: [&[u8]; 8] = [b"a", b"b", b"www", b"x1", b"example", b"com", b"a-b", b"p%q"];
const ODD_LABELS: [&[u8]; 8] = [b"a b", b"a#b", b"a.b", b"\xe9", b"a\tb", b"#", b"\r", b"\x80\xff"];

fn gen_data_name(r: &mut Rng, odd: bool) -> DomainName {
    if r.chance(1, 30) {
        return DomainName::root_domain();
    }
    let k = r.range(1, 3);
    let mut ls: Vec<Label> = (0..k)
        .map(|_| if odd && r.chance(1, 3) { lbl(r.pick(&ODD_LABELS)) } else { lbl(r.pick(&DATA_LABELS)) })
        .collect();
    if r.chance(1, 40) {
        ls.insert(0, lbl(&[b'x'; 63]));
    }
    ls.push(Label::new());
    DomainName::from_labels(ls).unwrap()
}

fn gen_hosts(r: &mut Rng, odd: bool) -> Hosts {
    let mut h = Hosts::new();
    for _ in 0..r.range(0, 5) {
        h.v4.insert(gen_data_name(r, odd), gen_v4(r));
    }
    for _ in 0..r.range(0, 5) {
        h.v6.insert(gen_data_name(r, odd), gen_v6(r));
    }
    h
}

// ---------------------------------------------------------------------------------------------
// cases

fn case_roundtrip(h: &Hosts, out: &mut Out) {
    let res = catch_unwind(AssertUnwindSafe(|| {
        let text = h.serialise();
        let back = Hosts::deserialise(&text);
        (text, back)
    }));
    let text = match res {
        Err(_) => "panic".to_string(),
        Ok((text, Ok(b))) => format!("{} ok {}", c::hex(text.as_bytes()), hosts_dump(&b)),
        Ok((text, Err(e))) => format!("{} err {}", c::hex(text.as_bytes()), herr_text(&e)),
    };
    out.case(&["hosts.roundtrip", &hosts_dump(h)], &text);
}

fn try_from_text(r: Result<Hosts, TryFromZoneError>) -> String {
    match r {
        Ok(h) => format!("ok {}", hosts_dump(&h)),
        Err(TryFromZoneError::HasWildcardRecords) => "err HasWildcardRecords".to_string(),
        Err(TryFromZoneError::HasRecordTypesOtherThanA) => "err HasRecordTypesOtherThanA".to_string(),
    }
}

fn zone_records_sorted(z: &Zone) -> String {
    let mut rrs = Vec::new();
    for (name, zrs) in z.all_records() {
        for zr in zrs {
            rrs.push(zr.to_rr(name));
        }
    }
    c::rrs_sorted(&rrs)
}

fn sorted_keys<V>(m: &HashMap<DomainName, V>) -> Vec<DomainName> {
    let mut ks: Vec<(String, DomainName)> = m.keys().map(|k| (c::name(k), k.clone())).collect();
    ks.sort_by(|a, b| a.0.cmp(&b.0));
    ks.into_iter().map(|x| x.1).collect()
}

fn case_tozone(h: &Hosts, out: &mut Out) {
    let res = catch_unwind(AssertUnwindSafe(|| {
        let zone = Zone::from(h.clone());
        let z = zone_records_sorted(&zone);
        let mut rs = Vec::new();
        for n in sorted_keys(&h.v4) {
            let qt = QueryType::Record(RecordType::A);
            rs.push(super::zone::zone_result_text(qt, &zone.resolve(&n, qt)));
        }
        for n in sorted_keys(&h.v6) {
            let qt = QueryType::Record(RecordType::AAAA);
            rs.push(super::zone::zone_result_text(qt, &zone.resolve(&n, qt)));
        }
        let t = try_from_text(Hosts::try_from(zone));
        format!("Z:{}!T:{}!R:{}", z, t, rs.join("^"))
    }));
    let text = res.unwrap_or_else(|_| "panic".to_string());
    out.case(&["hosts.tozone", &hosts_dump(h)], &text);
}

fn case_merge(a: &Hosts, b: &Hosts, out: &mut Out) {
    let res = catch_unwind(AssertUnwindSafe(|| {
        let mut m = a.clone();
        m.merge(b.clone());
        hosts_dump(&m)
    }));
    let text = res.unwrap_or_else(|_| "panic".to_string());
    out.case(&["hosts.merge", &hosts_dump(a), &hosts_dump(b)], &text);
}

fn case_lossy(r: &mut Rng, out: &mut Out) {
    let gz = super::zone::gen_zone(r, None, 8);
    let res = catch_unwind(AssertUnwindSafe(|| {
        let l = Hosts::from_zone_lossy(&gz.zone);
        let t = try_from_text(Hosts::try_from(gz.zone.clone()));
        format!("L:{}!T:{}", hosts_dump(&l), t)
    }));
    let text = res.unwrap_or_else(|_| "panic".to_string());
    out.case(&["hosts.lossy", &gz.spec], &text);
}

pub fn run(r: &mut Rng, n: usize, out: &mut Out) {
    // fixed regression inputs first (the clause a fixed defect broke, and the edges of the reader)
    let fixed: [&str; 24] = [
        "1.2.3.4 foo#bar",
        "1.2.3.4 foo #bar",
        "1.2.3.4#c foo",
        "1.2.3.4 foo#",
        "# only",
        "1.2.3.4",
        "1.2.3.4 ",
        "garbage",
        "garbage ",
        "garbage#c",
        "fe80::1%lo0 localhost",
        "zzz%lo0 localhost",
        "1.2.3.4 a\n1.2.3.5 a\n::1 a\n::2 A.",
        "1.2.3.4 a\r\n::1 b\r",
        "1.2.3.4\ta\x0bb\x0cc\rd",
        "#\u{e9}",
        "# \u{e9}",
        "##\u{e9}",
        "1.2.3.4 a #\u{e9}",
        "1.2.3.4 caf\u{e9}",
        "1.2.3.4%\u{e9} x",
        "\u{e9}",
        "::ffff:1.2.3.4 m\n1:2:3:4:5:6:1.2.3.4 n",
        "1.2.3.4 a.b.c. A.B.C",
    ];
    for f in fixed {
        if out.count >= n {
            return;
        }
        out.case(&["hosts.parse", &c::hex(f.as_bytes())], &parse_text(f));
    }
    while out.count < n {
        let text = gen_file(r);
        out.case(&["hosts.parse", &c::hex(text.as_bytes())], &parse_text(&text));
        match r.below(10) {
            0 | 1 => {
                // data read from a generated text, or built directly
                let h = match Hosts::deserialise(&text) {
                    Ok(h) if r.chance(1, 2) => h,
                    _ => gen_hosts(r, false),
                };
                case_roundtrip(&h, out);
                case_tozone(&h, out);
            }
            2 => {
                let h = gen_hosts(r, true);
                case_roundtrip(&h, out);
                case_tozone(&h, out);
            }
            3 => {
                let a = gen_hosts(r, false);
                let b = gen_hosts(r, false);
                case_merge(&a, &b, out);
            }
            4 => case_lossy(r, out),
            _ => {}
        }
    }
}

// ---------------------------------------------------------------------------------------------
// stream `ip`: the std parsers / printers against the Lean model of them

fn case_ip_parse(s: &str, out: &mut Out) {
    let res = catch_unwind(AssertUnwindSafe(|| IpAddr::from_str(s).ok()));
    let text = match res {
        Ok(x) => ip_text(&x),
        Err(_) => "panic".to_string(),
    };
    out.case(&["ip.parse", &c::hex(s.as_bytes())], &text);
}

fn case_ip_show(a: IpAddr, out: &mut Out) {
    let s = a.to_string();
    out.case(&["ip.show", &ip_text(&Some(a))], &c::hex(s.as_bytes()));
}

pub fn run_ip(r: &mut Rng, n: usize, out: &mut Out) {
    // exhaustive part: all 256 zero-group patterns x 4 value sets: print, parse the print,
    // parse one alternative valid rendering
    for values in 0..4u8 {
        for mask in 0..=255u8 {
            if out.count >= n {
                return;
            }
            let a = Ipv6Addr::from(v6_with_mask(r, mask, values));
            case_ip_show(IpAddr::V6(a), out);
            case_ip_parse(&a.to_string(), out);
            let alt = v6_text_valid(r, &a);
            case_ip_parse(&alt, out);
        }
    }
    // ipv4-mapped / compatible boundary, v4 boundaries
    for x in [0u32, 1, 255, 256, 65535, 65536, 0x0102_0304, 0x7f00_0001, 0xffff_ffff, 0xff00_00ff] {
        let a4 = Ipv4Addr::from(x);
        case_ip_show(IpAddr::V4(a4), out);
        case_ip_parse(&a4.to_string(), out);
        for g5 in [0u16, 0xffff, 0xfffe, 1] {
            let a6 = Ipv6Addr::new(0, 0, 0, 0, 0, g5, (x >> 16) as u16, x as u16);
            case_ip_show(IpAddr::V6(a6), out);
            case_ip_parse(&a6.to_string(), out);
        }
    }
    for s in BAD_ADDRS.iter().chain(GOOD_ODD_ADDRS.iter()) {
        case_ip_parse(s, out);
    }
    while out.count < n {
        match r.below(10) {
            0 => {
                let a = gen_v4(r);
                case_ip_show(IpAddr::V4(a), out);
                case_ip_parse(&a.to_string(), out);
            }
            1 | 2 => {
                let a = gen_v6(r);
                case_ip_show(IpAddr::V6(a), out);
                case_ip_parse(&a.to_string(), out);
            }
            3 | 4 => {
                let a = gen_v6(r);
                let t = v6_text_valid(r, &a);
                case_ip_parse(&t, out);
            }
            5 | 6 => {
                let base = match r.below(3) {
                    0 => gen_v4(r).to_string(),
                    1 => gen_v6(r).to_string(),
                    _ => {
                        let a = gen_v6(r);
                        v6_text_valid(r, &a)
                    }
                };
                let mut t = mutate_ip_text(r, &base);
                if r.chance(1, 4) {
                    t = mutate_ip_text(r, &t);
                }
                case_ip_parse(&t, out);
            }
            _ => {
                let t = random_ip_string(r);
                case_ip_parse(&t, out);
            }
        }
    }
}
