//! C09 / C19 streams: the real `resolved` binary, built from the working tree, driven over its
//! sockets (UDP and TCP), its SIGUSR1 reload and its log.
use std::io::{BufRead, BufReader, Read, Write};
use std::net::{SocketAddr, TcpListener, TcpStream, UdpSocket};
use std::path::{Path, PathBuf};
use std::process::{Child, Command, Stdio};
use std::sync::{Arc, Mutex};
use std::time::{Duration, Instant};

use dns_types::protocol::types::*;
use dns_types::zones::types::*;

use crate::codec as c;
use crate::gen;
use crate::rng::Rng;
use crate::streams::zone::{gen_zone, query_name, GenZone, QTYPES};
use crate::Out;

const BIN: &str = "/verif/build/repo-target/debug/resolved";
const BIN_RELEASE: &str = "/verif/build/repo-target/release/resolved";
/// which build of the server the streams start (the deep-message stream needs the release profile, the
/// one the stack-depth clause of C03 is about)
static USE_RELEASE: std::sync::atomic::AtomicBool = std::sync::atomic::AtomicBool::new(false);
/// when non-zero the server is started under `ulimit -n <value>` (descriptor exhaustion scenarios)
static NOFILE_LIMIT: std::sync::atomic::AtomicUsize = std::sync::atomic::AtomicUsize::new(0);

/// ports private to this harness process (several shards run concurrently): a block of 16 ports
/// derived from the pid, walked round-robin, each checked to be free for UDP and TCP
fn free_port() -> u16 {
    use std::sync::atomic::{AtomicU32, Ordering};
    static NEXT: AtomicU32 = AtomicU32::new(0);
    // below the ephemeral range (32768..) so that client sockets never take these ports
    let base = 12000 + (std::process::id() % 1200) * 16;
    for _ in 0..64 {
        let k = NEXT.fetch_add(1, Ordering::SeqCst) % 16;
        let p = (base + k) as u16;
        if TcpListener::bind(("127.0.0.1", p)).is_ok() && UdpSocket::bind(("127.0.0.1", p)).is_ok() {
            return p;
        }
    }
    panic!("no free port");
}

pub struct Server {
    child: Mutex<Child>,
    pub addr: SocketAddr,
    pub log: Arc<Mutex<Vec<String>>>,
}

impl Server {
    pub fn start(args: &[String]) -> Option<Server> {
        for _ in 0..4 {
            if let Some(s) = Self::start_once(args) {
                return Some(s);
            }
        }
        None
    }

    fn start_once(args: &[String]) -> Option<Server> {
        let port = free_port();
        let mport = free_port();
        let addr: SocketAddr = format!("127.0.0.1:{port}").parse().unwrap();
        let bin = if USE_RELEASE.load(std::sync::atomic::Ordering::SeqCst) { BIN_RELEASE } else { BIN };
        let nofile = NOFILE_LIMIT.load(std::sync::atomic::Ordering::SeqCst);
        let mut cmd = if nofile > 0 {
            let mut c = Command::new("sh");
            c.arg("-c").arg(format!("ulimit -n {nofile} && exec {bin} \"$@\"")).arg("sh");
            c
        } else {
            Command::new(bin)
        };
        cmd.arg("-i").arg(addr.to_string()).arg("--metrics-address").arg(format!("127.0.0.1:{mport}"));
        cmd.args(args);
        cmd.env("RUST_LOG", "info").env("RUST_LOG_FORMAT", "no-ansi,no-time");
        cmd.stdout(Stdio::piped()).stderr(Stdio::null()).stdin(Stdio::null());
        let mut child = cmd.spawn().ok()?;
        let log = Arc::new(Mutex::new(Vec::new()));
        let so = child.stdout.take().unwrap();
        {
            let log = log.clone();
            std::thread::spawn(move || {
                for line in BufReader::new(so).lines().map_while(Result::ok) {
                    log.lock().unwrap().push(line);
                }
            });
        }
        let s = Server { child: Mutex::new(child), addr, log };
        // wait until it answers
        let probe = probe_query(0xBEEF);
        let start = Instant::now();
        while start.elapsed() < Duration::from_secs(20) {
            if s.udp_once(&probe, Duration::from_millis(200)).is_some() {
                // make sure it is OUR child that answered (it would have exited on a bind failure)
                // … and wait for the metrics endpoint, the last thing the server binds: a bind
                // failure there makes it exit
                let maddr: SocketAddr = format!("127.0.0.1:{mport}").parse().unwrap();
                let t = Instant::now();
                while t.elapsed() < Duration::from_secs(5) {
                    if !s.alive() {
                        return None;
                    }
                    if TcpStream::connect_timeout(&maddr, Duration::from_millis(100)).is_ok() {
                        return Some(s);
                    }
                    std::thread::sleep(Duration::from_millis(5));
                }
                return None;
            }
            if let Ok(Some(_)) = s.child_try_wait() {
                return None;
            }
        }
        None
    }

    fn child_try_wait(&self) -> std::io::Result<Option<std::process::ExitStatus>> {
        self.child.lock().unwrap().try_wait()
    }

    pub fn alive(&self) -> bool {
        matches!(self.child_try_wait(), Ok(None))
    }

    /// send one datagram from a fresh socket, wait for one reply
    pub fn udp_once(&self, bytes: &[u8], wait: Duration) -> Option<Vec<u8>> {
        let sock = UdpSocket::bind("127.0.0.1:0").ok()?;
        sock.connect(self.addr).ok()?;
        sock.send(bytes).ok()?;
        sock.set_read_timeout(Some(wait)).ok()?;
        let mut buf = vec![0u8; 4096];
        match sock.recv(&mut buf) {
            Ok(n) => Some(buf[..n].to_vec()),
            Err(_) => None,
        }
    }

    /// send `bytes`, then a sentinel query from the same socket; the reply to `bytes` (if any) is
    /// whatever arrives that is not the sentinel's reply.  Returns all non-sentinel datagrams.
    pub fn udp_with_sentinel(&self, bytes: &[u8]) -> Option<Vec<Vec<u8>>> {
        let sock = UdpSocket::bind("127.0.0.1:0").ok()?;
        sock.connect(self.addr).ok()?;
        sock.send(bytes).ok()?;
        let sid: u16 = 0x5E17;
        let sentinel = probe_query(sid);
        let mut replies = Vec::new();
        let mut got_sentinel = false;
        let start = Instant::now();
        let mut sent_sentinel_at = None;
        let mut buf = vec![0u8; 4096];
        loop {
            if sent_sentinel_at.is_none() {
                // give the test packet a head start so that its reply (if any) comes first
                std::thread::sleep(Duration::from_millis(2));
                sock.send(&sentinel).ok()?;
                sent_sentinel_at = Some(Instant::now());
            }
            sock.set_read_timeout(Some(Duration::from_millis(if got_sentinel { 40 } else { 1500 }))).ok()?;
            match sock.recv(&mut buf) {
                Ok(n) => {
                    let d = buf[..n].to_vec();
                    if n >= 2 && d[0] == (sid >> 8) as u8 && d[1] == sid as u8 && !got_sentinel && is_probe_reply(&d) {
                        got_sentinel = true;
                    } else {
                        replies.push(d);
                    }
                }
                Err(_) => {
                    if got_sentinel {
                        return Some(replies);
                    }
                    if start.elapsed() > Duration::from_secs(5) {
                        return None; // the server stopped answering
                    }
                }
            }
        }
    }

    /// one TCP connection: write `wire` (already framed or deliberately mis-framed), optionally
    /// half-close, read everything the server sends back
    pub fn tcp_once(&self, wire: &[u8], shutdown_write: bool) -> Option<Vec<u8>> {
        let mut s = TcpStream::connect_timeout(&self.addr, Duration::from_secs(2)).ok()?;
        s.set_read_timeout(Some(Duration::from_millis(1500))).ok()?;
        s.write_all(wire).ok()?;
        if shutdown_write {
            let _ = s.shutdown(std::net::Shutdown::Write);
        }
        let mut out = Vec::new();
        let mut buf = [0u8; 65536];
        loop {
            match s.read(&mut buf) {
                Ok(0) => break,
                Ok(n) => {
                    out.extend_from_slice(&buf[..n]);
                    if out.len() >= 2 {
                        let want = u16::from_be_bytes([out[0], out[1]]) as usize + 2;
                        if out.len() >= want {
                            break;
                        }
                    }
                }
                Err(_) => break,
            }
        }
        Some(out)
    }

    pub fn sigusr1(&self) {
        let _ = Command::new("kill").arg("-USR1").arg(self.child.lock().unwrap().id().to_string()).status();
    }

    /// wait for the next "done - success|failure" line after position `from` in the log
    pub fn wait_reload(&self, from: usize) -> Option<bool> {
        let start = Instant::now();
        while start.elapsed() < Duration::from_secs(10) {
            {
                let l = self.log.lock().unwrap();
                for line in l.iter().skip(from) {
                    if line.contains("done - success") {
                        return Some(true);
                    }
                    if line.contains("done - failure") {
                        return Some(false);
                    }
                }
            }
            std::thread::sleep(Duration::from_millis(5));
        }
        None
    }

    pub fn log_len(&self) -> usize {
        self.log.lock().unwrap().len()
    }
}

impl Drop for Server {
    fn drop(&mut self) {
        let mut c = self.child.lock().unwrap();
        let _ = c.kill();
        let _ = c.wait();
    }
}

/// the sentinel / probe: a standard query for `probe.invalid. A`
fn probe_query(id: u16) -> Vec<u8> {
    let q = Question {
        name: DomainName::from_dotted_string("probe.invalid.").unwrap(),
        qtype: QueryType::Record(RecordType::A),
        qclass: QueryClass::Record(RecordClass::IN),
    };
    Message::from_question(id, q).to_octets().unwrap().to_vec()
}

fn is_probe_reply(d: &[u8]) -> bool {
    // QR set and the question is probe.invalid.
    d.len() > 12 && d[2] & 0x80 != 0 && d.windows(6).any(|w| w == b"\x05probe")
}

fn scratch(tag: &str) -> PathBuf {
    let p = PathBuf::from(format!("/verif/build/scratch/{tag}-{}", std::process::id()));
    let _ = std::fs::remove_dir_all(&p);
    std::fs::create_dir_all(&p).unwrap();
    p
}

/// zones whose serialised text reads back to the same zone (so that the binary and the model see
/// the same configuration)
fn stable_zone(r: &mut Rng, apex: Option<DomainName>, max_ops: usize) -> (GenZone, String) {
    loop {
        let gz = gen_zone(r, apex.clone(), max_ops);
        let text = gz.zone.serialise();
        if let Ok(z2) = Zone::deserialise(&text) {
            if z2 == gz.zone {
                return (gz, text);
            }
        }
    }
}

fn query_bytes(r: &mut Rng, owners: &[DomainName]) -> Vec<u8> {
    let root = DomainName::root_domain();
    let mk_q = |r: &mut Rng| Question {
        name: query_name(r, owners, &root),
        qtype: QueryType::from(if r.chance(1, 12) { r.next_u64() as u16 } else { *r.pick(&QTYPES) }),
        qclass: QueryClass::from(if r.chance(1, 10) { *r.pick(&[0u16, 2, 3, 254, 255, 1000]) } else { 1 }),
    };
    match r.below(12) {
        0 => {
            // random bytes
            let n = r.range(0, 40);
            r.bytes(n)
        }
        1 => {
            // mutated valid query
            let mut b = Message::from_question(r.next_u64() as u16, mk_q(r)).to_octets().unwrap().to_vec();
            let k = r.below(b.len());
            b[k] = r.byte();
            b
        }
        2 => {
            // truncated valid query
            let b = Message::from_question(r.next_u64() as u16, mk_q(r)).to_octets().unwrap().to_vec();
            let k = r.below(b.len() + 1);
            b[..k].to_vec()
        }
        _ => {
            let mut m = Message::from_question(r.next_u64() as u16, mk_q(r));
            m.header.is_response = r.chance(1, 8);
            m.header.opcode = Opcode::from(if r.chance(1, 5) { r.below(16) as u8 } else { 0 });
            m.header.is_authoritative = r.chance(1, 4);
            m.header.is_truncated = r.chance(1, 8);
            m.header.recursion_desired = r.chance(1, 2);
            m.header.recursion_available = r.chance(1, 4);
            m.header.rcode = Rcode::from(if r.chance(1, 6) { r.below(16) as u8 } else { 0 });
            match r.below(10) {
                0 => m.questions.clear(),
                1 => {
                    m.questions.push(mk_q(r));
                }
                2 => {
                    m.questions.push(mk_q(r));
                    m.questions.push(mk_q(r));
                }
                _ => {}
            }
            if r.chance(1, 10) {
                let pool = gen::Pool { names: owners.to_vec() };
                m.answers.push(gen::rr(r, &pool, 8));
            }
            m.to_octets().unwrap().to_vec()
        }
    }
}

/// C09: a server in authoritative-only mode over generated zone files; every kind of datagram and
/// TCP message, interleaved; liveness after every batch.
/// a zone whose TXT answers make UDP replies of 500..524 octets: the 512 boundary exactly
fn sweep_zone() -> (Zone, String, Vec<DomainName>) {
    let apex = DomainName::from_dotted_string("sweep.test.").unwrap();
    let soa = SOA {
        mname: DomainName::from_dotted_string("ns.sweep.test.").unwrap(),
        rname: DomainName::from_dotted_string("admin.sweep.test.").unwrap(),
        serial: 1, refresh: 2, retry: 3, expire: 4, minimum: 60,
    };
    let mut spec = format!("{}!{}", c::name(&apex), crate::streams::zone::soa_text(&soa));
    let mut zone = Zone::new(apex, Some(soa));
    let mut names = Vec::new();
    for k in 380usize..=404 {
        let name = DomainName::from_dotted_string(&format!("t{k}.sweep.test.")).unwrap();
        let data = RecordTypeWithData::TXT { octets: bytes::Bytes::from(vec![b'x'; k]) };
        let rr = ResourceRecord { name: name.clone(), rtype_with_data: data.clone(), rclass: RecordClass::IN, ttl: 300 };
        spec.push_str(&format!("!i:{}", c::rr(&rr)));
        zone.insert(&name, data, 300);
        names.push(name);
    }
    (zone, spec, names)
}

/// records that cannot be put on the wire (RDLENGTH needs more than 16 bits) next to the largest one
/// that can: the server must still send exactly one reply to a question about them
fn bigrec_zone() -> (Zone, String, Vec<DomainName>) {
    let apex = DomainName::from_dotted_string("big.test.").unwrap();
    let soa = SOA {
        mname: DomainName::from_dotted_string("ns.big.test.").unwrap(),
        rname: DomainName::from_dotted_string("admin.big.test.").unwrap(),
        serial: 1, refresh: 2, retry: 3, expire: 4, minimum: 60,
    };
    let mut spec = format!("{}!{}", c::name(&apex), crate::streams::zone::soa_text(&soa));
    let mut zone = Zone::new(apex, Some(soa));
    let mut names = Vec::new();
    for k in [65_535usize, 65_536, 66_000] {
        let name = DomainName::from_dotted_string(&format!("t{k}.big.test.")).unwrap();
        let data = RecordTypeWithData::TXT { octets: bytes::Bytes::from(vec![b'x'; k]) };
        let rr = ResourceRecord { name: name.clone(), rtype_with_data: data.clone(), rclass: RecordClass::IN, ttl: 300 };
        spec.push_str(&format!("!i:{}", c::rr(&rr)));
        zone.insert(&name, data, 300);
        names.push(name);
    }
    (zone, spec, names)
}

fn run_bigrec(r: &mut Rng, out: &mut Out) -> usize {
    let dir = scratch("serve-big");
    let (z, spec, names) = bigrec_zone();
    let path = dir.join("big.zone");
    std::fs::write(&path, z.serialise()).unwrap();
    let args: Vec<String> = vec!["--authoritative-only".into(), "-z".into(), path.to_string_lossy().into_owned()];
    let Some(server) = Server::start(&args) else {
        out.case(&["server.start", "auth"], "failed");
        return 1;
    };
    let mut done = 0;
    for name in &names {
        let q = Message::from_question(
            r.next_u64() as u16,
            Question { name: name.clone(), qtype: QueryType::Record(RecordType::TXT), qclass: QueryClass::Record(RecordClass::IN) },
        )
        .to_octets()
        .unwrap()
        .to_vec();
        let text = match server.udp_with_sentinel(&q) {
            None => "server-silent".to_string(),
            Some(replies) if replies.is_empty() => "noreply".to_string(),
            Some(replies) => replies.iter().map(|b| c::hex(b)).collect::<Vec<_>>().join("+"),
        };
        out.case(&["server.udp", "auth", &spec, &c::hex(&q)], &text);
        let mut wire = (q.len() as u16).to_be_bytes().to_vec();
        wire.extend_from_slice(&q);
        let resp = server.tcp_once(&wire, false);
        out.case(&["server.tcp", "auth", &spec, &c::hex(&q)], &resp.map_or("conn-failed".into(), |b| c::hex(&b)));
        done += 2;
    }
    let alive = server.alive() && server.udp_once(&probe_query(7), Duration::from_secs(2)).is_some();
    out.case(&["server.alive", "auth"], if alive { "alive" } else { "dead" });
    drop(server);
    let _ = std::fs::remove_dir_all(&dir);
    done + 1
}

/// descriptor exhaustion: with a low limit on open files, more clients than that connect over TCP and
/// stall; `accept` fails for a while.  Once they are gone the server must accept TCP clients again.
fn run_fd_exhaustion(out: &mut Out) -> usize {
    let dir = scratch("serve-fd");
    std::fs::write(dir.join("z.zone"), "$ORIGIN fd.test.\n@ IN SOA ns admin 1 2 3 4 60\nwww 300 IN A 10.0.0.7\n").unwrap();
    let args: Vec<String> = vec!["--authoritative-only".into(), "-z".into(), dir.join("z.zone").to_string_lossy().into_owned()];
    NOFILE_LIMIT.store(64, std::sync::atomic::Ordering::SeqCst);
    let server = Server::start(&args);
    NOFILE_LIMIT.store(0, std::sync::atomic::Ordering::SeqCst);
    let Some(server) = server else {
        out.case(&["server.start", "fd"], "failed");
        return 1;
    };
    // 100 clients that send three octets and then just sit there
    let mut held = Vec::new();
    for _ in 0..100 {
        if let Ok(mut c) = TcpStream::connect_timeout(&server.addr, Duration::from_millis(300)) {
            let _ = c.write_all(&[0, 30, 0x12]);
            held.push(c);
        }
    }
    std::thread::sleep(Duration::from_millis(300));
    drop(held);
    std::thread::sleep(Duration::from_millis(500));
    // now a well-formed TCP query must be answered (retry for up to 10 s)
    let q = probe_query(0x4242);
    let mut wire = (q.len() as u16).to_be_bytes().to_vec();
    wire.extend_from_slice(&q);
    let start = Instant::now();
    let mut answered = false;
    while start.elapsed() < Duration::from_secs(10) {
        if let Some(b) = server.tcp_once(&wire, false) {
            if b.len() > 4 && b[2] == 0x42 && b[3] == 0x42 {
                answered = true;
                break;
            }
        }
        std::thread::sleep(Duration::from_millis(300));
    }
    let udp = server.udp_once(&probe_query(9), Duration::from_secs(2)).is_some();
    out.case(
        &["server.fd-exhaustion", "64"],
        &format!("tcp-after={} udp={}", if answered { "answered" } else { "refused" }, if udp { "answered" } else { "silent" }),
    );
    drop(server);
    let _ = std::fs::remove_dir_all(&dir);
    1
}

pub fn run_serve(r: &mut Rng, n: usize, out: &mut Out) {
    let mut done = run_bigrec(r, out);
    done += run_fd_exhaustion(out);
    let mut swept = false;
    while done < n {
        let dir = scratch("serve");
        let mut specs = Vec::new();
        let mut owners = Vec::new();
        let mut args: Vec<String> = vec!["--authoritative-only".into()];
        let nz = r.range(1, 3);
        let mut used = Vec::new();
        for i in 0..nz {
            let apex = match i {
                0 => DomainName::from_dotted_string("example.com.").unwrap(),
                1 => DomainName::from_dotted_string("sub.example.com.").unwrap(),
                _ => DomainName::from_dotted_string("lan.").unwrap(),
            };
            if used.contains(&apex) {
                continue;
            }
            used.push(apex.clone());
            let (gz, text) = stable_zone(r, Some(apex), 10);
            if !gz.zone.is_authoritative() {
                continue;
            }
            let path = dir.join(format!("z{i}.zone"));
            std::fs::write(&path, text).unwrap();
            args.push("-z".into());
            args.push(path.to_string_lossy().into_owned());
            specs.push(gz.spec.clone());
            owners.extend(gz.owners.iter().cloned());
        }
        if owners.is_empty() {
            owners.push(DomainName::root_domain());
        }
        let mut sweep_names = Vec::new();
        if !swept {
            swept = true;
            let (z, spec, names) = sweep_zone();
            let path = dir.join("sweep.zone");
            std::fs::write(&path, z.serialise()).unwrap();
            args.push("-z".into());
            args.push(path.to_string_lossy().into_owned());
            specs.push(spec);
            sweep_names = names;
        }
        let Some(server) = Server::start(&args) else {
            out.case(&["server.start", "auth"], "failed");
            done += 1;
            continue;
        };
        let zones = if specs.is_empty() { "-".to_string() } else { specs.join("^") };
        for name in &sweep_names {
            let q = Message::from_question(
                r.next_u64() as u16,
                Question { name: name.clone(), qtype: QueryType::Record(RecordType::TXT), qclass: QueryClass::Record(RecordClass::IN) },
            )
            .to_octets()
            .unwrap()
            .to_vec();
            let text = match server.udp_with_sentinel(&q) {
                None => "server-silent".to_string(),
                Some(replies) if replies.is_empty() => "noreply".to_string(),
                Some(replies) => replies.iter().map(|b| c::hex(b)).collect::<Vec<_>>().join("+"),
            };
            out.case(&["server.udp", "auth", &zones, &c::hex(&q)], &text);
            done += 1;
        }
        let batch = r.range(20, 60).min(n.saturating_sub(done)).max(1);
        for _ in 0..batch {
            let q = query_bytes(r, &owners);
            match r.below(10) {
                0 | 1 => {
                    // TCP, well framed - half of the time while ANOTHER client's connection is stalled in the
                    // middle of its message (the prefix and a few octets sent, nothing more, not closed):
                    // clients are served independently of each other
                    let stalled = if r.chance(1, 2) {
                        TcpStream::connect_timeout(&server.addr, Duration::from_secs(2)).ok().map(|mut a| {
                            let _ = a.write_all(&[0, 40, 0x12, 0x34, 0x01]);
                            a
                        })
                    } else {
                        None
                    };
                    let mut wire = (q.len() as u16).to_be_bytes().to_vec();
                    wire.extend_from_slice(&q);
                    let resp = server.tcp_once(&wire, false);
                    drop(stalled);
                    out.case(&["server.tcp", "auth", &zones, &c::hex(&q)], &resp.map_or("conn-failed".into(), |b| c::hex(&b)));
                }
                2 if r.chance(1, 3) => {
                    // the prefix announces LESS than is sent: the message is the announced prefix, whatever
                    // else is queued on the connection.  Also with a prefix above 4096 (a padded query)
                    let (sent, announce) = if r.chance(1, 2) && q.len() > 14 {
                        (q.clone(), r.range(2, q.len() - 1))
                    } else {
                        // a valid query padded with an additional TXT record of 6000 octets; announce 5000
                        let mut big = q.clone();
                        if big.len() >= 12 {
                            let ar = u16::from_be_bytes([big[10], big[11]]).wrapping_add(1);
                            big[10..12].copy_from_slice(&ar.to_be_bytes());
                            big.extend_from_slice(&[0, 0, 16, 0, 1, 0, 0, 0, 9]);
                            big.extend_from_slice(&(6000u16).to_be_bytes());
                            big.extend(std::iter::repeat(0u8).take(6000));
                        }
                        (big, 5000usize)
                    };
                    let mut wire = (announce as u16).to_be_bytes().to_vec();
                    wire.extend_from_slice(&sent);
                    let resp = server.tcp_once(&wire, true);
                    out.case(
                        &["server.tcp-short", "auth", &zones, &c::hex(&sent), &announce.to_string()],
                        &resp.map_or("conn-failed".into(), |b| c::hex(&b)),
                    );
                }
                2 => {
                    // TCP short read: prefix announces more than is sent, then FIN
                    let announce = q.len() + r.range(1, 20);
                    let mut wire = (announce as u16).to_be_bytes().to_vec();
                    wire.extend_from_slice(&q);
                    let resp = server.tcp_once(&wire, true);
                    out.case(
                        &["server.tcp-short", "auth", &zones, &c::hex(&q), &announce.to_string()],
                        &resp.map_or("conn-failed".into(), |b| c::hex(&b)),
                    );
                }
                _ => {
                    let q = if q.len() > 512 { q[..512].to_vec() } else { q };
                    let text = match server.udp_with_sentinel(&q) {
                        None => "server-silent".to_string(),
                        Some(replies) => {
                            if replies.is_empty() {
                                "noreply".to_string()
                            } else {
                                replies.iter().map(|b| c::hex(b)).collect::<Vec<_>>().join("+")
                            }
                        }
                    };
                    out.case(&["server.udp", "auth", &zones, &c::hex(&q)], &text);
                }
            }
            done += 1;
        }
        // a burst: many datagrams back to back from one socket, then the replies are collected - every
        // query gets exactly one (no reply is dropped because many are pending at once)
        {
            let nburst = 120usize;
            if let Ok(sock) = UdpSocket::bind("127.0.0.1:0") {
                let _ = sock.connect(server.addr);
                let _ = sock.set_read_timeout(Some(Duration::from_millis(400)));
                for i in 0..nburst {
                    let _ = sock.send(&probe_query(20_000 + i as u16));
                }
                let mut seen = std::collections::HashMap::<u16, usize>::new();
                let mut buf = [0u8; 2048];
                let start = Instant::now();
                while seen.values().sum::<usize>() < nburst && start.elapsed() < Duration::from_secs(5) {
                    match sock.recv(&mut buf) {
                        Ok(n) if n >= 2 => *seen.entry(u16::from_be_bytes([buf[0], buf[1]])).or_insert(0) += 1,
                        Ok(_) => {}
                        Err(_) => break,
                    }
                }
                let dup = seen.values().filter(|&&c| c > 1).count();
                out.case(&["server.burst", &nburst.to_string()], &format!("replies={} dup={}", seen.len(), dup));
                done += 1;
            }
        }
        // liveness after the batch
        let alive = server.alive() && server.udp_once(&probe_query(7), Duration::from_secs(2)).is_some();
        out.case(&["server.alive", "auth"], if alive { "alive" } else { "dead" });
        drop(server);
        let _ = std::fs::remove_dir_all(&dir);
    }
}

// ---------------------------------------------------------------------------------------------
// C19: reload

#[derive(Clone)]
enum FileState {
    Zone { spec: String, text: String },
    Bad { text: Vec<u8> },
}

fn file_state_text(name: &str, f: &FileState) -> String {
    match f {
        FileState::Zone { spec, .. } => format!("{name}={spec}"),
        FileState::Bad { .. } => format!("{name}=BAD"),
    }
}

fn write_file(dir: &Path, name: &str, f: &FileState) {
    // replace whatever is there (also a dangling symlink)
    let _ = std::fs::remove_file(dir.join(name));
    match f {
        FileState::Zone { text, .. } => std::fs::write(dir.join(name), text).unwrap(),
        FileState::Bad { text } => std::fs::write(dir.join(name), text).unwrap(),
    }
}

fn ask(server: &Server, q: &Question, id: u16) -> String {
    let bytes = Message::from_question(id, q.clone()).to_octets().unwrap().to_vec();
    match server.udp_once(&bytes, Duration::from_secs(3)) {
        None => "noreply".into(),
        Some(b) => c::hex(&b),
    }
}

/// one reload history against one server process
pub fn run_reload(r: &mut Rng, n: usize, out: &mut Out) {
    for _ in 0..n {
        let dir = scratch("reload");
        let zdir = dir.join("zones");
        std::fs::create_dir_all(&zdir).unwrap();
        let apexes = ["example.com.", "example.com.", "lan.", "sub.example.com."];
        let mut files: Vec<(String, FileState)> = Vec::new();
        let mut owners: Vec<DomainName> = vec![DomainName::root_domain()];
        let mut new_zone = |r: &mut Rng, owners: &mut Vec<DomainName>| -> FileState {
            let apex = DomainName::from_dotted_string(*r.pick(&apexes)).unwrap();
            let (gz, text) = stable_zone(r, Some(apex), 6);
            owners.extend(gz.owners.iter().cloned());
            FileState::Zone { spec: gz.spec, text }
        };
        for i in 0..r.range(1, 3) {
            let f = new_zone(r, &mut owners);
            files.push((format!("{}{}.zone", (b'a' + r.below(20) as u8) as char, i), f));
        }
        for (name, f) in &files {
            write_file(&zdir, name, f);
        }
        let args: Vec<String> = vec!["--authoritative-only".into(), "-Z".into(), zdir.to_string_lossy().into_owned()];
        let Some(server) = Server::start(&args) else {
            out.case(&["server.start", "reload"], "failed");
            continue;
        };
        // history: steps of (edits, SIGUSR1, verdict, queries)
        let mut steps_in: Vec<String> = Vec::new();
        let mut steps_out: Vec<String> = Vec::new();
        let show_files = |files: &Vec<(String, FileState)>| {
            let mut v: Vec<String> = files.iter().map(|(n, f)| file_state_text(n, f)).collect();
            v.sort();
            if v.is_empty() { "-".to_string() } else { v.join("&") }
        };
        let mut qid = 100u16;
        let mut questions = |r: &mut Rng, owners: &Vec<DomainName>, k: usize| -> Vec<Question> {
            (0..k)
                .map(|_| Question {
                    name: query_name(r, owners, &DomainName::root_domain()),
                    qtype: QueryType::from(*r.pick(&[1u16, 1, 2, 5, 16, 6, 255])),
                    qclass: QueryClass::Record(RecordClass::IN),
                })
                .collect()
        };
        // step 0: initial configuration, queries only
        let qs = questions(r, &owners, 4);
        let answers: Vec<String> = qs.iter().map(|q| { qid += 1; format!("{}>{}", qid, ask(&server, q, qid)) }).collect();
        steps_in.push(format!("init@{}@{}", show_files(&files), qs.iter().map(c::question).collect::<Vec<_>>().join("+")));
        steps_out.push(format!("-@{}", answers.join("+")));
        let mut fresh = 100usize;
        for _ in 0..r.range(1, 5) {
            // edits
            for _ in 0..r.range(1, 2) {
                match r.below(6) {
                    0 | 1 => {
                        let f = new_zone(r, &mut owners);
                        fresh += 1; // never reuse a file name inside one history
                        let name = format!("{}n{}.zone", (b'a' + r.below(20) as u8) as char, fresh);
                        write_file(&zdir, &name, &f);
                        files.push((name, f));
                    }
                    2 if !files.is_empty() => {
                        let i = r.below(files.len());
                        let (name, _) = files.remove(i);
                        let _ = std::fs::remove_file(zdir.join(name));
                    }
                    3 if !files.is_empty() => {
                        let i = r.below(files.len());
                        let f = new_zone(r, &mut owners);
                        write_file(&zdir, &files[i].0, &f);
                        files[i].1 = f;
                    }
                    4 if !files.is_empty() && r.chance(1, 3) => {
                        // an unreadable entry: a dangling symbolic link in the directory
                        fresh += 1;
                        let name = format!("{}l{}.zone", (b'a' + r.below(20) as u8) as char, fresh);
                        let _ = std::os::unix::fs::symlink(zdir.join("does-not-exist"), zdir.join(&name));
                        files.push((name, FileState::Bad { text: Vec::new() }));
                    }
                    4 if !files.is_empty() => {
                        // corrupt: unparsable or unreadable (invalid UTF-8)
                        let i = r.below(files.len());
                        let text: Vec<u8> = match r.below(3) {
                            0 => b"$INCLUDE other.zone\n".to_vec(),
                            1 => vec![0xff, 0xfe, b'\n'],
                            _ => b"example.com. 300 IN A not-an-address\n".to_vec(),
                        };
                        let f = FileState::Bad { text };
                        write_file(&zdir, &files[i].0, &f);
                        files[i].1 = f;
                    }
                    _ => {
                        // repair every bad file
                        for i in 0..files.len() {
                            if matches!(files[i].1, FileState::Bad { .. }) {
                                let f = new_zone(r, &mut owners);
                                write_file(&zdir, &files[i].0, &f);
                                files[i].1 = f;
                            }
                        }
                    }
                }
            }
            let from = server.log_len();
            server.sigusr1();
            // queries racing with the reload
            let racing = questions(r, &owners, 2);
            let race_answers: Vec<String> = racing.iter().map(|q| { qid += 1; format!("{}>{}", qid, ask(&server, q, qid)) }).collect();
            let verdict = match server.wait_reload(from) {
                Some(true) => "success",
                Some(false) => "failure",
                None => "no-verdict",
            };
            let qs = questions(r, &owners, 4);
            let answers: Vec<String> = qs.iter().map(|q| { qid += 1; format!("{}>{}", qid, ask(&server, q, qid)) }).collect();
            steps_in.push(format!(
                "reload@{}@{}@{}",
                show_files(&files),
                racing.iter().map(c::question).collect::<Vec<_>>().join("+"),
                qs.iter().map(c::question).collect::<Vec<_>>().join("+")
            ));
            steps_out.push(format!("{verdict}@{}@{}", race_answers.join("+"), answers.join("+")));
        }
        let alive = server.alive();
        out.case(&["server.reload", &steps_in.join("#")], &format!("{}#{}", steps_out.join("#"), if alive { "alive" } else { "dead" }));
        drop(server);
        let _ = std::fs::remove_dir_all(&dir);
    }
}

// ---------------------------------------------------------------------------------------------
// C12: `load_zone_configuration` in-process (file order, directories, all-or-nothing)

fn hosts_text(r: &mut Rng) -> String {
    let names = ["alpha", "beta.lan", "gamma", "www.example.com", "router", "nas.lan"];
    let mut s = String::new();
    for _ in 0..r.range(0, 5) {
        let n = *r.pick(&names);
        if r.chance(1, 3) {
            s.push_str(&format!("fd00::{:x} {}\n", r.below(4), n));
        } else {
            s.push_str(&format!("10.1.{}.{} {}{}\n", r.below(3), r.below(3), n, if r.chance(1, 4) { " extra.alias" } else { "" }));
        }
    }
    s
}

/// a file of a configuration directory: a regular file, or (one time in three) a symbolic link to a file
/// kept elsewhere - ConfigMap mounts, /etc on NixOS and sites-enabled layouts look like that
fn place_in_dir(r: &mut Rng, root: &Path, d: &Path, fname: &str, content: &[u8]) {
    if r.chance(1, 3) {
        let store = root.join("store");
        std::fs::create_dir_all(&store).unwrap();
        let target = store.join(format!("{}-{}", d.file_name().unwrap().to_string_lossy(), fname));
        std::fs::write(&target, content).unwrap();
        if std::os::unix::fs::symlink(&target, d.join(fname)).is_ok() {
            return;
        }
    }
    std::fs::write(d.join(fname), content).unwrap();
}

pub fn run_config_load(r: &mut Rng, n: usize, out: &mut Out) {
    let rt = tokio::runtime::Builder::new_current_thread().enable_all().build().unwrap();
    let mut done = 0;
    while done < n {
        let dir = scratch("cfg");
        let apexes = ["example.com.", "example.com.", "lan.", "sub.example.com.", "."];
        // file placement: explicit list (CLI order) or one of two directories
        let mut zone_files: Vec<PathBuf> = Vec::new();
        let mut hosts_files: Vec<PathBuf> = Vec::new();
        let zdirs = [dir.join("zd1"), dir.join("zd0")];
        let hdirs = [dir.join("hd1"), dir.join("hd0")];
        for d in zdirs.iter().chain(hdirs.iter()) {
            std::fs::create_dir_all(d).unwrap();
        }
        let mut desc: Vec<String> = Vec::new();
        let mut owners = vec![DomainName::root_domain()];
        let mut used_names = std::collections::HashSet::new();
        for i in 0..r.range(1, 5) {
            let apex = DomainName::from_dotted_string(*r.pick(&apexes)).unwrap();
            let (gz, text) = stable_zone(r, Some(apex), 5);
            owners.extend(gz.owners.iter().cloned());
            let fname = format!("{}{}.zone", (b'a' + r.below(26) as u8) as char, i);
            if !used_names.insert(fname.clone()) {
                continue;
            }
            let bad = r.chance(1, 15);
            let mut content: Vec<u8> = if bad { b"$INCLUDE nope\n".to_vec() } else { text.into_bytes() };
            if !bad && r.chance(1, 30) {
                // a big file: more than 2 MiB of comment lines in front of the records (what the file
                // means does not change; everything up to its last octet has to be read)
                let line = b"; generated ------------------------------------------------------------ padding\n";
                let mut padded = Vec::with_capacity(2_300_000 + content.len());
                while padded.len() < 2_200_000 {
                    padded.extend_from_slice(line);
                }
                padded.extend_from_slice(&content);
                content = padded;
            }
            let body = if bad { "BAD".to_string() } else { gz.spec.clone() };
            match r.below(3) {
                0 => {
                    let p = dir.join(&fname);
                    std::fs::write(&p, &content).unwrap();
                    zone_files.push(p);
                    desc.push(format!("zf:{fname}={body}"));
                }
                k => {
                    let d = &zdirs[k - 1];
                    place_in_dir(r, &dir, d, &fname, &content);
                    desc.push(format!("zd{}:{fname}={body}", k - 1));
                }
            }
        }
        // explicit files are passed in a shuffled order: the configured order is what counts
        for i in (1..zone_files.len()).rev() {
            let j = r.below(i + 1);
            zone_files.swap(i, j);
        }
        let zf_order: Vec<String> = zone_files.iter().map(|p| p.file_name().unwrap().to_string_lossy().into_owned()).collect();
        for i in 0..r.range(0, 3) {
            let text = hosts_text(r);
            let fname = format!("{}{}.hosts", (b'a' + r.below(26) as u8) as char, i);
            let bad = r.chance(1, 15);
            let content: Vec<u8> = if bad { b"not-an-address name\n".to_vec() } else { text.clone().into_bytes() };
            let body = c::hex(&content);
            match r.below(3) {
                0 => {
                    let p = dir.join(&fname);
                    std::fs::write(&p, &content).unwrap();
                    hosts_files.push(p);
                    desc.push(format!("hf:{fname}={body}"));
                }
                k => {
                    let d = &hdirs[k - 1];
                    place_in_dir(r, &dir, d, &fname, &content);
                    desc.push(format!("hd{}:{fname}={body}", k - 1));
                }
            }
        }
        hosts_files.reverse();
        let hf_order: Vec<String> = hosts_files.iter().map(|p| p.file_name().unwrap().to_string_lossy().into_owned()).collect();
        let zd: Vec<PathBuf> = zdirs.to_vec();
        let hd: Vec<PathBuf> = hdirs.to_vec();
        let loaded = rt.block_on(resolved::fs::load_zone_configuration(&hosts_files, &hd, &zone_files, &zd));
        let hosts_names: Vec<DomainName> = ["alpha.", "beta.lan.", "gamma.", "www.example.com.", "router.", "nas.lan.", "extra.alias."]
            .iter()
            .map(|s| DomainName::from_dotted_string(s).unwrap())
            .collect();
        owners.extend(hosts_names);
        let nq = r.range(4, 10);
        let mut qs = Vec::new();
        let mut answers = Vec::new();
        for _ in 0..nq {
            let qname = query_name(r, &owners, &DomainName::root_domain());
            let qt = QueryType::from(*r.pick(&[1u16, 1, 28, 2, 5, 6, 16, 255]));
            let text = match &loaded {
                None => "-".to_string(),
                Some(zones) => match zones.resolve(&qname, qt) {
                    None => "nozone".to_string(),
                    Some((zone, res)) => format!(
                        "{} {} {}",
                        c::name(zone.get_apex()),
                        zone.soa_rr().map_or("-".to_string(), |rr| c::rr(&rr)),
                        crate::streams::zone::zone_result_text(qt, &Some(res))
                    ),
                },
            };
            qs.push(format!("{}|{}", c::name(&qname), u16::from(qt)));
            answers.push(text);
        }
        out.case(
            &[
                "config.load",
                &if desc.is_empty() { "-".to_string() } else { desc.join("&") },
                &format!("{}#{}", zf_order.join(","), hf_order.join(",")),
                &qs.join("+"),
            ],
            &format!("{}#{}", if loaded.is_some() { "loaded" } else { "failed" }, answers.join("+")),
        );
        done += 1;
        let _ = std::fs::remove_dir_all(&dir);
    }
}

/// C19: a reload that is held open (the loader blocks on a FIFO in the -Z directory): queries must
/// keep being answered from the old configuration meanwhile, and a second SIGUSR1 arriving during
/// the reload must not be lost.
pub fn run_reload_blocked(r: &mut Rng, n: usize, out: &mut Out) {
    for _ in 0..n {
        let dir = scratch("blocked");
        let zdir = dir.join("zones");
        std::fs::create_dir_all(&zdir).unwrap();
        let zone_text = |last: u8| format!("$ORIGIN example.com.\n@ IN SOA ns admin 1 2 3 4 60\nwww 300 IN A 10.0.0.{last}\n");
        let (v1, v2, v3) = (1 + r.below(50) as u8, 60 + r.below(50) as u8, 120 + r.below(50) as u8);
        std::fs::write(zdir.join("a.zone"), zone_text(v1)).unwrap();
        let args: Vec<String> = vec!["--authoritative-only".into(), "-Z".into(), zdir.to_string_lossy().into_owned()];
        let Some(server) = Server::start(&args) else {
            out.case(&["server.start", "reload-blocked"], "failed");
            continue;
        };
        let www = Question {
            name: DomainName::from_dotted_string("www.example.com.").unwrap(),
            qtype: QueryType::Record(RecordType::A),
            qclass: QueryClass::Record(RecordClass::IN),
        };
        let addr_of = |server: &Server, id: u16, wait_ms: u64| -> String {
            let bytes = Message::from_question(id, www.clone()).to_octets().unwrap().to_vec();
            match server.udp_once(&bytes, Duration::from_millis(wait_ms)) {
                None => "noreply".into(),
                Some(b) => match Message::from_octets(&b) {
                    Ok(m) => m.answers.iter().find_map(|rr| match rr.rtype_with_data {
                        RecordTypeWithData::A { address } => Some(address.octets()[3].to_string()),
                        _ => None,
                    }).unwrap_or_else(|| "no-a-record".into()),
                    Err(_) => "undecodable".into(),
                },
            }
        };
        let before = addr_of(&server, 1, 2000);
        // the FIFO sorts after a.zone, so a.zone is read first and the loader then blocks
        let fifo = zdir.join("b.zone");
        let _ = Command::new("mkfifo").arg(&fifo).status();
        // feeds the FIFO once: open blocks until the loader opens it for reading
        let feed = |fifo: PathBuf| {
            std::thread::spawn(move || {
                if let Ok(mut f) = std::fs::OpenOptions::new().write(true).open(&fifo) {
                    std::thread::sleep(Duration::from_millis(400));
                    let _ = f.write_all(b"$ORIGIN other.test.\n@ IN SOA ns admin 1 2 3 4 60\nx 300 IN A 10.9.9.9\n");
                }
            })
        };
        let feeder = feed(fifo.clone());
        std::fs::write(zdir.join("a.zone"), zone_text(v2)).unwrap();
        let from = server.log_len();
        server.sigusr1();
        std::thread::sleep(Duration::from_millis(100));
        // reload in progress (blocked on the FIFO for ~400 ms): queries now, and the second edit + signal
        let during: Vec<String> = (0..3).map(|i| addr_of(&server, 10 + i, 250)).collect();
        std::fs::write(zdir.join("a.zone"), zone_text(v3)).unwrap();
        server.sigusr1();
        let first = server.wait_reload(from);
        let from2 = server.log_len();
        // the pending second signal starts another reload, which blocks on the FIFO again
        let feeder2 = feed(fifo.clone());
        let second = server.wait_reload(from2);
        let _ = feeder2;
        // remove the FIFO so that nothing blocks any more, let the feeder finish
        let _ = std::fs::remove_file(&fifo);
        let fin = addr_of(&server, 99, 2000);
        let alive = server.alive();
        if std::env::var("VERIF_DEBUG").is_ok() {
            for l in server.log.lock().unwrap().iter() {
                eprintln!("LOG {l}");
            }
        }
        out.case(
            &["server.reload-blocked", &format!("{v1},{v2},{v3}")],
            &format!(
                "before:{before} during:{} first:{} second:{} final:{fin} {}",
                during.join(","),
                first.map_or("none".into(), |b| b.to_string()),
                second.map_or("none".into(), |b| b.to_string()),
                if alive { "alive" } else { "dead" }
            ),
        );
        drop(server);
        let _ = feeder; // detached: it may still be blocked in open(); the process exit ends it
        let _ = std::fs::remove_dir_all(&dir);
    }
}

// ---------------------------------------------------------------------------------------------
// forwarding mode on the real binary: command-line glue, sockets, the forwarder's address

struct MockUpstream {
    log: Arc<Mutex<Vec<(DomainName, u16, bool)>>>,
    /// names asked over TCP
    tcp_log: Arc<Mutex<Vec<DomainName>>>,
    stop: Arc<std::sync::atomic::AtomicBool>,
}

impl Drop for MockUpstream {
    fn drop(&mut self) {
        self.stop.store(true, std::sync::atomic::Ordering::SeqCst);
    }
}

/// a UDP "forwarder" on 127.0.0.1:port answering from `table` (NXDOMAIN otherwise); with `table = None`
/// a decoy that only records what reaches it
fn start_mock(port: u16, table: Option<Vec<(DomainName, Vec<ResourceRecord>)>>) -> Option<MockUpstream> {
    let sock = UdpSocket::bind(("127.0.0.1", port)).ok()?;
    sock.set_read_timeout(Some(Duration::from_millis(50))).ok()?;
    let log = Arc::new(Mutex::new(Vec::new()));
    let tcp_log = Arc::new(Mutex::new(Vec::new()));
    let stop = Arc::new(std::sync::atomic::AtomicBool::new(false));
    let table_tcp = table.clone();
    {
        let (log, stop) = (log.clone(), stop.clone());
        std::thread::spawn(move || {
            let mut buf = vec![0u8; 4096];
            while !stop.load(std::sync::atomic::Ordering::SeqCst) {
                let Ok((n, peer)) = sock.recv_from(&mut buf) else { continue };
                let Ok(q) = Message::from_octets(&buf[..n]) else { continue };
                let Some(question) = q.questions.first().cloned() else { continue };
                log.lock().unwrap().push((question.name.clone(), u16::from(question.qtype), q.header.recursion_desired));
                let Some(table) = &table else { continue };
                let mut resp = q.make_response();
                resp.header.recursion_available = true;
                if question.name.labels.first().map_or(false, |l| l.octets().starts_with(b"big")) {
                    // "does not fit": truncated over UDP, the answer is only available over TCP
                    resp.header.is_truncated = true;
                    if let Ok(bytes) = resp.to_octets() {
                        let _ = sock.send_to(&bytes, peer);
                    }
                    continue;
                }
                let cut_udp = question.name.labels.first().map_or(false, |l| l.octets().starts_with(b"cutudp"));
                match table.iter().find(|(n, _)| *n == question.name) {
                    Some((_, rrs)) => {
                        resp.answers = rrs
                            .iter()
                            .filter(|rr| {
                                rr.rtype_with_data.rtype().matches(question.qtype)
                                    || matches!(rr.rtype_with_data, RecordTypeWithData::CNAME { .. })
                                    || rr.name != question.name
                            })
                            .cloned()
                            .collect();
                    }
                    None => resp.header.rcode = Rcode::NameError,
                }
                let first = question.name.labels.first().map(|l| l.octets().to_vec()).unwrap_or_default();
                if first.starts_with(b"tiny") {
                    // a one-octet datagram (garbage); the proper answer is available over TCP
                    let _ = sock.send_to(&[0x12], peer);
                    continue;
                }
                if first.starts_with(b"spoof") {
                    // a STRANGER (another local address) answers first, with the right ID and question and a
                    // poisoned address; the genuine reply follows.  A connected socket never sees the stranger.
                    if let Ok(stranger) = UdpSocket::bind(("127.0.0.2", 0)) {
                        let mut forged = resp.clone();
                        forged.answers = vec![a_rr(&question.name, 66, 300)];
                        if let Ok(fb) = forged.to_octets() {
                            let _ = stranger.send_to(&fb, peer);
                        }
                    }
                    std::thread::sleep(Duration::from_millis(40));
                }
                if let Ok(bytes) = resp.to_octets() {
                    // a datagram that ends inside the last record's RDATA (and does not say so with TC)
                    let n = if cut_udp { bytes.len().saturating_sub(4) } else { bytes.len() };
                    let _ = sock.send_to(&bytes[..n], peer);
                }
            }
        });
    }
    // the same data over TCP (one message per connection), logged with qtype | 0x8000_0000 marker in
    // the RD position being impossible, a separate flag is kept in the name: see `tcp_log`
    if let Some(table) = table_tcp {
        if let Ok(listener) = TcpListener::bind(("127.0.0.1", port)) {
            let _ = listener.set_nonblocking(true);
            let (stop, tcp_log) = (stop.clone(), tcp_log.clone());
            std::thread::spawn(move || {
                while !stop.load(std::sync::atomic::Ordering::SeqCst) {
                    let Ok((mut stream, _)) = listener.accept() else {
                        std::thread::sleep(Duration::from_millis(5));
                        continue;
                    };
                    let _ = stream.set_nonblocking(false);
                    let _ = stream.set_read_timeout(Some(Duration::from_secs(2)));
                    let mut len = [0u8; 2];
                    if stream.read_exact(&mut len).is_err() {
                        continue;
                    }
                    let mut msg = vec![0u8; u16::from_be_bytes(len) as usize];
                    if stream.read_exact(&mut msg).is_err() {
                        continue;
                    }
                    let Ok(q) = Message::from_octets(&msg) else { continue };
                    let Some(question) = q.questions.first().cloned() else { continue };
                    tcp_log.lock().unwrap().push(question.name.clone());
                    let mut resp = q.make_response();
                    resp.header.recursion_available = true;
                    match table.iter().find(|(n, _)| *n == question.name) {
                        Some((_, rrs)) => resp.answers = rrs.clone(),
                        None => resp.header.rcode = Rcode::NameError,
                    }
                    if let Ok(bytes) = resp.to_octets() {
                        let mut wire = (bytes.len() as u16).to_be_bytes().to_vec();
                        wire.extend_from_slice(&bytes);
                        // "big1…": the connection dies after the length prefix and ONE octet of the message
                        let cut = question.name.labels.first().map_or(false, |l| l.octets().starts_with(b"big1"));
                        let n = if cut { 3 } else { wire.len() };
                        // in two segments with a pause in between, as replies longer than one segment arrive
                        let half = n / 2;
                        let _ = stream.write_all(&wire[..half]);
                        let _ = stream.flush();
                        std::thread::sleep(Duration::from_millis(60));
                        let _ = stream.write_all(&wire[half..n]);
                    }
                }
            });
        }
    }
    Some(MockUpstream { log, tcp_log, stop })
}

fn fwd_name(s: &str) -> DomainName {
    DomainName::from_dotted_string(s).unwrap()
}

fn a_rr(name: &DomainName, last: u8, ttl: u32) -> ResourceRecord {
    ResourceRecord {
        name: name.clone(),
        rtype_with_data: RecordTypeWithData::A { address: std::net::Ipv4Addr::new(203, 0, 113, last) },
        rclass: RecordClass::IN,
        ttl,
    }
}

fn reply_a_addrs(reply: &Message) -> Vec<std::net::Ipv4Addr> {
    let mut v: Vec<_> = reply
        .answers
        .iter()
        .filter_map(|rr| match &rr.rtype_with_data {
            RecordTypeWithData::A { address } => Some(*address),
            _ => None,
        })
        .collect();
    v.sort();
    v
}

/// C18 / C01 / C09 on the real binary in forwarding mode: every upstream query goes to the configured
/// forwarder (never to another port or address), only for questions local data cannot answer and only
/// when recursion is desired, and the forwarder's answer is what the client gets
pub fn run_forward(r: &mut Rng, n: usize, out: &mut Out) {
    let mut done = 0;
    while done < n {
        let dir = scratch("fwd");
        let (fport, uport) = (free_port(), free_port());
        // forwarder data
        let names: Vec<DomainName> = (0..4).map(|i| fwd_name(&format!("f{i}.ext."))).collect();
        let mut table: Vec<(DomainName, Vec<ResourceRecord>)> =
            names.iter().enumerate().map(|(i, n)| (n.clone(), vec![a_rr(n, 10 + i as u8, 300)])).collect();
        let alias = fwd_name("alias.ext.");
        table.push((
            alias.clone(),
            vec![
                ResourceRecord { name: alias.clone(), rtype_with_data: RecordTypeWithData::CNAME { cname: names[0].clone() }, rclass: RecordClass::IN, ttl: 300 },
                a_rr(&names[0], 10, 300),
            ],
        ));
        // a name whose answer is only available over TCP (the UDP reply is truncated)
        let big = fwd_name("big.ext.");
        table.push((big.clone(), vec![a_rr(&big, 99, 300)]));
        let tiny = fwd_name("tiny.ext.");
        table.push((tiny.clone(), vec![a_rr(&tiny, 96, 300)]));
        let spoof = fwd_name("spoof.ext.");
        table.push((spoof.clone(), vec![a_rr(&spoof, 95, 300)]));
        let big1 = fwd_name("big1.ext.");
        table.push((big1.clone(), vec![a_rr(&big1, 98, 300)]));
        let cutudp = fwd_name("cutudp.ext.");
        table.push((cutudp.clone(), vec![a_rr(&cutudp, 97, 300)]));
        // the forwarder also has (wrong) data for names that are local: it must never be asked
        let local_host = fwd_name("h0.lan.");
        let blocked = fwd_name("blocked.ext.");
        table.push((local_host.clone(), vec![a_rr(&local_host, 66, 300)]));
        table.push((blocked.clone(), vec![a_rr(&blocked, 67, 300)]));
        let Some(fwd) = start_mock(fport, Some(table)) else { continue };
        let Some(decoy) = start_mock(uport, None) else { continue };
        std::fs::write(
            dir.join("lan.zone"),
            "$ORIGIN lan.\n@ 300 IN SOA ns.lan. admin.lan. 1 2 3 4 300\n@ 300 IN NS ns\nns 300 IN A 10.0.0.1\nh0 300 IN A 10.0.0.10\n",
        )
        .unwrap();
        std::fs::write(dir.join("hosts"), "0.0.0.0 blocked.ext\n").unwrap();
        let pm = *r.pick(&["only-v4", "prefer-v4", "prefer-v6", "only-v6"]);
        let args: Vec<String> = vec![
            "--forward-address".into(),
            format!("127.0.0.1:{fport}"),
            "--upstream-dns-port".into(),
            uport.to_string(),
            "-p".into(),
            pm.into(),
            "-z".into(),
            dir.join("lan.zone").to_string_lossy().into_owned(),
            "-a".into(),
            dir.join("hosts").to_string_lossy().into_owned(),
        ];
        let Some(server) = Server::start(&args) else {
            out.case(&["server.start", "fwd"], "failed");
            done += 1;
            continue;
        };
        let mut answered: Vec<DomainName> = Vec::new(); // ext names already answered positively (cached)
        let batch = r.range(10, 30).min(n.saturating_sub(done)).max(1);
        for _ in 0..batch {
            let class = r.below(10);
            let (qname, kind) = match class {
                0 | 1 => (local_host.clone(), "local"),
                2 => (fwd_name("missing.lan."), "local-missing"),
                3 => (blocked.clone(), "hosts"),
                4 => (alias.clone(), "ext-alias"),
                5 => (fwd_name("nx.ext."), "ext-unknown"),
                6 => match r.below(6) {
                    0 => (big1.clone(), "ext-tcp-cut"),
                    1 => (cutudp.clone(), "ext-udp-cut"),
                    2 => (tiny.clone(), "ext-tiny"),
                    3 => (spoof.clone(), "ext-spoof"),
                    _ => (big.clone(), "ext-tcp"),
                },
                _ => (r.pick(&names).clone(), "ext"),
            };
            let rd = !r.chance(1, 4);
            let mut q = Message::from_question(
                r.next_u64() as u16,
                Question { name: qname.clone(), qtype: QueryType::Record(RecordType::A), qclass: QueryClass::Record(RecordClass::IN) },
            );
            q.header.recursion_desired = rd;
            let before = fwd.log.lock().unwrap().len();
            let reply = server.udp_once(&q.to_octets().unwrap(), Duration::from_secs(8));
            std::thread::sleep(Duration::from_millis(5));
            let asked: Vec<(DomainName, u16, bool)> = fwd.log.lock().unwrap()[before..].to_vec();
            let mut v: Vec<String> = Vec::new();
            if !decoy.log.lock().unwrap().is_empty() {
                v.push("fail:C18:contacted-other-than-forwarder".into());
                decoy.log.lock().unwrap().clear();
            }
            let parsed = reply.as_ref().and_then(|b| Message::from_octets(b).ok());
            match &parsed {
                None => {
                    v.push("fail:C09:no-reply-to-a-query".into());
                    if kind.starts_with("ext") {
                        // the resolution of a forwarded question ended with neither an answer nor an error
                        // (a panicking or stuck resolver task never produces the reply)
                        v.push("fail:C08:resolution-ended-without-answer-or-error".into());
                    }
                }
                Some(m) => {
                    if !m.header.recursion_available {
                        v.push("fail:C09:ra-iff-recursion-offered".into());
                    }
                    let addrs = reply_a_addrs(m);
                    let want = |last: u8| vec![std::net::Ipv4Addr::new(203, 0, 113, last)];
                    match kind {
                        "local" => {
                            if !asked.is_empty() {
                                v.push("fail:C01:local-name-forwarded".into());
                            }
                            if addrs != vec![std::net::Ipv4Addr::new(10, 0, 0, 10)] || !m.header.is_authoritative {
                                v.push("fail:C01:local-answer-not-from-zone".into());
                            }
                        }
                        "local-missing" => {
                            if !asked.is_empty() {
                                v.push("fail:C01:local-name-forwarded".into());
                            }
                            if m.header.rcode != Rcode::NameError || !m.answers.is_empty() {
                                v.push("fail:C01:missing-local-name-not-nxdomain".into());
                            }
                        }
                        "hosts" => {
                            if !asked.is_empty() {
                                v.push("fail:C01:local-name-forwarded".into());
                            }
                            if addrs != vec![std::net::Ipv4Addr::new(0, 0, 0, 0)] {
                                v.push("fail:C01:hosts-override-not-used".into());
                            }
                        }
                        _ => {
                            // a question local data cannot answer
                            if asked.iter().any(|(n, _, _)| *n != qname && !(kind == "ext-alias" && *n == names[0])) {
                                v.push("fail:C18:forwarder-asked-something-else".into());
                            }
                            if asked.iter().any(|(_, _, rdf)| !*rdf) {
                                v.push("fail:C18:forwarded-query-without-rd".into());
                            }
                            let cached = answered.contains(&qname);
                            if !rd && !asked.is_empty() {
                                v.push("fail:C09:recursion-without-rd".into());
                            }
                            if kind == "ext-tcp-cut" || kind == "ext-udp-cut" {
                                // a malformed upstream reply (cut short): it supplies nothing - the client still
                                // gets a reply (a panicking resolver task shows up as no reply, caught above),
                                // and no record in it, since neither upstream nor local data supplied one
                                // (after a cut-short datagram the retry over TCP may legitimately fetch the
                                // forwarder's real record)
                                let real = if kind == "ext-udp-cut" { want(97) } else { want(98) };
                                if !m.answers.is_empty() && !(kind == "ext-udp-cut" && addrs == real && m.answers.len() == 1) {
                                    v.push("fail:C08:record-from-nowhere".into());
                                }
                            } else if rd && kind == "ext-tiny" {
                                // garbage over UDP, the answer over TCP: it is what the client gets (and no panic)
                                if addrs != want(96) {
                                    v.push("fail:C08:answer-after-garbage-datagram-not-returned".into());
                                } else if !answered.contains(&qname) {
                                    answered.push(qname.clone());
                                }
                            } else if rd && kind == "ext-spoof" {
                                // only what the forwarder itself sent may come back
                                if addrs == want(66) {
                                    v.push("fail:C08:record-from-a-stranger-returned".into());
                                } else if addrs != want(95) {
                                    v.push("fail:C18:forwarders-answer-not-returned".into());
                                } else if !answered.contains(&qname) {
                                    answered.push(qname.clone());
                                }
                            } else if rd && kind == "ext-tcp" {
                                // truncated over UDP: the retry over TCP must reach the same forwarder, and its
                                // answer is what the client gets
                                if addrs != want(99) {
                                    v.push("fail:C18:tcp-retry-answer-not-returned".into());
                                    // (the same socket code carries recursive resolution: what the upstream
                                    // holds does not reach the client)
                                    v.push("fail:C07:upstream-answer-over-tcp-not-returned".into());
                                } else if !answered.contains(&qname) {
                                    if !fwd.tcp_log.lock().unwrap().contains(&qname) {
                                        v.push("fail:C18:answer-without-tcp-exchange".into());
                                    }
                                    answered.push(qname.clone());
                                }
                            } else if rd && kind != "ext-unknown" {
                                let idx = if kind == "ext-alias" { 0 } else { names.iter().position(|x| *x == qname).unwrap() };
                                if addrs != want(10 + idx as u8) {
                                    v.push(if asked.is_empty() && !cached { "fail:C18:forwarder-not-contacted".into() } else { "fail:C18:forwarders-answer-not-returned".into() });
                                } else if !answered.contains(&qname) {
                                    answered.push(qname.clone());
                                }
                            }
                            if rd && kind == "ext-unknown" && !m.answers.is_empty() {
                                v.push("fail:C08:record-from-nowhere".into());
                            }
                        }
                    }
                }
            }
            let verdict = if v.is_empty() { "ok".to_string() } else { v.join(",") };
            out.case(
                &["server.fwd", pm, &format!("{}|{}", c::name(&qname), if rd { 1 } else { 0 }), kind],
                &format!("{verdict} asked={} reply={}", asked.len(), reply.as_ref().map_or("-".into(), |b| c::hex(b))),
            );
            done += 1;
        }
        let alive = server.alive();
        out.case(&["server.alive", "fwd"], if alive { "alive" } else { "dead" });
        done += 1;
        drop(server);
        drop(fwd);
        drop(decoy);
        let _ = std::fs::remove_dir_all(&dir);
    }
}

// ---------------------------------------------------------------------------------------------
// reloads while the server is busy: a large previous configuration being dropped, a query stuck on
// a slow upstream holding the configuration

fn www_addr(server: &Server, id: u16, wait_ms: u64, name: &str) -> String {
    let q = Question {
        name: DomainName::from_dotted_string(name).unwrap(),
        qtype: QueryType::Record(RecordType::A),
        qclass: QueryClass::Record(RecordClass::IN),
    };
    let bytes = Message::from_question(id, q).to_octets().unwrap().to_vec();
    match server.udp_once(&bytes, Duration::from_millis(wait_ms)) {
        None => "noreply".into(),
        Some(b) => match Message::from_octets(&b) {
            Ok(m) => m
                .answers
                .iter()
                .find_map(|rr| match rr.rtype_with_data {
                    RecordTypeWithData::A { address } => Some(address.octets()[3].to_string()),
                    _ => None,
                })
                .unwrap_or_else(|| format!("rcode{}", u8::from(m.header.rcode))),
            Err(_) => "undecodable".into(),
        },
    }
}

/// C19 with the server busy.  Variant "storm": the previous configuration is large (a hosts blocklist of
/// tens of thousands of names), a client asks continuously for a name both the old and the new files
/// define while reloads happen - every answer is the old or the new address, never a failure.  Variant
/// "stuck": forwarding mode, a query for an outside name hangs on a forwarder that never replies and
/// keeps the configuration in use; the zone is edited and reloaded meanwhile - once the stuck query is
/// over, answers reflect the new files.
pub fn run_reload_live(r: &mut Rng, n: usize, out: &mut Out) {
    for i in 0..n {
        let dir = scratch("live");
        let zdir = dir.join("zones");
        std::fs::create_dir_all(&zdir).unwrap();
        let zone_text = |last: u8| format!("$ORIGIN storm.test.\n@ IN SOA ns admin 1 2 3 4 60\nwww 300 IN A 10.0.0.{last}\n");
        let mut cur = 1 + r.below(40) as u8;
        std::fs::write(zdir.join("a.zone"), zone_text(cur)).unwrap();
        if i % 3 == 2 {
            // ---- relink: the configured directory is reached through a symbolic link (`current ->
            // releases/1`) which is re-pointed between two reloads - the paths as GIVEN are what is re-read
            let rel = |k: u8| dir.join(format!("releases/{k}/zones"));
            let (v1, v2) = (cur, cur.wrapping_add(41) % 250 + 1);
            for (k, v) in [(1u8, v1), (2u8, v2)] {
                std::fs::create_dir_all(rel(k)).unwrap();
                std::fs::write(rel(k).join("a.zone"), zone_text(v)).unwrap();
            }
            let current = dir.join("current");
            let _ = std::os::unix::fs::symlink(dir.join("releases/1"), &current);
            let args: Vec<String> = vec!["--authoritative-only".into(), "-Z".into(), current.join("zones").to_string_lossy().into_owned()];
            let Some(server) = Server::start(&args) else {
                out.case(&["server.start", "reload-live"], "failed");
                continue;
            };
            let before = www_addr(&server, 1, 2000, "www.storm.test.");
            // re-point the link atomically (new link + rename), remove the old release, reload
            let tmp = dir.join("current.new");
            let _ = std::os::unix::fs::symlink(dir.join("releases/2"), &tmp);
            let _ = std::fs::rename(&tmp, &current);
            let _ = std::fs::remove_dir_all(dir.join("releases/1"));
            let from = server.log_len();
            server.sigusr1();
            let ok = server.wait_reload(from);
            let fin = www_addr(&server, 2, 2000, "www.storm.test.");
            let mut verdicts: Vec<String> = Vec::new();
            if before != v1.to_string() {
                verdicts.push("fail:C19:initial-configuration-not-served".into());
            }
            if ok != Some(true) {
                verdicts.push("fail:C19:valid-configuration-not-loaded".into());
            }
            if fin != v2.to_string() {
                verdicts.push("fail:C19:later-answers-do-not-reflect-the-new-files".into());
            }
            out.case(&["server.reload-live", "relink"], &format!("{} final={fin}", if verdicts.is_empty() { "ok".to_string() } else { verdicts.join(",") }));
        } else if i % 3 == 0 {
            // ---- storm
            let mut hosts = String::new();
            for k in 0..60_000u32 {
                hosts.push_str(&format!("0.0.0.0 ad{k}.tracker{}.example\n", k % 977));
            }
            std::fs::write(dir.join("blocklist"), hosts).unwrap();
            let args: Vec<String> = vec![
                "--authoritative-only".into(),
                "-Z".into(),
                zdir.to_string_lossy().into_owned(),
                "-a".into(),
                dir.join("blocklist").to_string_lossy().into_owned(),
            ];
            let Some(server) = Server::start(&args) else {
                out.case(&["server.start", "reload-live"], "failed");
                continue;
            };
            let server = Arc::new(server);
            let stop = Arc::new(std::sync::atomic::AtomicBool::new(false));
            let seen: Arc<Mutex<Vec<String>>> = Arc::new(Mutex::new(Vec::new()));
            let storm = {
                let (server, stop, seen) = (server.clone(), stop.clone(), seen.clone());
                std::thread::spawn(move || {
                    let mut id = 1000u16;
                    while !stop.load(std::sync::atomic::Ordering::SeqCst) {
                        id = id.wrapping_add(1);
                        let a = www_addr(&server, id, 1500, "www.storm.test.");
                        seen.lock().unwrap().push(a);
                    }
                })
            };
            let mut allowed: Vec<String> = vec![cur.to_string()];
            let mut verdicts: Vec<String> = Vec::new();
            for _ in 0..3 {
                cur = cur.wrapping_add(41) % 250 + 1;
                allowed.push(cur.to_string());
                std::fs::write(zdir.join("a.zone"), zone_text(cur)).unwrap();
                let from = server.log_len();
                server.sigusr1();
                if server.wait_reload(from) != Some(true) {
                    verdicts.push("fail:C19:valid-configuration-not-loaded".into());
                }
            }
            std::thread::sleep(Duration::from_millis(100));
            stop.store(true, std::sync::atomic::Ordering::SeqCst);
            let _ = storm.join();
            let seen = seen.lock().unwrap().clone();
            let bad: Vec<&String> = seen.iter().filter(|a| !allowed.contains(a)).collect();
            if let Some(b) = bad.first() {
                verdicts.push(format!("fail:C19:answer-during-reload-from-neither-configuration:{b}"));
            }
            let fin = www_addr(&server, 7, 2000, "www.storm.test.");
            if fin != cur.to_string() {
                verdicts.push("fail:C19:later-answers-do-not-reflect-the-new-files".into());
            }
            out.case(
                &["server.reload-live", "storm"],
                &format!("{} queries={} bad={}", if verdicts.is_empty() { "ok".to_string() } else { verdicts.join(",") }, seen.len(), bad.len()),
            );
        } else {
            // ---- stuck: a forwarder that never answers (UDP bound and silent; nothing listens on TCP)
            let fport = free_port();
            let silent = UdpSocket::bind(("127.0.0.1", fport)).ok();
            let args: Vec<String> = vec![
                "--forward-address".into(),
                format!("127.0.0.1:{fport}"),
                "-Z".into(),
                zdir.to_string_lossy().into_owned(),
            ];
            let Some(server) = Server::start(&args) else {
                out.case(&["server.start", "reload-live"], "failed");
                continue;
            };
            let server = Arc::new(server);
            let before = www_addr(&server, 1, 2000, "www.storm.test.");
            // the stuck query: RD = 1 for an outside name
            let stuck = {
                let server = server.clone();
                std::thread::spawn(move || {
                    let mut q = Message::from_question(
                        77,
                        Question {
                            name: DomainName::from_dotted_string("outside.invalid.").unwrap(),
                            qtype: QueryType::Record(RecordType::A),
                            qclass: QueryClass::Record(RecordClass::IN),
                        },
                    );
                    q.header.recursion_desired = true;
                    let _ = server.udp_once(&q.to_octets().unwrap(), Duration::from_secs(15));
                })
            };
            std::thread::sleep(Duration::from_millis(300));
            let newv = cur.wrapping_add(41) % 250 + 1;
            std::fs::write(zdir.join("a.zone"), zone_text(newv)).unwrap();
            server.sigusr1();
            // once the stuck query is over (5 s UDP time-out, TCP refused) the new files must be served
            let start = Instant::now();
            let mut fin = String::new();
            while start.elapsed() < Duration::from_secs(14) {
                fin = www_addr(&server, 9, 1000, "www.storm.test.");
                if fin == newv.to_string() {
                    break;
                }
                std::thread::sleep(Duration::from_millis(250));
            }
            let _ = stuck.join();
            drop(silent);
            let mut verdicts: Vec<String> = Vec::new();
            if before != cur.to_string() {
                verdicts.push("fail:C19:initial-configuration-not-served".into());
            }
            if fin != newv.to_string() {
                verdicts.push("fail:C19:later-answers-do-not-reflect-the-new-files".into());
            }
            out.case(
                &["server.reload-live", "stuck"],
                &format!("{} after={}ms", if verdicts.is_empty() { "ok".to_string() } else { verdicts.join(",") }, start.elapsed().as_millis() / 1000 * 1000),
            );
        }
        let _ = std::fs::remove_dir_all(&dir);
    }
}


// ---------------------------------------------------------------------------------------------
// the deepest legal compression-pointer chain, sent to the RELEASE build of the server over TCP

/// C03 "without overflowing the stack of a server worker thread": the release binary gets the message
/// with the longest strictly-backwards pointer chain (about 8180 hops, 16 KiB) over TCP, and a few
/// shorter ones; it must answer each (the message is well formed) and stay up.
pub fn run_server_deep(out: &mut Out) {
    USE_RELEASE.store(true, std::sync::atomic::Ordering::SeqCst);
    let dir = scratch("deep");
    std::fs::write(dir.join("z.zone"), "$ORIGIN deep.test.\n@ IN SOA ns admin 1 2 3 4 60\n").unwrap();
    let args: Vec<String> = vec!["--authoritative-only".into(), "-z".into(), dir.join("z.zone").to_string_lossy().into_owned()];
    let Some(server) = Server::start(&args) else {
        out.case(&["server.start", "deep"], "failed");
        USE_RELEASE.store(false, std::sync::atomic::Ordering::SeqCst);
        return;
    };
    for depth in [10usize, 2000, 5000, 8180] {
        let bytes = crate::streams::wire::deep_chain(depth);
        let mut wire = (bytes.len() as u16).to_be_bytes().to_vec();
        wire.extend_from_slice(&bytes);
        let resp = server.tcp_once(&wire, false);
        std::thread::sleep(Duration::from_millis(50));
        let alive = server.alive() && server.udp_once(&probe_query(9), Duration::from_secs(2)).is_some();
        let text = match (&resp, alive) {
            (_, false) => "server-died".to_string(),
            (Some(b), true) if b.len() >= 14 => format!("replied rcode{}", b[5] & 15),
            _ => "noreply".to_string(),
        };
        out.case(&["server.deep", &depth.to_string()], &text);
        if !alive {
            break;
        }
    }
    drop(server);
    let _ = std::fs::remove_dir_all(&dir);
    USE_RELEASE.store(false, std::sync::atomic::Ordering::SeqCst);
}
