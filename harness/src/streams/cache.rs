//! C05 / C15 streams: histories of `SharedCache` operations under the virtual clock.
use std::net::Ipv4Addr;

use bytes::Bytes;
use dns_resolver::cache::{SharedCache, VerifDump};
use dns_resolver::verif;
use dns_types::protocol::types::*;

use crate::codec as c;
use crate::rng::Rng;
use crate::streams::zone::lbl;
use crate::Out;

fn cname(r: &mut Rng) -> DomainName {
    let pool: [&[&[u8]]; 5] = [&[b"a"], &[b"b"], &[b"c", b"a"], &[b"d"], &[]];
    let p = r.pick(&pool);
    let mut ls: Vec<Label> = p.iter().map(|b| lbl(b)).collect();
    ls.push(Label::new());
    DomainName::from_labels(ls).unwrap()
}

fn crr(r: &mut Rng) -> ResourceRecord {
    use RecordTypeWithData as R;
    let data = match r.below(6) {
        0 | 1 | 2 => R::A { address: Ipv4Addr::new(10, 0, 0, r.below(3) as u8) },
        3 => R::TXT { octets: Bytes::from(vec![b'x'; r.below(2)]) },
        4 => R::CNAME { cname: cname(r) },
        _ => R::NS { nsdname: cname(r) },
    };
    let ttl = match r.below(10) {
        0 => 0,
        1 => u32::MAX,
        2 => 1,
        _ => r.range(1, 8) as u32,
    };
    ResourceRecord { name: cname(r), rtype_with_data: data, rclass: RecordClass::IN, ttl }
}

pub fn dump_text(d: &VerifDump) -> String {
    let mut parts: Vec<String> = d
        .partitions
        .iter()
        .map(|(n, lr, ne, size, recs)| {
            let mut rs: Vec<String> = recs
                .iter()
                .map(|(v, e)| {
                    let (code, fields) = c::rdata(v);
                    format!("{code}!{fields}!{e}")
                })
                .collect();
            rs.sort();
            format!("{}@{}@{}@{}@{}", c::name(n), lr, ne, size, if rs.is_empty() { "-".to_string() } else { rs.join("+") })
        })
        .collect();
    parts.sort();
    let q = |v: &Vec<(DomainName, u128)>| {
        let mut xs: Vec<String> = v.iter().map(|(n, p)| format!("{}@{}", c::name(n), p)).collect();
        xs.sort();
        if xs.is_empty() { "-".to_string() } else { xs.join(";") }
    };
    format!(
        "{},{}|{}|{}|{}",
        d.current_size,
        d.desired_size,
        if parts.is_empty() { "-".to_string() } else { parts.join(";") },
        q(&d.access_priority),
        q(&d.expiry_priority)
    )
}

pub const GET_QTYPES: [u16; 7] = [1, 1, 16, 5, 2, 255, 252];

/// one history; `ties` allows operations without a clock tick in between.  The history runs under a
/// watchdog; if an operation does not return, the case is the history so far with output `HANG`.
pub fn history(r: &mut Rng, len: usize, ties: bool, out: &mut Out) {
    use std::sync::{Arc, Mutex};
    let desired = *r.pick(&[1usize, 2, 3, 4, 6, 100]);
    let rec: Arc<Mutex<(Vec<String>, Vec<String>)>> = Arc::new(Mutex::new((Vec::new(), Vec::new())));
    let rec2 = rec.clone();
    let mut r2 = r.fork();
    let outcome = crate::watch::run(60, move || history_body(&mut r2, len, ties, desired, &rec2));
    let (ops, mut outs) = {
        let g = rec.lock().unwrap();
        (g.0.clone(), g.1.clone())
    };
    match outcome {
        crate::watch::Outcome::Done(()) => {}
        crate::watch::Outcome::Panic => outs.push("PANIC".into()),
        crate::watch::Outcome::Hang => outs.push("HANG".into()),
    }
    let cmd = if ties { "cache.hist-ties" } else { "cache.hist" };
    out.case(&[cmd, &desired.to_string(), &ops.join("~")], &outs.join("~"));
}

fn history_body(
    r: &mut Rng,
    len: usize,
    ties: bool,
    desired: usize,
    rec: &std::sync::Arc<std::sync::Mutex<(Vec<String>, Vec<String>)>>,
) {
    let cache = SharedCache::with_desired_size(desired);
    let mut now: u64 = 1_000_000_000;
    verif::set_clock_nanos(now);
    // an op is recorded BEFORE it runs, its output after it returned
    let op = |s: String| rec.lock().unwrap().0.push(s);
    let res = |s: String| rec.lock().unwrap().1.push(s);
    for _ in 0..len {
        if !(ties && r.chance(1, 3)) {
            let delta: u64 = match r.below(8) {
                0 => 1,
                1 => r.range(1, 999_999_999) as u64,
                2 => 1_000_000_000,
                3 => r.range(1, 4) as u64 * 1_000_000_000,
                4 => 999_999_999,
                5 => r.range(1, 9) as u64 * 500_000_000 + 1,
                _ => r.range(1, 2_000_000) as u64,
            };
            now += delta;
            verif::set_clock_nanos(now);
            op(format!("t:{now}"));
            res("-".into());
        }
        match r.below(12) {
            0..=4 => {
                let rr = crr(r);
                op(format!("i:{}", c::rr(&rr)));
                cache.insert(&rr);
                res("-".into());
            }
            5 => {
                if ties {
                    let k = r.range(1, 3);
                    let rrs: Vec<ResourceRecord> = (0..k).map(|_| crr(r)).collect();
                    op(format!("ia:{}", c::rrs(&rrs)));
                    cache.insert_all(&rrs);
                    res("-".into());
                }
            }
            6..=8 => {
                let n = cname(r);
                let qt = *r.pick(&GET_QTYPES);
                op(format!("g:{}|{}", c::name(&n), qt));
                let rrs = cache.get(&n, QueryType::from(qt));
                res(if qt == 255 { c::rrs_sorted(&rrs) } else { c::rrs(&rrs) });
            }
            9 => {
                let n = cname(r);
                let qt = *r.pick(&GET_QTYPES);
                op(format!("gu:{}|{}", c::name(&n), qt));
                let rrs = cache.get_without_checking_expiration(&n, QueryType::from(qt));
                res(if qt == 255 { c::rrs_sorted(&rrs) } else { c::rrs(&rrs) });
            }
            10 => {
                op("p".into());
                let before = dump_text(&cache.verif_dump());
                let (o, n, e, p) = cache.prune();
                let after = dump_text(&cache.verif_dump());
                res(format!("{before}#{},{n},{e},{p}#{after}", if o { 1 } else { 0 }));
            }
            _ => {
                op("d".into());
                res(dump_text(&cache.verif_dump()));
            }
        }
    }
    // always end with a prune
    now += 1;
    verif::set_clock_nanos(now);
    op(format!("t:{now}"));
    res("-".into());
    op("p".into());
    let before = dump_text(&cache.verif_dump());
    let (o, n, e, p) = cache.prune();
    let after = dump_text(&cache.verif_dump());
    res(format!("{before}#{},{n},{e},{p}#{after}", if o { 1 } else { 0 }));
}

pub fn run(r: &mut Rng, n: usize, out: &mut Out) {
    for i in 0..n {
        let len = r.range(3, 40);
        history(r, len, i % 4 == 3, out);
    }
    verif::disarm_clock();
}

/// C15: 2..8 threads on one shared cache (real mutex), then the invariant on the dump.
pub fn run_threads(r: &mut Rng, n: usize, out: &mut Out) {
    for _ in 0..n {
        let threads = r.range(2, 8);
        let desired = *r.pick(&[2usize, 5, 50]);
        let cache = SharedCache::with_desired_size(desired);
        verif::set_clock_nanos(1_000_000_000);
        let mut handles = Vec::new();
        for t in 0..threads {
            let cache = cache.clone();
            let mut tr = r.fork();
            handles.push(std::thread::spawn(move || {
                for k in 0..200u64 {
                    match tr.below(5) {
                        0 | 1 | 2 => cache.insert(&crr(&mut tr)),
                        3 => {
                            let _ = cache.get(&cname(&mut tr), QueryType::from(*tr.pick(&GET_QTYPES)));
                        }
                        _ => {
                            let _ = cache.prune();
                        }
                    }
                    if k % 16 == 0 {
                        // time only moves forward, from any thread
                        verif::set_clock_nanos(1_000_000_000 + (k + 1) * 300_000_000 + t as u64);
                    }
                }
            }));
        }
        // the joins run under the watchdog: a thread spinning inside the cache (holding its mutex) must
        // show up as HANG for this case, not block the stream
        let cache2 = cache.clone();
        let res = crate::watch::run(60, move || {
            let mut panicked = false;
            for h in handles {
                panicked |= h.join().is_err();
            }
            if panicked { "panic".to_string() } else { dump_text(&cache2.verif_dump()) }
        });
        let text = match res {
            crate::watch::Outcome::Done(s) => s,
            crate::watch::Outcome::Panic => "panic".to_string(),
            crate::watch::Outcome::Hang => "HANG".to_string(),
        };
        let hung = text == "HANG";
        out.case(&["cache.inv", &threads.to_string()], &text);
        if hung {
            break; // the spinning threads keep the clock hook busy: later cases would not be meaningful
        }
    }
    verif::disarm_clock();
}
