//! C03 / C04 streams: `Message::from_octets` and `Message::to_octets`.
use dns_types::protocol::types::*;

use crate::codec as c;
use crate::gen;
use crate::rng::Rng;
use crate::Out;

/// decode on a worker thread under a watchdog: a decoder that does not terminate shows up as the
/// output `hang` for exactly that input (the abandoned worker keeps spinning until process exit).
mod watchdog {
    use std::sync::mpsc::{channel, Receiver, Sender};
    use std::sync::Mutex;
    use std::time::Duration;

    use dns_types::protocol::types::Message;

    type Job = Vec<u8>;
    type Res = Result<Message, dns_types::protocol::deserialise::Error>;

    struct Worker {
        tx: Sender<Job>,
        rx: Receiver<std::thread::Result<Res>>,
    }

    static WORKER: Mutex<Option<Worker>> = Mutex::new(None);

    fn spawn() -> Worker {
        let (tx, jrx) = channel::<Job>();
        let (rtx, rx) = channel();
        std::thread::Builder::new()
            .stack_size(2 * 1024 * 1024)
            .spawn(move || {
                while let Ok(job) = jrx.recv() {
                    let r = std::panic::catch_unwind(|| Message::from_octets(&job));
                    if rtx.send(r).is_err() {
                        break;
                    }
                }
            })
            .unwrap();
        Worker { tx, rx }
    }

    pub enum Outcome {
        Done(Res),
        Panic,
        Hang,
    }

    pub fn decode(bytes: &[u8]) -> Outcome {
        let mut g = WORKER.lock().unwrap();
        if g.is_none() {
            *g = Some(spawn());
        }
        let w = g.as_ref().unwrap();
        w.tx.send(bytes.to_vec()).unwrap();
        match w.rx.recv_timeout(Duration::from_secs(10)) {
            Ok(Ok(r)) => Outcome::Done(r),
            Ok(Err(_)) => Outcome::Panic,
            Err(_) => {
                *g = None; // abandon the spinning (or dead) worker
                Outcome::Hang
            }
        }
    }
}

pub fn decode_case(bytes: &[u8], out: &mut Out) {
    if out.count % 3 == 0 {
        reencode_case(bytes, out);
    }
    let res = match watchdog::decode(bytes) {
        watchdog::Outcome::Done(Ok(m)) => format!("ok {}", c::message(&m)),
        watchdog::Outcome::Done(Err(e)) => format!("err {e:?}"),
        watchdog::Outcome::Panic => "panic".to_string(),
        watchdog::Outcome::Hang => "hang".to_string(),
    };
    out.case(&["decode", &c::hex(bytes)], &res);
}

pub fn encode_case(m: &Message, out: &mut Out) -> Option<Vec<u8>> {
    match m.to_octets() {
        Ok(bs) => {
            out.case(&["encode", &c::message(m)], &format!("ok {}", c::hex(&bs)));
            Some(bs.to_vec())
        }
        Err(e) => {
            let dns_types::protocol::serialise::Error::CounterTooLarge { counter, bits } = e;
            out.case(&["encode", &c::message(m)], &format!("err CounterTooLarge({counter},{bits})"));
            None
        }
    }
}

fn hdr(id: u16, counts: [u16; 4]) -> Vec<u8> {
    let mut v = vec![(id >> 8) as u8, id as u8, 0, 0];
    for cnt in counts {
        v.push((cnt >> 8) as u8);
        v.push(cnt as u8);
    }
    v
}

/// hand-built adversarial encodings
fn adversarial(r: &mut Rng, out: &mut Out) {
    let id = r.next_u64() as u16;
    match r.below(14) {
        0 => {
            // self pointer in the question name
            let mut v = hdr(id, [1, 0, 0, 0]);
            v.extend([0xC0, 12, 0, 1, 0, 1]);
            decode_case(&v, out);
        }
        1 => {
            // forward pointer
            let mut v = hdr(id, [1, 0, 0, 0]);
            v.extend([0xC0, 20, 0, 1, 0, 1, 0, 0, 1, b'a', 0]);
            decode_case(&v, out);
        }
        2 => {
            // pointer into the header
            let mut v = hdr(id, [1, 0, 0, 0]);
            let off = r.below(12) as u8;
            v.extend([0xC0, off, 0, 1, 0, 1]);
            decode_case(&v, out);
        }
        3 => {
            // reserved label types 0x40 / 0x80
            let mut v = hdr(id, [1, 0, 0, 0]);
            let ty = *r.pick(&[0x40u8, 0x41, 0x7f, 0x80, 0x81, 0xbf]);
            v.extend([ty, b'a', 0, 0, 1, 0, 1]);
            decode_case(&v, out);
        }
        4 => {
            // counts far larger than the payload
            let mut v = hdr(id, [r.next_u64() as u16, 0xffff, 0xffff, 0xffff]);
            let k = r.below(8);
            v.extend(r.bytes(k));
            decode_case(&v, out);
        }
        5 => {
            // backward pointer chain of depth d: question name at 12 is root-terminated label,
            // then d answer records whose owner names each point at the previous pointer
            let d = r.range(1, 40);
            let mut v = hdr(id, [1, d as u16, 0, 0]);
            v.extend([1, b'a', 0, 0, 1, 0, 1]);
            let mut prev = 12usize;
            for _ in 0..d {
                let here = v.len();
                v.extend([0xC0 | (prev >> 8) as u8, prev as u8]);
                v.extend([0, 1, 0, 1, 0, 0, 0, 0, 0, 4, 1, 2, 3, 4]);
                prev = here;
            }
            decode_case(&v, out);
        }
        6 => {
            // label then pointer chain growing the name beyond 255
            let d = r.range(1, 12);
            let mut v = hdr(id, [1, d as u16, 0, 0]);
            let l = r.range(20, 63);
            v.push(l as u8);
            v.extend(vec![b'x'; l]);
            v.extend([0, 0, 1, 0, 1]);
            let mut prev = 12usize;
            for _ in 0..d {
                let here = v.len();
                v.push(l as u8);
                v.extend(vec![b'y'; l]);
                v.extend([0xC0 | (prev >> 8) as u8, prev as u8]);
                v.extend([0, 1, 0, 1, 0, 0, 0, 0, 0, 4, 1, 2, 3, 4]);
                prev = here;
            }
            decode_case(&v, out);
        }
        7 => {
            // RDLENGTH mismatch for a fixed-size / name record
            let mut v = hdr(id, [0, 1, 0, 0]);
            v.extend([0, 0, *r.pick(&[1u8, 2, 5, 15, 28, 33, 6]), 0, 1, 0, 0, 0, 9]);
            let rdl = r.below(24) as u16;
            v.extend([(rdl >> 8) as u8, rdl as u8]);
            let k = r.below(24);
            v.extend(r.bytes(k));
            decode_case(&v, out);
        }
        8 => {
            // pointer inside RDATA pointing into an earlier RDATA
            let mut v = hdr(id, [0, 2, 0, 0]);
            v.extend([0, 0, 2, 0, 1, 0, 0, 0, 9, 0, 5, 3, b'n', b's', b'1', 0]);
            let tgt = 23u8;
            v.extend([0, 0, 5, 0, 1, 0, 0, 0, 9, 0, 2, 0xC0, tgt]);
            decode_case(&v, out);
        }
        9 => {
            // upper-case labels (must be lower-cased)
            let mut v = hdr(id, [1, 0, 0, 0]);
            v.extend([3, b'W', b'w', b'W', 2, b'E', b'x', 0, 0, 1, 0, 1]);
            decode_case(&v, out);
        }
        10 if r.chance(1, 2) => {
            // pointer hops through octets never parsed as a name (header fields, opaque RDATA): a
            // later hop that does not go backwards must be rejected, and cycles must terminate
            match r.below(3) {
                0 => {
                    // ID = pointer to 4, QDCOUNT octets = pointer to 0, question name = pointer to 0
                    let v = vec![0xC0, 0x04, 0x01, 0x00, 0xC0, 0x00, 0, 0, 0, 0, 0, 0, 0xC0, 0x00, 0x00, 0x01, 0x00, 0x01];
                    decode_case(&v, out);
                }
                1 => {
                    // TXT RDATA holding two pointers at each other; a later owner name points into it
                    let mut v = hdr(id, [0, 2, 0, 0]);
                    v.extend([0, 0, 16, 0, 1, 0, 0, 0, 9, 0, 4]); // root TXT rdlength 4; rdata at 23
                    v.extend([0xC0, 25, 0xC0, 23]); // 23 -> 25 -> 23
                    v.extend([0xC0, 23, 0, 1, 0, 1, 0, 0, 0, 9, 0, 4, 1, 2, 3, 4]);
                    decode_case(&v, out);
                }
                _ => {
                    // second hop goes FORWARD (but stays before the outermost name): 12.. question root;
                    // answer 1 NULL rdata = [ptr -> later offset inside rdata][label a][root]; answer 2 owner -> rdata
                    let mut v = hdr(id, [0, 2, 0, 0]);
                    v.extend([0, 0, 10, 0, 1, 0, 0, 0, 9, 0, 5]); // root NULL rdlength 5; rdata at 23
                    v.extend([0xC0, 25, 1, b'a', 0]); // 23: ptr -> 25 (forward hop), 25: label a, root
                    v.extend([0xC0, 23, 0, 1, 0, 1, 0, 0, 0, 9, 0, 4, 1, 2, 3, 4]);
                    decode_case(&v, out);
                }
            }
        }
        10 => {
            // every prefix of a tiny valid message
            let mut v = hdr(id, [1, 1, 0, 0]);
            v.extend([1, b'a', 0, 0, 1, 0, 1, 0xC0, 12, 0, 1, 0, 1, 0, 0, 0, 5, 0, 4, 9, 9, 9, 9]);
            for k in 0..=v.len() {
                decode_case(&v[..k], out);
            }
        }
        11 => {
            // compressed name at the 255-octet limit: literal labels, then a pointer to a suffix of the
            // question name (one of its label starts, or its bare root octet); expanded length 253..257
            // (seeded change C03-7: "a pointer takes two octets" rejected 254 literal octets + pointer to root)
            let nl = r.range(0, 3);
            let mut v = hdr(id, [1, 1, 0, 0]);
            let mut targets = vec![];
            for _ in 0..nl {
                targets.push(v.len());
                let l = r.range(1, 63);
                v.push(l as u8);
                v.extend(vec![b'q'; l]);
            }
            targets.push(v.len());
            v.push(0);
            let qend = v.len();
            v.extend([0, 1, 0, 1]);
            let t = *r.pick(&targets);
            let suffix = qend - t;
            let total = *r.pick(&[253usize, 254, 255, 255, 255, 256, 257]);
            let mut lit = total.saturating_sub(suffix);
            while lit >= 2 {
                let mut l = (lit - 1).min(63);
                if lit - 1 - l == 1 {
                    l -= 1;
                }
                v.push(l as u8);
                v.extend(vec![b'o'; l]);
                lit -= l + 1;
            }
            v.extend([0xC0 | (t >> 8) as u8, t as u8]);
            v.extend([0, 1, 0, 1, 0, 0, 0, 0, 0, 4, 1, 2, 3, 4]);
            decode_case(&v, out);
        }
        _ => {
            // name of exactly 255 / 256 octets on the wire
            let mut v = hdr(id, [1, 0, 0, 0]);
            for _ in 0..3 {
                v.push(63);
                v.extend(vec![b'a'; 63]);
            }
            let last = *r.pick(&[60usize, 61, 62, 63]);
            v.push(last as u8);
            v.extend(vec![b'b'; last]);
            v.extend([0, 0, 1, 0, 1]);
            decode_case(&v, out);
        }
    }
}

/// decode → encode → decode: must give the first decoded message again (C04 "re-encoding any
/// successfully decoded message decodes to that message again")
pub fn reencode_case(bytes: &[u8], out: &mut Out) {
    let b = bytes.to_vec();
    let text = crate::watch::text(10, move || match Message::from_octets(&b) {
        Err(_) => "undecodable".to_string(),
        Ok(m1) => match m1.to_octets() {
            Err(_) => "reencode-failed".to_string(),
            Ok(b2) => match Message::from_octets(&b2) {
                Err(e) => format!("redecode-failed {e:?}"),
                Ok(m2) => {
                    if m1 == m2 {
                        "same".to_string()
                    } else {
                        "differs".to_string()
                    }
                }
            },
        },
    });
    out.case(&["reencode", &c::hex(bytes)], &text);
}

pub fn run_decode(r: &mut Rng, n: usize, out: &mut Out) {
    for len in 0..=13usize {
        decode_case(&r.bytes(len), out);
    }
    for i in 0..n {
        match i % 5 {
            0 => {
                let len = if r.chance(1, 20) { r.range(0, 2000) } else { r.range(0, 80) };
                let mut bs = r.bytes(len);
                if bs.len() >= 12 && r.chance(3, 4) {
                    // small counts so that random bytes get past the header
                    for k in [4usize, 6, 8, 10] {
                        bs[k] = 0;
                        bs[k + 1] = r.below(3) as u8;
                    }
                }
                decode_case(&bs, out);
            }
            1 => adversarial(r, out),
            _ => {
                let m = gen::message(r, 4, 40);
                if let Ok(bs) = m.to_octets() {
                    let bs = bs.to_vec();
                    match r.below(6) {
                        0 => decode_case(&bs, out),
                        1 => {
                            let k = r.below(bs.len() + 1);
                            decode_case(&bs[..k], out);
                        }
                        2 => {
                            let mut b2 = bs.clone();
                            let k = r.range(1, 10);
                            b2.extend(r.bytes(k));
                            decode_case(&b2, out);
                        }
                        _ => {
                            let mut b2 = bs.clone();
                            let k = r.below(b2.len());
                            b2[k] = match r.below(4) {
                                0 => b2[k] ^ (1 << r.below(8)),
                                1 => 0xC0,
                                2 => 0xFF,
                                _ => r.byte(),
                            };
                            decode_case(&b2, out);
                        }
                    }
                }
            }
        }
    }
}

/// every single-byte mutation (a few replacement values) and every truncation of valid messages
pub fn run_decode_mutations(r: &mut Rng, n_msgs: usize, out: &mut Out) {
    for _ in 0..n_msgs {
        let m = gen::message(r, 2, 12);
        if let Ok(bs) = m.to_octets() {
            let bs = bs.to_vec();
            for k in 0..=bs.len() {
                decode_case(&bs[..k], out);
            }
            for k in 0..bs.len() {
                for v in [0u8, 0x3f, 0x40, 0xC0, 0xFF, bs[k].wrapping_add(1), bs[k] ^ 0x20] {
                    if v != bs[k] {
                        let mut b2 = bs.clone();
                        b2[k] = v;
                        decode_case(&b2, out);
                    }
                }
            }
        }
    }
}

pub fn run_encode(r: &mut Rng, n: usize, big: usize, out: &mut Out) {
    // all header flag / opcode / rcode combinations
    for flags in 0..32u32 {
        for op in 0..16u8 {
            for rc in 0..16u8 {
                let m = Message {
                    header: Header {
                        id: (flags * 256 + u32::from(op) * 16 + u32::from(rc)) as u16,
                        is_response: flags & 1 != 0,
                        opcode: Opcode::from(op),
                        is_authoritative: flags & 2 != 0,
                        is_truncated: flags & 4 != 0,
                        recursion_desired: flags & 8 != 0,
                        recursion_available: flags & 16 != 0,
                        rcode: Rcode::from(rc),
                    },
                    questions: Vec::new(),
                    answers: Vec::new(),
                    authority: Vec::new(),
                    additional: Vec::new(),
                };
                encode_case(&m, out);
            }
        }
    }
    for _ in 0..n {
        let m = gen::message(r, 6, 60);
        if let Some(bs) = encode_case(&m, out) {
            decode_case(&bs, out);
        }
    }
    // a name first written at every offset around the 14-bit pointer limit, then repeated
    for target in 16370usize..=16400 {
        let pool = gen::Pool::new(r, 2);
        let nm = loop {
            let n = pool.name(r);
            if !n.is_root() {
                break n;
            }
        };
        let pad = target - 23; // header 12 + root owner 1 + type/class/ttl/rdlength 10
        let mut m = gen::message(r, 0, 0);
        m.questions.clear();
        m.answers = vec![ResourceRecord {
            name: DomainName::root_domain(),
            rtype_with_data: RecordTypeWithData::NULL { octets: bytes::Bytes::from(vec![5u8; pad]) },
            rclass: RecordClass::IN,
            ttl: 1,
        }];
        for _ in 0..3 {
            m.answers.push(ResourceRecord {
                name: nm.clone(),
                rtype_with_data: RecordTypeWithData::NS { nsdname: nm.clone() },
                rclass: RecordClass::IN,
                ttl: 2,
            });
        }
        m.authority.clear();
        m.additional.clear();
        if let Some(bs) = encode_case(&m, out) {
            decode_case(&bs, out);
        }
    }
    // messages whose size crosses the 16 KiB pointer range and the 64 KiB limit
    for _ in 0..big {
        let mut m = gen::message(r, 3, 30);
        let pad = *r.pick(&[16_300usize, 16_370, 16_390, 20_000, 40_000, 65_535, 65_536, 70_000]);
        let pool = gen::Pool::new(r, 3);
        let mut extra = vec![ResourceRecord {
            name: pool.name(r),
            rtype_with_data: RecordTypeWithData::NULL { octets: bytes::Bytes::from(vec![7u8; pad.min(65_536)]) },
            rclass: RecordClass::IN,
            ttl: 1,
        }];
        if pad > 65_535 {
            extra.push(ResourceRecord {
                name: pool.name(r),
                rtype_with_data: RecordTypeWithData::TXT { octets: bytes::Bytes::from(vec![8u8; pad - 65_000]) },
                rclass: RecordClass::IN,
                ttl: 1,
            });
        }
        // names first written after the padding, then repeated
        for _ in 0..r.range(2, 6) {
            extra.push(gen::rr(r, &pool, 10));
        }
        extra.append(&mut m.answers);
        m.answers = extra;
        if let Some(bs) = encode_case(&m, out) {
            decode_case(&bs, out);
        }
    }
}

/// deepest backward pointer chains: every name is `ptr → previous name`, the first is the root.
/// Depth d needs 12 + 1 + 2*d octets (pointers overlapping: each 2-octet pointer targets the
/// pointer before it).  Decoded on a thread with the given stack size (a server worker's is 2 MiB).
pub fn deep_chain(depth: usize) -> Vec<u8> {
    // header, no question, two answers.  RR1 = root NULL whose RDATA is: a root label at offset 23
    // followed by `depth-1` two-octet pointers, each to the element before it (pointer targets need
    // not be name starts).  RR2's owner name is a pointer to the last of them, so decoding it
    // nests `depth` pointer expansions.  Everything pointed to lies below offset 16384.
    let depth = depth.clamp(1, 8180);
    let mut v = vec![0x42, 0x42, 0, 0, 0, 0, 0, 2, 0, 0, 0, 0];
    v.extend([0, 0, 10, 0, 1, 0, 0, 0, 0]); // root, NULL, IN, ttl 0
    let rdlen = 1 + 2 * (depth - 1);
    v.extend([(rdlen >> 8) as u8, rdlen as u8]);
    let mut prev = v.len(); // 23
    v.push(0);
    for _ in 0..depth - 1 {
        let here = v.len();
        v.extend([0xC0 | (prev >> 8) as u8, prev as u8]);
        prev = here;
    }
    // RR2: owner = pointer to the last chain element, A record
    v.extend([0xC0 | (prev >> 8) as u8, prev as u8, 0, 1, 0, 1, 0, 0, 0, 0, 0, 4, 1, 2, 3, 4]);
    v
}

pub fn run_deep(max_depth: usize, out: &mut Out) {
    for (depth, stack_kib) in [(10usize, 2048usize), (1000, 2048), (2000, 2048), (4000, 2048), (6000, 2048), (8180, 2048)] {
        if depth > max_depth {
            continue;
        }
        let bytes = deep_chain(depth);
        let b2 = bytes.clone();
        let h = std::thread::Builder::new()
            .stack_size(stack_kib * 1024)
            .spawn(move || match Message::from_octets(&b2) {
                Ok(m) => format!("ok answers={}", m.answers.len()),
                Err(e) => format!("err {e:?}"),
            })
            .unwrap();
        let res = h.join().unwrap_or_else(|_| "panic".to_string());
        out.case(&["decode-deep", &depth.to_string(), &stack_kib.to_string(), &c::hex(&bytes)], &res);
    }
}
