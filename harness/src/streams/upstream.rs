//! C06 stream: adversarial upstream replies through the real filter.
use std::net::{Ipv4Addr, Ipv6Addr};

use dns_resolver::recursive::{verif_validate_nameserver_response, NameserverResponse};
use dns_resolver::util::nameserver::verif_response_matches_request;
use dns_types::protocol::types::*;

use crate::codec as c;
use crate::gen;
use crate::rng::Rng;
use crate::streams::zone::lbl;
use crate::Out;

fn nm(parts: &[&[u8]]) -> DomainName {
    let mut ls: Vec<Label> = parts.iter().map(|b| lbl(b)).collect();
    ls.push(Label::new());
    DomainName::from_labels(ls).unwrap()
}

fn rr(name: &DomainName, data: RecordTypeWithData) -> ResourceRecord {
    ResourceRecord { name: name.clone(), rtype_with_data: data, rclass: RecordClass::IN, ttl: 300 }
}

fn a(r: &mut Rng) -> RecordTypeWithData {
    RecordTypeWithData::A { address: Ipv4Addr::new(10, 0, 0, r.below(4) as u8) }
}

pub fn nsresp_text(x: &Option<NameserverResponse>) -> String {
    match x {
        None => "none".into(),
        Some(NameserverResponse::Answer { rrs, soa_rr }) => {
            format!("answer {} {}", c::rrs(rrs), soa_rr.as_ref().map_or("-".into(), c::rr))
        }
        Some(NameserverResponse::CNAME { rrs, cname }) => format!("cname {} {}", c::rrs(rrs), c::name(cname)),
        Some(NameserverResponse::Delegation { rrs, delegation }) => {
            let mut hs: Vec<String> = delegation.hostnames.iter().map(c::name).collect();
            hs.sort();
            format!(
                "delegation {} {} {}",
                c::rrs(rrs),
                if hs.is_empty() { "-".to_string() } else { hs.join(",") },
                c::name(&delegation.name)
            )
        }
    }
}

pub fn run(r: &mut Rng, n: usize, out: &mut Out) {
    // a small universe of names around the question www.example.com
    let qn = nm(&[b"www", b"example", b"com"]);
    let names: Vec<DomainName> = vec![
        qn.clone(),
        nm(&[b"example", b"com"]),
        nm(&[b"com"]),
        DomainName::root_domain(),
        nm(&[b"w2", b"example", b"com"]),
        nm(&[b"w3", b"example", b"net"]),
        nm(&[b"victim", b"example", b"org"]),
        nm(&[b"org"]),
        nm(&[b"ns1", b"example", b"com"]),
        nm(&[b"ns2", b"example", b"net"]),
        nm(&[b"ns", b"evil", b"org"]),
        nm(&[b"a", b"www", b"example", b"com"]),
    ];
    for _ in 0..n {
        let qname = if r.chance(4, 5) { qn.clone() } else { r.pick(&names).clone() };
        let qt: u16 = *r.pick(&[1u16, 1, 1, 28, 5, 2, 255, 16, 6]);
        let q = Question { name: qname, qtype: QueryType::from(qt), qclass: QueryClass::Record(RecordClass::IN) };
        let mc = r.below(4);
        let mut m = Message::from_question(r.next_u64() as u16, q.clone()).make_response();
        m.header.rcode = Rcode::from(*r.pick(&[0u8, 0, 0, 3, 2]));
        let mut sec = |r: &mut Rng, max: usize| -> Vec<ResourceRecord> {
            let k = if r.chance(1, 3) { 0 } else { r.range(1, max) };
            (0..k)
                .map(|_| {
                    let owner = r.pick(&names).clone();
                    let data = match r.below(12) {
                        0..=2 => a(r),
                        3 => RecordTypeWithData::AAAA { address: Ipv6Addr::new(0xfd00, 0, 0, 0, 0, 0, 0, r.below(3) as u16) },
                        4..=6 => RecordTypeWithData::CNAME { cname: r.pick(&names).clone() },
                        7..=9 => RecordTypeWithData::NS { nsdname: r.pick(&names[8..11]).clone() },
                        10 => RecordTypeWithData::SOA {
                            mname: r.pick(&names).clone(),
                            rname: r.pick(&names).clone(),
                            serial: 1, refresh: 2, retry: 3, expire: 4, minimum: 60,
                        },
                        _ => {
                            let pool = gen::Pool { names: names.clone() };
                            gen::rdata(r, &pool, 8)
                        }
                    };
                    let mut x = rr(&owner, data);
                    if r.chance(1, 20) {
                        x.rclass = RecordClass::from(3);
                    }
                    x
                })
                .collect()
        };
        m.answers = sec(r, 5);
        m.authority = sec(r, 4);
        m.additional = sec(r, 4);
        let (q2, m2) = (q.clone(), m.clone());
        let text = crate::watch::text(10, move || nsresp_text(&verif_validate_nameserver_response(&q2, &m2, mc)));
        out.case(&["upstream.validate", &c::question(&q), &mc.to_string(), &c::message(&m)], &text);
        // header matching
        if r.chance(1, 3) {
            let req = Message::from_question(r.next_u64() as u16, q.clone());
            let mut resp = req.make_response();
            match r.below(9) {
                0 => resp.header.id = resp.header.id.wrapping_add(1),
                1 => resp.header.is_response = false,
                2 => resp.header.opcode = Opcode::from(r.range(1, 15) as u8),
                3 => resp.header.is_truncated = true,
                4 => resp.header.rcode = Rcode::from(*r.pick(&[1u8, 2, 4, 5, 9])),
                5 => resp.questions[0].name = r.pick(&names).clone(),
                6 => resp.questions.clear(),
                7 => resp.header.rcode = Rcode::NameError,
                _ => {
                    resp.header.is_authoritative = r.chance(1, 2);
                    resp.header.recursion_available = r.chance(1, 2);
                }
            }
            let (a, b) = (req.clone(), resp.clone());
            let text = crate::watch::text(10, move || if verif_response_matches_request(&a, &b) { "1".into() } else { "0".into() });
            out.case(&["upstream.matches", &c::message(&req), &c::message(&resp)], &text);
        }
    }
}
