//! Text codec of the line protocol shared with /verif/lean/Driver/Codec.lean.
//! Written against the public fields of the repo's types only (no repo encoder involved),
//! so that a broken wire/text codec in /repo cannot hide behind the canonicaliser.
use std::fmt::Write as _;

use dns_types::protocol::types::*;

pub fn hex(bs: &[u8]) -> String {
    if bs.is_empty() {
        return "-".to_string();
    }
    raw_hex(bs)
}

pub fn raw_hex(bs: &[u8]) -> String {
    let mut s = String::with_capacity(bs.len() * 2);
    for b in bs {
        let _ = write!(s, "{b:02x}");
    }
    s
}

pub fn unhex(s: &str) -> Option<Vec<u8>> {
    if s == "-" {
        return Some(Vec::new());
    }
    if s.len() % 2 != 0 {
        return None;
    }
    (0..s.len() / 2)
        .map(|i| u8::from_str_radix(&s[2 * i..2 * i + 2], 16).ok())
        .collect()
}

pub fn labels(ls: &[Label]) -> String {
    if ls.is_empty() {
        return "~".to_string();
    }
    let mut s = String::new();
    for l in ls {
        s.push_str(&raw_hex(l.octets()));
        s.push('.');
    }
    s
}

pub fn raw_labels(ls: &[Vec<u8>]) -> String {
    if ls.is_empty() {
        return "~".to_string();
    }
    let mut s = String::new();
    for l in ls {
        s.push_str(&raw_hex(l));
        s.push('.');
    }
    s
}

pub fn name(n: &DomainName) -> String {
    format!("{}/{}", labels(&n.labels), n.len)
}

pub fn opt_name(n: &Option<DomainName>) -> String {
    match n {
        Some(n) => name(n),
        None => "none".to_string(),
    }
}

/// (type code, fields) of an RDATA.  Known variants are mapped by hand; only `Unknown` has to go
/// through the crate's `u16::from` because its tag is private.
pub fn rdata(d: &RecordTypeWithData) -> (u16, String) {
    use RecordTypeWithData as R;
    let n = |x: &DomainName| format!("n:{}", name(x));
    let o = |x: &[u8]| format!("o:{}", hex(x));
    match d {
        R::A { address } => (1, format!("a:{}", u32::from(*address))),
        R::NS { nsdname } => (2, n(nsdname)),
        R::MD { madname } => (3, n(madname)),
        R::MF { madname } => (4, n(madname)),
        R::CNAME { cname } => (5, n(cname)),
        R::SOA {
            mname,
            rname,
            serial,
            refresh,
            retry,
            expire,
            minimum,
        } => (
            6,
            format!(
                "{},{},u32:{serial},u32:{refresh},u32:{retry},u32:{expire},u32:{minimum}",
                n(mname),
                n(rname)
            ),
        ),
        R::MB { madname } => (7, n(madname)),
        R::MG { mdmname } => (8, n(mdmname)),
        R::MR { newname } => (9, n(newname)),
        R::NULL { octets } => (10, o(octets)),
        R::WKS { octets } => (11, o(octets)),
        R::PTR { ptrdname } => (12, n(ptrdname)),
        R::HINFO { octets } => (13, o(octets)),
        R::MINFO { rmailbx, emailbx } => (14, format!("{},{}", n(rmailbx), n(emailbx))),
        R::MX {
            preference,
            exchange,
        } => (15, format!("u16:{preference},{}", n(exchange))),
        R::TXT { octets } => (16, o(octets)),
        R::AAAA { address } => {
            let s = address.segments();
            (
                28,
                format!(
                    "aaaa:{}-{}-{}-{}-{}-{}-{}-{}",
                    s[0], s[1], s[2], s[3], s[4], s[5], s[6], s[7]
                ),
            )
        }
        R::SRV {
            priority,
            weight,
            port,
            target,
        } => (
            33,
            format!("u16:{priority},u16:{weight},u16:{port},{}", n(target)),
        ),
        R::Unknown { tag, octets } => (u16::from(RecordType::Unknown(*tag)), o(octets)),
    }
}

pub fn rr(r: &ResourceRecord) -> String {
    let (code, fields) = rdata(&r.rtype_with_data);
    format!(
        "{}|{}|{}|{}|{}",
        name(&r.name),
        code,
        u16::from(r.rclass),
        r.ttl,
        fields
    )
}

pub fn rrs(rs: &[ResourceRecord]) -> String {
    if rs.is_empty() {
        return "-".to_string();
    }
    rs.iter().map(rr).collect::<Vec<_>>().join(";")
}

/// canonical (sorted) form for outputs whose order comes out of a hash map
pub fn rrs_sorted(rs: &[ResourceRecord]) -> String {
    if rs.is_empty() {
        return "-".to_string();
    }
    let mut v = rs.iter().map(rr).collect::<Vec<_>>();
    v.sort();
    v.join(";")
}

pub fn question(q: &Question) -> String {
    format!(
        "{}|{}|{}",
        name(&q.name),
        u16::from(q.qtype),
        u16::from(q.qclass)
    )
}

pub fn questions(qs: &[Question]) -> String {
    if qs.is_empty() {
        return "-".to_string();
    }
    qs.iter().map(question).collect::<Vec<_>>().join(";")
}

fn b(x: bool) -> &'static str {
    if x {
        "1"
    } else {
        "0"
    }
}

pub fn header(h: &Header) -> String {
    format!(
        "{},{},{},{},{},{},{},{}",
        h.id,
        b(h.is_response),
        u8::from(h.opcode),
        b(h.is_authoritative),
        b(h.is_truncated),
        b(h.recursion_desired),
        b(h.recursion_available),
        u8::from(h.rcode)
    )
}

pub fn message(m: &Message) -> String {
    format!(
        "H:{} Q:{} AN:{} NS:{} AR:{}",
        header(&m.header),
        questions(&m.questions),
        rrs(&m.answers),
        rrs(&m.authority),
        rrs(&m.additional)
    )
}
