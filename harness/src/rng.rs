//! One PRNG state per run: every random choice derives from it (splitmix64).
#[derive(Clone)]
pub struct Rng(pub u64);

impl Rng {
    pub fn new(seed: u64) -> Self {
        Rng(seed ^ 0x9E37_79B9_7F4A_7C15)
    }
    pub fn next_u64(&mut self) -> u64 {
        self.0 = self.0.wrapping_add(0x9E37_79B9_7F4A_7C15);
        let mut z = self.0;
        z = (z ^ (z >> 30)).wrapping_mul(0xBF58_476D_1CE4_E5B9);
        z = (z ^ (z >> 27)).wrapping_mul(0x94D0_49BB_1331_11EB);
        z ^ (z >> 31)
    }
    /// uniform in 0..n (n > 0)
    pub fn below(&mut self, n: usize) -> usize {
        (self.next_u64() % (n as u64)) as usize
    }
    /// uniform in lo..=hi
    pub fn range(&mut self, lo: usize, hi: usize) -> usize {
        lo + self.below(hi - lo + 1)
    }
    pub fn chance(&mut self, num: usize, den: usize) -> bool {
        self.below(den) < num
    }
    pub fn byte(&mut self) -> u8 {
        self.next_u64() as u8
    }
    pub fn bytes(&mut self, n: usize) -> Vec<u8> {
        (0..n).map(|_| self.byte()).collect()
    }
    pub fn pick<'a, T>(&mut self, xs: &'a [T]) -> &'a T {
        &xs[self.below(xs.len())]
    }
    pub fn fork(&mut self) -> Rng {
        Rng(self.next_u64())
    }
}
