//! Structured generators built from the repo's own types.
use bytes::Bytes;
use std::net::{Ipv4Addr, Ipv6Addr};

use dns_types::protocol::types::*;

use crate::rng::Rng;

pub fn label_bytes(r: &mut Rng, max: usize) -> Vec<u8> {
    let len = match r.below(10) {
        0 => r.range(1, max.max(1)),
        1 => max.max(1),
        _ => r.range(1, 8.min(max.max(1))),
    };
    let style = r.below(10);
    (0..len)
        .map(|_| match style {
            0 => r.byte(),
            1 => *r.pick(b"ABCDEFGHIJKLMNOPQRSTUVWXYZabcxyz019-_"),
            2 => *r.pick(b"ab@*#;()\"\\ .\t\x00\x7f\xff"),
            _ => *r.pick(b"abcdefghijklmnopqrstuvwxyz0123456789-"),
        })
        .collect()
}

pub fn label(r: &mut Rng) -> Label {
    Label::try_from(&label_bytes(r, 63)[..]).unwrap()
}

/// a well-formed absolute name (0..=max_labels labels plus the root label)
pub fn name(r: &mut Rng, max_labels: usize) -> DomainName {
    loop {
        let k = r.range(0, max_labels);
        let mut ls: Vec<Label> = (0..k).map(|_| label(r)).collect();
        ls.push(Label::new());
        if let Some(n) = DomainName::from_labels(ls) {
            return n;
        }
    }
}

/// a host-like name: ASCII lower-case letters/digits only
pub fn plain_label(r: &mut Rng) -> Label {
    let len = r.range(1, 6);
    let bs: Vec<u8> = (0..len).map(|_| *r.pick(b"abcdefghijklmnopqrstuvwxyz0123456789")).collect();
    Label::try_from(&bs[..]).unwrap()
}

pub fn plain_name(r: &mut Rng, max_labels: usize) -> DomainName {
    let k = r.range(0, max_labels);
    let mut ls: Vec<Label> = (0..k).map(|_| plain_label(r)).collect();
    ls.push(Label::new());
    DomainName::from_labels(ls).unwrap()
}

/// a name of maximal encoded length (255)
pub fn maximal_name(r: &mut Rng) -> DomainName {
    // 3 labels of 63 + 1 label of 61 → 4 + 63*3 + 61 + 1 = 255
    let mut ls = Vec::new();
    for len in [63usize, 63, 63, 61] {
        let bs: Vec<u8> = (0..len).map(|_| *r.pick(b"abcdefghij")).collect();
        ls.push(Label::try_from(&bs[..]).unwrap());
    }
    ls.push(Label::new());
    DomainName::from_labels(ls).unwrap()
}

pub struct Pool {
    pub names: Vec<DomainName>,
}

impl Pool {
    pub fn new(r: &mut Rng, n: usize) -> Self {
        let mut names = vec![DomainName::root_domain()];
        for i in 0..n {
            let nm = if i % 7 == 6 {
                maximal_name(r)
            } else if !names.is_empty() && r.chance(1, 2) {
                // a subdomain of an existing name, to exercise shared suffixes
                let base = r.pick(&names).clone();
                let mut ls = vec![label(r)];
                ls.extend(base.labels.iter().cloned());
                DomainName::from_labels(ls).unwrap_or(base)
            } else {
                name(r, 4)
            };
            names.push(nm);
        }
        // a pair of DISTINCT names with the same dotted presentation: two adjacent labels of a
        // pool name merged into one label containing a '.' octet
        if r.chance(1, 3) {
            if let Some(base) = names.iter().find(|n| n.labels.len() >= 3).cloned() {
                let mut merged = base.labels[0].octets().to_vec();
                merged.push(b'.');
                merged.extend_from_slice(base.labels[1].octets());
                if let Ok(l) = Label::try_from(&merged[..]) {
                    let mut ls = vec![l];
                    ls.extend(base.labels[2..].iter().cloned());
                    if let Some(alias) = DomainName::from_labels(ls) {
                        names.push(alias);
                    }
                }
            }
        }
        Pool { names }
    }
    pub fn name(&self, r: &mut Rng) -> DomainName {
        if r.chance(1, 8) {
            name(r, 5)
        } else {
            r.pick(&self.names).clone()
        }
    }
}

pub const KNOWN_TYPES: [u16; 18] = [1, 2, 3, 4, 5, 6, 7, 8, 9, 10, 11, 12, 13, 14, 15, 16, 28, 33];

pub fn octets(r: &mut Rng, max: usize) -> Bytes {
    let len = match r.below(8) {
        0 => 0,
        1 => r.range(0, max),
        _ => r.range(0, 16.min(max)),
    };
    Bytes::from(r.bytes(len))
}

pub fn rdata_of_type(r: &mut Rng, pool: &Pool, code: u16, max_octets: usize) -> RecordTypeWithData {
    use RecordTypeWithData as R;
    match code {
        1 => R::A { address: Ipv4Addr::from(r.next_u64() as u32) },
        2 => R::NS { nsdname: pool.name(r) },
        3 => R::MD { madname: pool.name(r) },
        4 => R::MF { madname: pool.name(r) },
        5 => R::CNAME { cname: pool.name(r) },
        6 => R::SOA {
            mname: pool.name(r),
            rname: pool.name(r),
            serial: r.next_u64() as u32,
            refresh: r.next_u64() as u32,
            retry: r.next_u64() as u32,
            expire: r.next_u64() as u32,
            minimum: if r.chance(1, 2) { r.below(1000) as u32 } else { r.next_u64() as u32 },
        },
        7 => R::MB { madname: pool.name(r) },
        8 => R::MG { mdmname: pool.name(r) },
        9 => R::MR { newname: pool.name(r) },
        10 => R::NULL { octets: octets(r, max_octets) },
        11 => R::WKS { octets: octets(r, max_octets) },
        12 => R::PTR { ptrdname: pool.name(r) },
        13 => R::HINFO { octets: octets(r, max_octets) },
        14 => R::MINFO { rmailbx: pool.name(r), emailbx: pool.name(r) },
        15 => R::MX { preference: r.next_u64() as u16, exchange: pool.name(r) },
        16 => R::TXT { octets: octets(r, max_octets) },
        28 => R::AAAA { address: Ipv6Addr::from(((r.next_u64() as u128) << 64) | r.next_u64() as u128) },
        33 => R::SRV {
            priority: r.next_u64() as u16,
            weight: r.next_u64() as u16,
            port: r.next_u64() as u16,
            target: pool.name(r),
        },
        other => match RecordType::from(other) {
            RecordType::Unknown(tag) => R::Unknown { tag, octets: octets(r, max_octets) },
            _ => unreachable!(),
        },
    }
}

pub fn rtype_code(r: &mut Rng) -> u16 {
    match r.below(10) {
        0 => r.next_u64() as u16,
        1 => *r.pick(&[0u16, 17, 27, 29, 32, 34, 251, 252, 253, 254, 255, 256, 65535]),
        _ => *r.pick(&KNOWN_TYPES),
    }
}

pub fn rdata(r: &mut Rng, pool: &Pool, max_octets: usize) -> RecordTypeWithData {
    let mut code = rtype_code(r);
    // RecordType::from maps known codes to known variants; keep "unknown" codes unknown
    if !KNOWN_TYPES.contains(&code) && !matches!(RecordType::from(code), RecordType::Unknown(_)) {
        code = 1;
    }
    rdata_of_type(r, pool, code, max_octets)
}

pub fn rclass(r: &mut Rng) -> RecordClass {
    match r.below(8) {
        0 => RecordClass::from(r.next_u64() as u16),
        1 => RecordClass::from(*r.pick(&[0u16, 2, 3, 4, 254, 255, 65535])),
        _ => RecordClass::IN,
    }
}

pub fn ttl(r: &mut Rng) -> u32 {
    match r.below(6) {
        0 => 0,
        1 => u32::MAX,
        2 => r.next_u64() as u32,
        _ => r.below(100_000) as u32,
    }
}

pub fn rr(r: &mut Rng, pool: &Pool, max_octets: usize) -> ResourceRecord {
    ResourceRecord {
        name: pool.name(r),
        rtype_with_data: rdata(r, pool, max_octets),
        rclass: rclass(r),
        ttl: ttl(r),
    }
}

pub fn question(r: &mut Rng, pool: &Pool) -> Question {
    Question {
        name: pool.name(r),
        qtype: QueryType::from(rtype_code(r)),
        qclass: QueryClass::from(u16::from(rclass(r))),
    }
}

pub fn header(r: &mut Rng) -> Header {
    Header {
        id: r.next_u64() as u16,
        is_response: r.chance(1, 2),
        opcode: Opcode::from(r.below(16) as u8),
        is_authoritative: r.chance(1, 2),
        is_truncated: r.chance(1, 2),
        recursion_desired: r.chance(1, 2),
        recursion_available: r.chance(1, 2),
        rcode: Rcode::from(r.below(16) as u8),
    }
}

pub fn message(r: &mut Rng, max_rrs: usize, max_octets: usize) -> Message {
    let pn = r.range(1, 6);
    let pool = Pool::new(r, pn);
    let nq = *r.pick(&[0usize, 1, 1, 1, 1, 2, 3]);
    let mut m = Message {
        header: header(r),
        questions: (0..nq).map(|_| question(r, &pool)).collect(),
        answers: Vec::new(),
        authority: Vec::new(),
        additional: Vec::new(),
    };
    for sec in 0..3 {
        let k = if r.chance(1, 3) { 0 } else { r.range(0, max_rrs) };
        let v: Vec<ResourceRecord> = (0..k).map(|_| rr(r, &pool, max_octets)).collect();
        match sec {
            0 => m.answers = v,
            1 => m.authority = v,
            _ => m.additional = v,
        }
    }
    m
}
