//! vharness: generates cases from one PRNG state, calls the real code in-process and prints
//! one protocol line per case:  cmd \t arg… \t implOutput
mod codec;
mod gen;
mod isolate;
mod rng;
mod streams;
mod watch;

use std::io::Write;

pub struct Out {
    w: std::io::BufWriter<std::io::Stdout>,
    pub count: usize,
}

impl Out {
    pub fn case(&mut self, input: &[&str], impl_out: &str) {
        let mut line = input.join("\t");
        line.push('\t');
        line.push_str(impl_out);
        line.push('\n');
        self.w.write_all(line.as_bytes()).unwrap();
        self.count += 1;
        // six calls that never returned are evidence enough: stop the stream here instead of piling up
        // spinning threads and watchdog waits (the cases so far, hangs included, are all reported)
        if watch::HANGS.load(std::sync::atomic::Ordering::SeqCst) >= 6 {
            self.w.flush().unwrap();
            std::process::exit(0);
        }
    }
}

fn main() {
    let args: Vec<String> = std::env::args().collect();
    if args.len() < 4 {
        eprintln!("usage: vharness <stream> <seed> <n> [extra]");
        std::process::exit(2);
    }
    let stream = args[1].as_str();
    let seed: u64 = args[2].parse().expect("seed");
    let n: usize = args[3].parse().expect("n");
    let extra: usize = args.get(4).and_then(|s| s.parse().ok()).unwrap_or(0);
    let mut r = rng::Rng::new(seed);
    let mut out = Out { w: std::io::BufWriter::new(std::io::stdout()), count: 0 };
    match stream {
        "child-ztext" => return isolate::child_main(streams::ztext::parse_text_of),
        "child-hosts" => return isolate::child_main(streams::hosts::parse_text_of),
        "name" => streams::name::run(&mut r, n, &mut out),
        "wire-decode" => streams::wire::run_decode(&mut r, n, &mut out),
        "wire-mutations" => streams::wire::run_decode_mutations(&mut r, n, &mut out),
        "wire-encode" => streams::wire::run_encode(&mut r, n, extra, &mut out),
        "zone-resolve" => streams::zone::run_resolve(&mut r, n, &mut out),
        "zones-merge" => streams::zone::run_merge(&mut r, n, &mut out),
        "cache" => streams::cache::run(&mut r, n, &mut out),
        "cache-threads" => streams::cache::run_threads(&mut r, n, &mut out),
        "upstream" => streams::upstream::run(&mut r, n, &mut out),
        "resolve-local" => streams::resolve::run(&mut r, n, "local", &mut out),
        "resolve-universe" => streams::resolve::run(&mut r, n, "universe", &mut out),
        "resolve-mutual-real" => streams::resolve::run(&mut r, n, "mutual-real", &mut out),
        "resolve-mutual" => streams::resolve::run(&mut r, n, "mutual", &mut out),
        "resolve-faults" => streams::resolve::run(&mut r, n, "faults", &mut out),
        "server" => streams::server::run_serve(&mut r, n, &mut out),
        "reload" => streams::server::run_reload(&mut r, n, &mut out),
        "wire-deep" => streams::wire::run_deep(n, &mut out),
        "tables" => streams::name::run_tables(&mut out),
        "hosts" => streams::hosts::run(&mut r, n, &mut out),
        "ip" => streams::hosts::run_ip(&mut r, n, &mut out),
        "config-load" => streams::server::run_config_load(&mut r, n, &mut out),
        "ztext" => streams::ztext::run_rendered(&mut r, n, &mut out),
        "ztext-roundtrip" => streams::ztext::run_roundtrip(&mut r, n, &mut out),
        "ztext-fuzz" => streams::ztext::run_fuzz(&mut r, n, &mut out),
        "server-fwd" => streams::server::run_forward(&mut r, n, &mut out),
        "bins-zone" => streams::bins::run(&mut r, n, true, &mut out),
        "bins-hosts" => streams::bins::run(&mut r, n, false, &mut out),
        "server-deep" => streams::server::run_server_deep(&mut out),
        "reload-live" => streams::server::run_reload_live(&mut r, n, &mut out),
        "reload-blocked" => streams::server::run_reload_blocked(&mut r, n, &mut out),
        other => {
            eprintln!("unknown stream {other}");
            std::process::exit(2);
        }
    }
    out.w.flush().unwrap();
    eprintln!("cases={}", out.count);
}
