import Resolved.Generated
import Resolved.Model.Name
import Resolved.Model.Wire
