-- root of the `Resolved` library: generated constants, every model and spec module
import Resolved.Generated
import Resolved.Model.Cache
import Resolved.Model.Hosts
import Resolved.Model.Name
import Resolved.Model.Resolver
import Resolved.Model.Server
import Resolved.Model.Upstream
import Resolved.Model.Wire
import Resolved.Model.Zone
import Resolved.Spec.CacheSpec
import Resolved.Spec.HostsSpec
import Resolved.Spec.RefDecode
import Resolved.Spec.UpstreamSpec
import Resolved.Spec.Wire
import Resolved.Spec.ZoneSpec
