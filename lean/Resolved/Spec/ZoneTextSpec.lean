/-
  Independent specification of the meaning of a zone file (RFC 1035 §5) for C11.

  * `Directive` — the abstract syntax of a master file: what is *written* (`$ORIGIN`, `$INCLUDE`,
    records with optional owner / TTL / class, names in absolute / relative / `@` form).
  * `render ds v` — the concrete text of `ds` in the lexical variant `v` (field order, quoting and
    escaping of every token, separators, parenthesised multi-line layout, comments, blank lines,
    line ends).  The variant never changes what is written, only how.
  * `denote ds` — what RFC 1035 §5 says the file means: origin resolution, inheritance of omitted
    owner / TTL, wildcard owners, SOA ⇒ authoritative apex, TTLs raised to the SOA MINIMUM (the SOA
    record itself carries its MINIMUM, decision D9), and the documented rejections.
  * `Unambiguous ds` — the decidable side condition under which `parse (render ds v)` is claimed to
    equal `denote ds` (an explicit owner token is not `IN`, not all digits, not a directive keyword,
    does not begin with `*`; no RDATA token spells a record type; labels are ASCII without `.`; …).

  Written without reference to Model/ZoneText.lean (it shares only the data types `Name`, `FieldVal`,
  `SOA` and the integer / address formatters of Model/IpText.lean).  Core Lean only.
-/
import Resolved.Model.Zone
import Resolved.Model.IpText

namespace Resolved.ZTSpec

open Resolved Resolved.IpText

/-! ## Abstract syntax -/

/-- a domain name as written. -/
inductive NameRef where
  | abs (labels : List Label)      -- `l1.l2.…ln.` (`abs []` is the root `.`)
  | rel (labels : List Label)      -- `l1.l2.…ln`, relative to the current origin
  | at                             -- `@`
deriving DecidableEq, Repr, Inhabited

/-- the owner field as written. -/
inductive OwnerRef where
  | name (n : NameRef)
  | wild (n : NameRef)             -- `*.<n>`
  | star                           -- `*` (wildcard beneath the origin)
deriving DecidableEq, Repr, Inhabited

/-- one RDATA field as written. -/
inductive RField where
  | name (n : NameRef)
  | u16 (n : Nat)
  | u32 (n : Nat)
  | a (addr : Nat)
  | aaaa (groups : List Nat)
  | octets (bs : List UInt8)
deriving DecidableEq, Repr, Inhabited

structure Rec where
  owner : Option OwnerRef
  ttl : Option Nat
  cls : Option (List UInt8)        -- the class token as written (`IN` = [73, 78])
  rtype : Nat
  rdata : List RField
deriving DecidableEq, Repr, Inhabited

inductive Directive where
  | origin (n : NameRef)
  | include (path : List UInt8) (origin : Option NameRef)
  | record (r : Rec)
  | blank (comment : Option (List Char))   -- an empty or comment-only line
deriving DecidableEq, Repr, Inhabited

/-! ## Lexical variants -/

/-- how one octet of a token is written. -/
inductive OForm where
  | bare
  | backslash      -- `\X`
  | decimal        -- `\DDD`
deriving DecidableEq, Repr, Inhabited

/-- how one token is written: quoted or not, and the per-octet forms (used cyclically; an octet that
    cannot be written in the requested form is written as `\DDD`). -/
structure TokVar where
  quoted : Bool := false
  pattern : List OForm := []
deriving DecidableEq, Repr, Inhabited

/-- lexical variant of one directive line. -/
structure LineVar where
  classFirst : Bool := false       -- `<class> <ttl>` rather than `<ttl> <class>`
  typeNumeric : Bool := false      -- `TYPE<n>` rather than the mnemonic
  aaaaFull : Bool := false         -- eight full groups rather than the compressed form
  toks : List TokVar := []         -- per token, cyclic
  seps : List Nat := []            -- separator kinds per gap, cyclic
  openAt : Nat := 0                -- 0: one line; k ≥ 1: `(` in the gap before token k
  closeAt : Nat := 0               -- `)` after token closeAt (clipped to openAt .. last)
  nlMask : Nat := 0                -- bit k: the gap before token k, inside the parentheses, is a line break
  nlComment : Bool := false        -- a comment precedes those line breaks
  comment : Option (List Char) := none   -- trailing comment
deriving DecidableEq, Repr, Inhabited

structure FileVar where
  lines : List LineVar := []       -- per directive, cyclic
  crlf : Bool := false
  finalNewline : Bool := true
deriving DecidableEq, Repr, Inhabited

/-! ## Rendering -/

def cyc {α} [Inhabited α] (xs : List α) (i : Nat) : α :=
  if xs.isEmpty then default else (xs[i % xs.length]?).getD default

/-- the role of one octet of a token.  RFC 1035 §5.1: `\X` quotes a character "so that its special
    meaning does not apply"; so an octet that *has* a special meaning in its position (the dots
    between labels, a free-standing `@`, the `*.` of a wildcard owner) must be written bare, and a
    label octet that would otherwise be taken for one (`.` inside a label, a relative name that is
    the single octet `@`) must be written escaped. -/
inductive AKind where
  | plain          -- any form the lexical rules allow
  | structural     -- always bare
  | literal        -- never bare
deriving DecidableEq, Repr, Inhabited

abbrev Atom := UInt8 × AKind

def isWs (b : UInt8) : Bool := (9 ≤ b.toNat && b.toNat ≤ 13) || b.toNat == 32

/-- may octet `b` at position `i` of a token stand for itself (lexically)? -/
def bareOk (quoted : Bool) (i : Nat) (b : UInt8) : Bool :=
  b.toNat < 128 && b != 92 &&
  (if quoted then b != 34
   else !isWs b && b != 59 && (i != 0 || (b != 40 && b != 41 && b != 34)))

def isDigitOctet (b : UInt8) : Bool := 48 ≤ b.toNat && b.toNat ≤ 57

def decimalEscape (b : UInt8) : List Char :=
  ['\\', Char.ofNat (48 + b.toNat / 100), Char.ofNat (48 + b.toNat / 10 % 10), Char.ofNat (48 + b.toNat % 10)]

def renderOctet (quoted : Bool) (f : OForm) (i : Nat) (a : Atom) : List Char :=
  let b := a.1
  match a.2 with
  | .structural => [Char.ofNat b.toNat]
  | k =>
    match f with
    | .bare => if k == .plain && bareOk quoted i b then [Char.ofNat b.toNat] else decimalEscape b
    | .backslash => if b.toNat < 128 && !isDigitOctet b then ['\\', Char.ofNat b.toNat] else decimalEscape b
    | .decimal => decimalEscape b

def renderOctetsFrom (quoted : Bool) (pattern : List OForm) : Nat → List Atom → List Char
  | _, [] => []
  | i, a :: as => renderOctet quoted (cyc pattern i) i a ++ renderOctetsFrom quoted pattern (i + 1) as

/-- one token.  An empty token can only be written quoted. -/
def renderToken (tv : TokVar) (atoms : List Atom) : List Char :=
  let quoted := tv.quoted || atoms.isEmpty
  (if quoted then ['"'] else []) ++ renderOctetsFrom quoted tv.pattern 0 atoms ++ (if quoted then ['"'] else [])

def plainAtoms (bs : List UInt8) : List Atom := bs.map (fun b => (b, .plain))

def asciiOctets (s : List Char) : List UInt8 := s.map (fun c => UInt8.ofNat c.toNat)

def clsIN : List UInt8 := [73, 78]

def asciiAtoms (s : List Char) : List Atom := plainAtoms (asciiOctets s)

def labelAtoms (l : Label) : List Atom := l.map (fun b => (b, if b == 46 then .literal else .plain))

def dot : Atom := (46, .structural)

def dottedLabels : List Label → List Atom
  | [] => []
  | [l] => labelAtoms l
  | l :: ls => labelAtoms l ++ [dot] ++ dottedLabels ls

/-- the text of a name. -/
def nameAtoms : NameRef → List Atom
  | .abs [] => [dot]
  | .abs ls => dottedLabels ls ++ [dot]
  | .rel [[64]] => [(64, .literal)]
  | .rel ls => dottedLabels ls
  | .at => [(64, .structural)]

def ownerAtoms : OwnerRef → List Atom
  | .name n => nameAtoms n
  | .wild n => [(42, .structural), dot] ++ nameAtoms n
  | .star => [(42, .structural)]

/-- the octets of a token (what the tokeniser should hand to the parser). -/
def atomOctets (as : List Atom) : List UInt8 := as.map (·.1)

def nameText (n : NameRef) : List UInt8 := atomOctets (nameAtoms n)

def mnemonics : List (Nat × List Char) :=
  [(1, ['A']), (2, ['N', 'S']), (3, ['M', 'D']), (4, ['M', 'F']), (5, ['C', 'N', 'A', 'M', 'E']),
   (6, ['S', 'O', 'A']), (7, ['M', 'B']), (8, ['M', 'G']), (9, ['M', 'R']), (10, ['N', 'U', 'L', 'L']),
   (11, ['W', 'K', 'S']), (12, ['P', 'T', 'R']), (13, ['H', 'I', 'N', 'F', 'O']),
   (14, ['M', 'I', 'N', 'F', 'O']), (15, ['M', 'X']), (16, ['T', 'X', 'T']), (28, ['A', 'A', 'A', 'A']),
   (33, ['S', 'R', 'V'])]

def mnemonicOf (code : Nat) : Option (List Char) :=
  (mnemonics.find? (fun p => p.1 == code)).map (·.2)

def typeText (numeric : Bool) (code : Nat) : List Char :=
  match numeric, mnemonicOf code with
  | false, some m => m
  | _, _ => ['T', 'Y', 'P', 'E'] ++ showDec code

/-- the uncompressed text of an IPv6 address: its eight groups in hex, separated by colons
    (`Ip.fmtSubslice` of Model/Hosts.lean writes exactly that). -/
def fullGroups (gs : List Nat) : List Char := bytesAsChars (Ip.fmtSubslice gs)

def fieldAtoms (lv : LineVar) : RField → List Atom
  | .name n => nameAtoms n
  | .u16 n => asciiAtoms (showDec n)
  | .u32 n => asciiAtoms (showDec n)
  | .a addr => asciiAtoms (showIpv4 addr)
  | .aaaa gs => asciiAtoms (if lv.aaaaFull then fullGroups gs else showIpv6 gs)
  | .octets bs => plainAtoms bs

def fieldText (lv : LineVar) (f : RField) : List UInt8 := atomOctets (fieldAtoms lv f)

/-- the tokens of a directive, in the order written. -/
def directiveTokens (lv : LineVar) : Directive → List (List Atom)
  | .origin n => [asciiAtoms ['$', 'O', 'R', 'I', 'G', 'I', 'N'], nameAtoms n]
  | .include path o =>
    [asciiAtoms ['$', 'I', 'N', 'C', 'L', 'U', 'D', 'E'], plainAtoms path]
      ++ (match o with | some n => [nameAtoms n] | none => [])
  | .record r =>
    let owner := match r.owner with | some o => [ownerAtoms o] | none => []
    let ttl := match r.ttl with | some t => [asciiAtoms (showDec t)] | none => []
    let cls := match r.cls with | some c => [plainAtoms c] | none => []
    owner ++ (if lv.classFirst then cls ++ ttl else ttl ++ cls) ++ [asciiAtoms (typeText lv.typeNumeric r.rtype)]
      ++ r.rdata.map (fieldAtoms lv)
  | .blank _ => []

def sepText (k : Nat) : List Char :=
  match k % 4 with
  | 0 => [' ']
  | 1 => ['\t']
  | 2 => [' ', ' ']
  | _ => [' ', '\t', ' ']

def commentText (c : List Char) : List Char := [';'] ++ c

/-- the gap before token `k` (`1 ≤ k < n`). -/
def gapText (lv : LineVar) (eol : List Char) (n k : Nat) : List Char :=
  let sep := sepText (cyc lv.seps k)
  let close := if lv.openAt = 0 then 0 else min (max lv.closeAt lv.openAt) (n - 1)
  if lv.openAt = 0 ∨ lv.openAt ≥ n then sep
  else if k = lv.openAt then sep ++ ['('] ++ sep
  else if lv.openAt < k ∧ k ≤ close then
    if lv.nlMask.testBit k then
      (if lv.nlComment then [' '] ++ commentText [' ', '(', 'c', ' ', '"'] else []) ++ eol ++ sep
    else sep
  else if k = close + 1 then sep ++ [')'] ++ sep
  else sep

def renderTokensFrom (lv : LineVar) (eol : List Char) (n : Nat) : Nat → List (List Atom) → List Char
  | _, [] => []
  | k, t :: ts =>
    (if k = 0 then [] else gapText lv eol n k) ++ renderToken (cyc lv.toks k) t
      ++ renderTokensFrom lv eol n (k + 1) ts

/-- does the line begin with blank space (RFC 1035: the owner is omitted)? -/
def ownerOmitted : Directive → Bool
  | .record r => r.owner.isNone
  | _ => false

/-- one directive line without its line end. -/
def renderLine (lv : LineVar) (eol : List Char) (d : Directive) : List Char :=
  match d with
  | .blank c => match c with | some c => commentText c | none => []
  | _ =>
    let toks := directiveTokens lv d
    let n := toks.length
    let close := if lv.openAt = 0 ∨ lv.openAt ≥ n then 0 else min (max lv.closeAt lv.openAt) (n - 1)
    (if ownerOmitted d then sepText (cyc lv.seps 0) else [])
      ++ renderTokensFrom lv eol n 0 toks
      ++ (if lv.openAt ≠ 0 ∧ lv.openAt < n ∧ close = n - 1 then [' ', ')'] else [])
      ++ (match lv.comment with | some c => [' '] ++ commentText c | none => [])

def renderFrom (v : FileVar) (eol : List Char) : Nat → List Directive → List Char
  | _, [] => []
  | i, [d] => renderLine (cyc v.lines i) eol d ++ (if v.finalNewline then eol else [])
  | i, d :: ds => renderLine (cyc v.lines i) eol d ++ eol ++ renderFrom v eol (i + 1) ds

/-- the text of a directive list in a lexical variant. -/
def render (ds : List Directive) (v : FileVar) : List Char :=
  renderFrom v (if v.crlf then ['\r', '\n'] else ['\n']) 0 ds

/-! ## Meaning -/

inductive SpecError where
  | includeUnsupported
  | classNotIN
  | multipleSOA
  | wildcardSOA
  | outsideApex
  | noOrigin
  | noTTL
  | noOwner
  | badName         -- a label longer than 63 octets, an empty label, or a name longer than 255
  | badRdata        -- RDATA that does not fit the record type
deriving DecidableEq, Repr, Inhabited

/-- one record of the meaning. -/
structure FlatRecord where
  owner : Name
  rtype : Nat
  fields : List FieldVal
  ttl : Nat
deriving DecidableEq, Repr, Inhabited

/-- what a zone file means. -/
structure Meaning where
  apex : Name
  soa : Option SOA
  records : List FlatRecord          -- including the SOA record at the apex
  wildcards : List FlatRecord        -- owner = the name beneath which the wildcard applies
deriving DecidableEq, Repr, Inhabited

def lowerLabel (l : Label) : Label :=
  l.map (fun b => if 65 ≤ b.toNat ∧ b.toNat ≤ 90 then UInt8.ofNat (b.toNat + 32) else b)

/-- a fully qualified name from its non-root labels (names are case-insensitive: canonical lower case). -/
def mkName (labels : List Label) : Except SpecError Name :=
  let ls := labels.map lowerLabel
  let len := (ls.map (fun l => l.length + 1)).sum + 1
  if ls.all (fun l => 1 ≤ l.length ∧ l.length ≤ 63) ∧ len ≤ 255 then .ok ⟨ls ++ [[]], len⟩
  else .error .badName

def resolve (origin : Option Name) : NameRef → Except SpecError Name
  | .abs ls => mkName ls
  | .rel ls =>
    match origin with
    | some o => mkName (ls ++ o.labels.dropLast)
    | none => .error .noOrigin
  | .at =>
    match origin with
    | some o => .ok o
    | none => .error .noOrigin

/-- (is wildcard, name) -/
def resolveOwner (origin : Option Name) : OwnerRef → Except SpecError (Bool × Name)
  | .name n => (resolve origin n).map (fun x => (false, x))
  | .wild n => (resolve origin n).map (fun x => (true, x))
  | .star =>
    match origin with
    | some o => .ok (true, o)
    | none => .error .noOrigin

def resolveField (origin : Option Name) : RField → Except SpecError FieldVal
  | .name n => (resolve origin n).map .name
  | .u16 n => .ok (.u16 n)
  | .u32 n => .ok (.u32 n)
  | .a x => .ok (.a x)
  | .aaaa gs => .ok (.aaaa gs)
  | .octets bs => .ok (.opaque bs)

def resolveFields (origin : Option Name) : List RField → Except SpecError (List FieldVal)
  | [] => .ok []
  | f :: fs =>
    match resolveField origin f, resolveFields origin fs with
    | .ok v, .ok vs => .ok (v :: vs)
    | .error e, _ => .error e
    | _, .error e => .error e

/-- RDATA shape of each supported type (RFC 1035 §3.3, RFC 3596, RFC 2782): `n` name, `h` u16,
    `w` u32, `a`, `q` (AAAA), `o` octets. -/
def rdataShape (code : Nat) : Option (List Char) :=
  match code with
  | 1 => some ['a']
  | 2 | 3 | 4 | 5 | 7 | 8 | 9 | 12 => some ['n']
  | 6 => some ['n', 'n', 'w', 'w', 'w', 'w', 'w']
  | 10 | 11 | 13 | 16 => some ['o']
  | 14 => some ['n', 'n']
  | 15 => some ['h', 'n']
  | 28 => some ['q']
  | 33 => some ['h', 'h', 'h', 'n']
  | _ => none

def fieldFits : Char → RField → Bool
  | 'n', .name _ => true
  | 'h', .u16 n => n < 65536
  | 'w', .u32 n => n < 4294967296
  | 'a', .a x => x < 4294967296
  | 'q', .aaaa gs => gs.length == 8 && gs.all (· < 65536)
  | 'o', .octets _ => true
  | _, _ => false

def rdataFits (code : Nat) (fs : List RField) : Bool :=
  match rdataShape code with
  | some shape => shape.length == fs.length && (shape.zip fs).all (fun p => fieldFits p.1 p.2)
  | none => false

structure DenoteState where
  origin : Option Name := none
  prevOwner : Option (Bool × Name) := none
  prevTtl : Option Nat := none
  soa : Option (Name × SOA) := none
  records : List FlatRecord := []       -- in file order
  wildcards : List FlatRecord := []
deriving Repr, Inhabited

def soaOf : List FieldVal → Option SOA
  | [.name mname, .name rname, .u32 serial, .u32 refresh, .u32 retry, .u32 expire, .u32 minimum] =>
    some { mname, rname, serial, refresh, retry, expire, minimum }
  | _ => none

/-- the meaning of one record line in the context of what precedes it. -/
def denoteRecord (st : DenoteState) (r : Rec) : Except SpecError DenoteState :=
  match r.cls with
  | some c => if c ≠ clsIN then .error .classNotIN else denoteRecordIN
  | none => denoteRecordIN
where
  denoteRecordIN : Except SpecError DenoteState :=
    let owner : Except SpecError (Bool × Name) :=
      match r.owner with
      | some o => resolveOwner st.origin o
      | none => match st.prevOwner with | some p => .ok p | none => .error .noOwner
    match owner with
    | .error e => .error e
    | .ok (wild, name) =>
      if !rdataFits r.rtype r.rdata then .error .badRdata
      else
      match resolveFields st.origin r.rdata with
      | .error e => .error e
      | .ok fields =>
        if r.rtype = 6 then
          match soaOf fields with
          | none => .error .badRdata
          | some soa =>
            if wild then .error .wildcardSOA
            else if st.soa.isSome then .error .multipleSOA
            else
              .ok { st with prevOwner := some (wild, name), prevTtl := some soa.minimum,
                            soa := some (name, soa) }
        else
          let ttl : Except SpecError Nat :=
            match r.ttl with
            | some t => .ok t
            | none => match st.prevTtl with | some t => .ok t | none => .error .noTTL
          match ttl with
          | .error e => .error e
          | .ok ttl =>
            let fr : FlatRecord := { owner := name, rtype := r.rtype, fields, ttl }
            .ok (if wild then { st with prevOwner := some (wild, name), prevTtl := some ttl,
                                        wildcards := st.wildcards ++ [fr] }
                 else { st with prevOwner := some (wild, name), prevTtl := some ttl,
                                records := st.records ++ [fr] })

def denoteDirective (st : DenoteState) : Directive → Except SpecError DenoteState
  | .origin n =>
    match resolve st.origin n with
    | .ok o => .ok { st with origin := some o }
    | .error e => .error e
  | .include _ _ => .error .includeUnsupported
  | .record r => denoteRecord st r
  | .blank _ => .ok st

def denoteAll : DenoteState → List Directive → Except SpecError DenoteState
  | st, [] => .ok st
  | st, d :: ds =>
    match denoteDirective st d with
    | .ok st' => denoteAll st' ds
    | .error e => .error e

def isSuffix (apex name : Name) : Bool := apex.labels.isSuffixOf name.labels

def dedup {α} [DecidableEq α] : List α → List α
  | [] => []
  | x :: xs => x :: (dedup xs).filter (· ≠ x)

/-- the meaning of a zone file. -/
def denote (ds : List Directive) : Except SpecError Meaning :=
  match denoteAll {} ds with
  | .error e => .error e
  | .ok st =>
    let apex := match st.soa with | some (a, _) => a | none => Name.root
    let minimum := match st.soa with | some (_, s) => s.minimum | none => 0
    if !(st.records ++ st.wildcards).all (fun r => isSuffix apex r.owner) then .error .outsideApex
    else
      let clamp (r : FlatRecord) : FlatRecord := { r with ttl := max minimum r.ttl }
      let soaRec : List FlatRecord :=
        match st.soa with
        | some (a, s) => [{ owner := a, rtype := 6, fields := s.toFields, ttl := s.minimum }]
        | none => []
      .ok { apex, soa := st.soa.map (·.2), records := dedup (soaRec ++ st.records.map clamp),
            wildcards := dedup (st.wildcards.map clamp) }

/-- index (in `ds`) and error of the first directive that `denote` rejects, if it is a directive. -/
def firstError : DenoteState → Nat → List Directive → Option (Nat × SpecError)
  | _, _, [] => none
  | st, i, d :: ds =>
    match denoteDirective st d with
    | .ok st' => firstError st' (i + 1) ds
    | .error e => some (i, e)

/-! ## Side condition -/

/-- `dots`: are `.` octets allowed inside labels (relaxed condition, see `UnambiguousRelaxed`)? -/
def labelOk (dots : Bool) (l : Label) : Bool :=
  1 ≤ l.length && l.length ≤ 63 && l.all (fun b => b.toNat < 128 && (dots || b != 46))

def nameRefOk (dots : Bool) : NameRef → Bool
  | .abs ls => ls.all (labelOk dots)
  | .rel ls => !ls.isEmpty && ls.all (labelOk dots) && (dots || ls != [[64]])
  | .at => true

def firstLabelStar : NameRef → Bool
  | .abs (l :: _) => l == [42]
  | .rel (l :: _) => l == [42]
  | _ => false

def allDigitOctets (t : List UInt8) : Bool := t.all isDigitOctet

/-- does a token spell a record type (mnemonic or `TYPE…`)? -/
def spellsType (t : List UInt8) : Bool :=
  mnemonics.any (fun p => asciiOctets p.2 == t) || t.take 4 == asciiOctets ['T', 'Y', 'P', 'E']

def ownerRefOk (dots : Bool) : OwnerRef → Bool
  | .name n =>
    nameRefOk dots n && !firstLabelStar n && nameText n != clsIN && !allDigitOctets (nameText n)
      && !spellsType (nameText n)
      && nameText n != asciiOctets ['$', 'O', 'R', 'I', 'G', 'I', 'N']
      && nameText n != asciiOctets ['$', 'I', 'N', 'C', 'L', 'U', 'D', 'E']
  | .wild n => nameRefOk dots n
  | .star => true

def knownClasses : List (List UInt8) := [[73, 78], [67, 72], [72, 83], [67, 83]]   -- IN CH HS CS

def fieldOk (dots : Bool) (lv : LineVar) (f : RField) : Bool :=
  (match f with | .name n => nameRefOk dots n | _ => true) && !spellsType (fieldText lv f)

def directiveOk (dots : Bool) : Directive → Bool
  | .origin n => nameRefOk dots n
  | .include _ o => (match o with | some n => nameRefOk dots n | none => true)
  | .record r =>
    (match r.owner with | some o => ownerRefOk dots o | none => true)
      && (match r.ttl with | some t => t < 4294967296 | none => true)
      && (match r.cls with | some c => knownClasses.contains c | none => true)
      && rdataFits r.rtype r.rdata
      && r.rdata.all (fun f => fieldOk dots {} f && fieldOk dots { aaaaFull := true } f)
  | .blank c => (match c with | some c => !c.contains '\n' | none => true)

def noNameError (ds : List Directive) : Bool :=
  match firstError {} 0 ds with
  | some (_, .badName) => false
  | some (_, .badRdata) => false
  | _ => true

/-- the side condition of `parse (render ds v) = denote ds`. -/
def Unambiguous (ds : List Directive) : Bool := ds.all (directiveOk false) && noNameError ds

/-- the same with `.` allowed inside labels (written `\.` / `\046`) and the relative name `\@`:
    by RFC 1035 §5.1 the quoted character loses its special meaning.  The implementation un-escapes
    in the tokeniser and so splits such a label / takes `\@` for the origin: candidate finding
    C11-K2 (reported separately; not part of the claimed theorem). -/
def UnambiguousRelaxed (ds : List Directive) : Bool := ds.all (directiveOk true) && noNameError ds

/-- the situation of known finding C11-K1: the first rejected directive is a record of a class other
    than IN whose owner is omitted and whose class token is the first token of the line. -/
def isK1 (ds : List Directive) (v : FileVar) : Bool :=
  match firstError {} 0 ds with
  | some (i, .classNotIN) =>
    match ds[i]? with
    | some (.record r) => r.owner.isNone && (r.ttl.isNone || (cyc v.lines i).classFirst)
    | _ => false
  | _ => false

end Resolved.ZTSpec
