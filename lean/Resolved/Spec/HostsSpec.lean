/-
  Independent, split-based reading of hosts(5) (C14).  No state machine, no byte offsets:

  per line
    * cut the line at the first `#` (the rest is comment);
    * split what is left on ASCII whitespace (space, \t, \n, VT, FF, \r), dropping empty pieces;
    * no field                         → ignored (blank / comment-only line);
    * first field contains `%` after its first character
                                       → skipped (interface-scoped address), whatever follows;
    * one field, directly followed by the end of the line or by the comment
                                       → ignored (address-only line; the field is not even examined);
    * otherwise the first field must be an IPv4 or IPv6 address (`CouldNotParseAddress` if not) and
      every further field a name relative to the root (`CouldNotParseName` for the first bad one);
      the line maps the address to each of these names;
  per file
    * lines end at `\n`; a `\r` directly before that `\n` belongs to the line ending; a final
      line without `\n` counts, an empty final piece does not;
    * the first bad line (in file order) decides the error;
    * the mappings are applied in file order, the LAST mapping per (name, address family) stays.

  Points where the property text is silent and the specification follows the implementation
  (reported as D-H1..D-H3 in the claim):
    D-H1  a single field that is followed by white space (`garbage ␠`) IS examined and must be an
          address (error otherwise), although the line maps nothing; `garbage` and `garbage#c` are
          ignored unexamined.
    D-H2  `%` in the first field skips the line without validating the part before `%`
          (`zzz%eth0 name` is skipped, not an error); a `%` that is the very first character of the
          field is not a suffix of anything and is an ordinary character (`%eth0 name` is
          `CouldNotParseAddress`, `%a%b name` is skipped).
    D-H3  non-ASCII characters are an error (`ExpectedAscii`) exactly when they occur: in a field
          (before the `%` for a skipped line; nothing after a `%` in the first field is looked at),
          or as the first non-`#` character after the first `#` (the implementation looks one
          character into the comment).  Deeper inside a comment they are ignored.
-/
import Resolved.Model.Hosts

namespace Resolved.HSpec

open Resolved Resolved.HostsM

/-- ASCII white space of hosts(5): space, \t, \n, VT, FF, \r. -/
def ws (c : Char) : Bool := [32, 9, 10, 11, 12, 13].contains c.toNat

def hash (c : Char) : Bool := c.toNat == 35
def percent (c : Char) : Bool := c.toNat == 37
def ascii (c : Char) : Bool := c.toNat < 128

/-- the line up to (excluding) the first `#`. -/
def body (l : List Char) : List Char := l.takeWhile (fun c => !hash c)

/-- the comment: from the first `#` on (empty when there is none). -/
def comment (l : List Char) : List Char := l.dropWhile (fun c => !hash c)

/-- split at every white-space character (empty pieces kept). -/
def splitRaw : List Char → List (List Char)
  | [] => [[]]
  | c :: cs =>
    if ws c then [] :: splitRaw cs
    else
      match splitRaw cs with
      | [] => [[c]]            -- unreachable: `splitRaw` is never empty
      | p :: ps => (c :: p) :: ps

/-- the fields of a line body. -/
def fields (b : List Char) : List (List Char) := (splitRaw b).filter (fun f => !f.isEmpty)

/-- first non-ASCII character of a piece of text. -/
def firstNonAscii (s : List Char) : Option Char := s.find? (fun c => !ascii c)

/-- is the first field of `b` followed by white space (rather than by the end of `b`)? -/
def firstFieldTerminated (b : List Char) : Bool :=
  !((b.dropWhile ws).dropWhile (fun c => !ws c)).isEmpty

/-- D-H3: the implementation looks at the run of `#` and one character beyond. -/
def commentCheck (l : List Char) : Option Char :=
  match (comment l).dropWhile hash with
  | [] => none
  | c :: _ => if ascii c then none else some c

def addIfNew (ns : List Name) (n : Name) : List Name := if ns.contains n then ns else ns ++ [n]

/-- the names of a line, in order, each an ASCII root-relative name. -/
def readNames : List (List Char) → List Name → Except HErr (List Name)
  | [], acc => .ok acc
  | f :: fs, acc =>
    match firstNonAscii f with
    | some c => .error (.expectedAscii c)
    | none =>
      match Name.fromRelativeDotted Name.root (utf8Encode f) with
      | none => .error (.couldNotParseName f)
      | some n => readNames fs (addIfNew acc n)

/-- the mappings a line yields once its fields are accepted. -/
def lineResult (a : IpAddr) (names : List Name) : Option (IpAddr × List Name) :=
  if names.isEmpty then none else some (a, names)

/-- D-H3 applied last: a non-ASCII character right behind the `#`s spoils an otherwise good line. -/
def finishComment (cc : Option Char) (r : Option (IpAddr × List Name)) :
    Except HErr (Option (IpAddr × List Name)) :=
  match cc with
  | some c => .error (.expectedAscii c)
  | none => .ok r

/-- the meaning of the fields of a line (`terminated`: white space follows the first field;
    `cc`: the result of `commentCheck`). -/
def parseFields (fs : List (List Char)) (terminated : Bool) (cc : Option Char) :
    Except HErr (Option (IpAddr × List Name)) :=
  match fs with
  | [] => finishComment cc none
  | f0 :: nameFields =>
    if (f0.drop 1).any percent then
      match firstNonAscii (f0.take 1 ++ (f0.drop 1).takeWhile (fun c => !percent c)) with
      | some c => .error (.expectedAscii c)
      | none => .ok none
    else
      match firstNonAscii f0 with
      | some c => .error (.expectedAscii c)
      | none =>
        if nameFields.isEmpty && !terminated then finishComment cc none
        else
          match Ip.parseIpAddr (utf8Encode f0) with
          | none => .error (.couldNotParseAddress f0)
          | some a =>
            match readNames nameFields [] with
            | .error e => .error e
            | .ok names => finishComment cc (lineResult a names)

/-- the meaning of one line: `ok none` = nothing mapped, `ok (some (addr, names))` = mappings. -/
def parseLine (l : List Char) : Except HErr (Option (IpAddr × List Name)) :=
  parseFields (fields (body l)) (firstFieldTerminated (body l)) (commentCheck l)

/-- split at every `\n` (empty pieces kept, never empty). -/
def splitNl : List Char → List (List Char)
  | [] => [[]]
  | c :: cs =>
    if c.toNat = 10 then [] :: splitNl cs
    else
      match splitNl cs with
      | [] => [[c]]
      | p :: ps => (c :: p) :: ps

def stripCr (l : List Char) : List Char :=
  match l.getLast? with
  | some c => if c.toNat = 13 then l.dropLast else l
  | none => l

/-- the lines of a file. -/
def lines (s : List Char) : List (List Char) :=
  let ps := splitNl s
  ps.dropLast.map stripCr ++
    (match ps.getLast? with
     | some last => if last.isEmpty then [] else [last]
     | none => [])

/-- all mappings of a file in file order. -/
def mappings : List (List Char) → Except HErr (List (Name × IpAddr))
  | [] => .ok []
  | l :: ls =>
    match parseLine l with
    | .error e => .error e
    | .ok r =>
      match mappings ls with
      | .error e => .error e
      | .ok ms =>
        match r with
        | none => .ok ms
        | some (a, names) => .ok (names.map (fun n => (n, a)) ++ ms)

def isV4 : IpAddr → Bool | .v4 _ => true | .v6 _ => false

/-- the last mapping of `n` in family `v4?`. -/
def lastMapping (ms : List (Name × IpAddr)) (n : Name) (v4 : Bool) : Option IpAddr :=
  (ms.reverse.find? (fun m => m.1 == n && isV4 m.2 == v4)).map (·.2)

/-- the distinct names having a mapping in the family, in order of first appearance. -/
def namesOf (ms : List (Name × IpAddr)) (v4 : Bool) : List Name :=
  ((ms.filter (fun m => isV4 m.2 == v4)).map (·.1)).foldl addIfNew []

/-- the hosts data a list of mappings denotes: last mapping per (name, family). -/
def hostsOf (ms : List (Name × IpAddr)) : Hosts :=
  { v4 := (namesOf ms true).filterMap (fun n =>
      match lastMapping ms n true with | some (.v4 a) => some (n, a) | _ => none),
    v6 := (namesOf ms false).filterMap (fun n =>
      match lastMapping ms n false with | some (.v6 g) => some (n, g) | _ => none) }

/-- the hosts data of a file. -/
def parse (s : List Char) : Except HErr Hosts :=
  match mappings (lines s) with
  | .error e => .error e
  | .ok ms => .ok (hostsOf ms)

end Resolved.HSpec

namespace Resolved

/-- two association lists denote the same map: same lookup for every name. -/
def AddrMap.Equiv {α : Type} (a b : AddrMap α) : Prop := ∀ n, a.get n = b.get n

/-- hosts data equal as maps (the Rust `Hosts` equality: two `HashMap`s). -/
def Hosts.Equiv (a b : Hosts) : Prop := AddrMap.Equiv a.v4 b.v4 ∧ AddrMap.Equiv a.v6 b.v6

/-- the `HashMap` invariant of an association list: no key twice. -/
def AddrMap.KeysNodup {α : Type} (m : AddrMap α) : Prop := (m.map (·.1)).Nodup

end Resolved
