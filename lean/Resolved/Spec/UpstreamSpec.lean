/-
  C06 specification: which records of an upstream reply may be used for a question, given the
  delegation depth already reached.  Stated on the *result* of validation (whatever produced it):
  `checkValidated` returns `none` when every record of the result is allowed, else the reason.
-/
import Resolved.Model.Upstream

namespace Resolved.USpec

open Resolved

/-- every simple CNAME path (as the list of its link records, with its end name) that starts at
    `cur` and only uses CNAME records of `cn`; the empty path is included. -/
def simplePaths (cn : List RR) : Nat → Name → List Name → List (List RR × Name)
  | 0, cur, _ => [([], cur)]
  | fuel + 1, cur, visited =>
    ([], cur) ::
      (cn.filter (fun rr => rr.name == cur)).flatMap (fun l =>
        match cnameTarget l with
        | some t =>
          if visited.contains t || t == cur then []
          else (simplePaths cn fuel t (cur :: visited)).map (fun (ls, e) => (l :: ls, e))
        | none => [])

/-- `links` all lie on one simple CNAME path of the reply's answer section from `start` to `fin`. -/
def onPath (answers : List RR) (start fin : Name) (links : List RR) : Bool :=
  let cn := answers.filter (fun rr => (cnameTarget rr).isSome)
  (simplePaths cn (cn.length + 1) start []).any (fun (ls, e) => e == fin && links.all (ls.contains ·))

def subset (xs ys : List RR) : Bool := xs.all (ys.contains ·)

/-- the deepest owner of an NS record (answers ∪ authority) that encloses the question name and
    is deeper than the delegation in use. -/
def bestZone (q : Question) (mc : Nat) (resp : Message) : Option Name :=
  let cands := (resp.answers ++ resp.authority).filter (fun rr =>
    (nsTarget rr).isSome && q.name.isSubdomainOf rr.name && rr.name.labels.length > mc)
  cands.foldl (fun best rr =>
    match best with
    | none => some rr.name
    | some b => if rr.name.labels.length > b.labels.length then some rr.name else some b) none

def checkValidated (q : Question) (mc : Nat) (resp : Message) (out : Option NameserverResponse) : Option String :=
  match out with
  | none => none
  | some (.answer rrs soa) =>
    if rrs.isEmpty then
      match soa with
      | none => some "empty-answer-without-soa"
      | some s =>
        if !(resp.authority.contains s && s.rtype == RT_SOA) then some "soa-not-from-authority"
        else if !q.name.isSubdomainOf s.name then some "soa-does-not-enclose-question"
        else if s.name.labels.length < mc then some "soa-above-current-delegation"
        else if (resp.authority.filter (fun rr => rr.rtype == RT_SOA)).length != 1 then some "several-soas"
        else if !resp.answers.isEmpty then some "nodata-with-answers"
        else none
    else if soa.isSome then some "answer-with-soa"
    else if !subset rrs resp.answers then some "record-not-from-answer-section"
    else
      -- there must be a final name `fin`: the CNAMEs not owned by `fin` form a simple chain from
      -- the question name to `fin`, everything else is owned by `fin` and of the asked type
      let ok (fin : Name) : Bool :=
        let links := rrs.filter (fun rr => (cnameTarget rr).isSome && rr.name != fin)
        let finals := rrs.filter (fun rr => !((cnameTarget rr).isSome && rr.name != fin))
        onPath resp.answers q.name fin links && !finals.isEmpty &&
          finals.all (fun rr => rr.name == fin && rtypeMatches rr.rtype q.qtype)
      if (q.name :: rrs.map (·.name)).any ok then none
      else if rrs.any (fun rr => (cnameTarget rr).isSome && !rtypeMatches RT_CNAME q.qtype) then
        some "cname-not-on-path-from-question-or-foreign-record"
      else some "record-not-of-asked-type-at-final-name"
  | some (.cname rrs target) =>
    if !subset rrs resp.answers then some "record-not-from-answer-section"
    else if !rrs.all (fun rr => (cnameTarget rr).isSome) then some "non-cname-in-cname-result"
    else if rrs.isEmpty then some "empty-cname-result"
    else if !onPath resp.answers q.name target rrs then some "cname-not-on-path-from-question"
    else none
  | some (.delegation rrs hostnames name) =>
    match bestZone q mc resp with
    | none => some "referral-without-better-ns"
    | some zone =>
      if name != zone then some "referral-zone-not-deepest-enclosing"
      else if !q.name.isSubdomainOf name then some "referral-zone-not-ancestor"
      else if name.labels.length ≤ mc then some "referral-not-closer"
      else
        let nsAll := (resp.answers ++ resp.authority).filter (fun rr => (nsTarget rr).isSome && rr.name == zone)
        let hostsAll := nsAll.filterMap nsTarget
        if hostnames.isEmpty then some "referral-without-hosts"
        else if !(hostnames.all (hostsAll.contains ·) && hostsAll.all (hostnames.contains ·)) then
          some "referral-hosts-not-the-ns-set"
        else
          let bad := rrs.find? (fun rr =>
            !(((nsTarget rr).isSome && rr.name == zone && (resp.answers ++ resp.authority).contains rr) ||
              ((rr.rtype == RT_A || rr.rtype == RT_AAAA) && hostnames.contains rr.name &&
                (resp.answers ++ resp.additional).contains rr)))
          match bad with
          | some rr => if (nsTarget rr).isSome then some "ns-record-with-foreign-owner" else some "glue-for-unnamed-host-or-wrong-section"
          | none => none

end Resolved.USpec
