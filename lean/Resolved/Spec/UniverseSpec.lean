/-
  C07 — consistent delegation universes and their faithful upstream oracle.

  A *universe* is a list of authoritative servers: each entry is one zone (`Zone`, as the
  authoritative server of this code base holds it), the host name of a name server of the zone,
  that host's IPv4 address (optionally also an IPv6 address), the TTL of the glue records parents
  serve for the host and the time the server takes to answer.  `authReply` is what an
  authoritative server for the entry's zone replies to a question: `Zone.resolve`-based — the
  records (AA) when the zone holds the name and type, NODATA / NXDOMAIN with the zone's SOA in the
  authority section, a referral (the NS set in the authority section, glue for the hosts of the
  universe in the additional section) at or below a delegation point, the CNAME record for an
  alias.  `Faithful U cfg` says that the oracle of a resolver configuration answers every exchange
  sent to an address of the universe with `authReply`, after the entry's delay (UDP and TCP
  alike); `uniOracle` is the canonical such oracle (silence for every other address).

  * `DelegPath U q Y rest Z`: starting at the server `Y`, the referrals for question `q` lead
    through the servers `rest` (each one strictly deeper than the previous one, each referral a
    single NS record) and end at `Z`; `DelegPathM`: the same with several servers per zone.
  * `expectedAt Z q`: what the resolver is expected to return when the referrals end at `Z`.
  * `Consistent U`: every referral any zone of the universe gives is a single NS record (TTL > 0)
    for the apex of a strictly deeper zone of the universe, naming that zone's host
    (`universeConsistent`: a decidable check over the record trees).
  * The local context: `RootHints`, `localMiss`, `candMiss`, `warmMiss`, `startCtx`,
    `rootHintsZone`; the bundles of start hypotheses `UniStart`, `UniStartAll`, `UniStartAlias`,
    `UniStartM`; `UniOK` / `UniOKM`, `QuestionOK`.
  * Alias chains: `UniLeg` (one leg of a resolution from a possibly warm state), `UniPlan` (legs
    linked by aliases), `planLog`, `planDelay`.
  * `UniEx`: a concrete universe (root → `e.` → `x.e.` / `y.e.`, aliases, a dual-stack server, a
    variant with two name servers for a zone, a variant with TTL-0 glue) for the non-vacuity
    examples.

  Core Lean only (imports the model).
-/
import Resolved.Model.Resolver

namespace Resolved

open Gen

set_option autoImplicit false

/-- One authoritative server of the universe. -/
structure UEntry where
  /-- the zone it is authoritative for -/
  zone : Zone
  /-- host name of the zone's (single) name server -/
  host : Name
  /-- IPv4 address of that host -/
  addr : Nat
  /-- TTL of the glue records served by parents for `host` -/
  glueTtl : Nat
  /-- time the server takes to answer one exchange (ms) -/
  delayMs : Nat
  /-- IPv6 address of the host (groups), if it is dual-stack: parents then also serve `AAAA` glue -/
  addr6 : Option (List Nat) := none
deriving Repr, Inhabited

abbrev Universe := List UEntry

def UEntry.apex (E : UEntry) : Name := E.zone.apex

/-- the glue record for the server's host. -/
def UEntry.glueRR (E : UEntry) : RR :=
  { name := E.host, rtype := RT_A, fields := [.a E.addr], rclass := CLASS_IN, ttl := E.glueTtl }

/-- the NS record a parent holds for the zone of `E` (any TTL). -/
def UEntry.nsRR (E : UEntry) (ttl : Nat) : RR :=
  { name := E.apex, rtype := RT_NS, fields := [.name E.host], rclass := CLASS_IN, ttl := ttl }

/-- the (UDP, RD = 0) exchange the resolver has with the server for question `q`. -/
def UEntry.exchange (E : UEntry) (port : Nat) (q : Question) : Exchange :=
  { addr := .a E.addr, port := port, tcp := false, question := q, recursionDesired := false }

/-- the `AAAA` glue record for a dual-stack server's host. -/
def UEntry.glue6RR (E : UEntry) (g : List Nat) : RR :=
  { name := E.host, rtype := RT_AAAA, fields := [.aaaa g], rclass := CLASS_IN, ttl := E.glueTtl }

/-- all glue for one server: the `A` record, and the `AAAA` record if the host is dual-stack. -/
def UEntry.glueRRs (E : UEntry) : List RR :=
  E.glueRR :: (match E.addr6 with | some g => [E.glue6RR g] | none => [])

/-- glue for a referral: the address records of the universe's servers named by the NS records. -/
def uniGlue (U : Universe) (nsRrs : List RR) : List RR :=
  (U.filter (fun C => (nsRrs.filterMap nsTarget).contains C.host)).flatMap UEntry.glueRRs

def replyHeader (rd aa : Bool) (rcode : Nat) : Header :=
  { id := 0, isResponse := true, opcode := 0, isAuthoritative := aa, isTruncated := false,
    recursionDesired := rd, recursionAvailable := false, rcode := rcode }

/-- What the authoritative server `E` replies to question `q` (`none` = no usable reply: the name
    is outside the zone, or the zone has no SOA). -/
def authReply (U : Universe) (E : UEntry) (q : Question) (rd : Bool) : Option Message :=
  match E.zone.resolve q.name q.qtype with
  | some (.answer rrs) =>
    match E.zone.soaRR with
    | some soa =>
      if rrs.isEmpty then
        some { header := replyHeader rd true RCODE_NOERROR, questions := [q], answers := [], authority := [soa],
               additional := [] }
      else
        some { header := replyHeader rd true RCODE_NOERROR, questions := [q], answers := rrs, authority := [],
               additional := [] }
    | none => none
  | some .nameError =>
    match E.zone.soaRR with
    | some soa =>
      some { header := replyHeader rd true RCODE_NAMEERROR, questions := [q], answers := [], authority := [soa],
             additional := [] }
    | none => none
  | some (.delegation nsRrs) =>
    some { header := replyHeader rd false RCODE_NOERROR, questions := [q], answers := [], authority := nsRrs,
           additional := uniGlue U nsRrs }
  | some (.cname _ rr) =>
    some { header := replyHeader rd true RCODE_NOERROR, questions := [q], answers := [rr], authority := [],
           additional := [] }
  | _ => none

/-- The oracle of `cfg` behaves, at the addresses of the universe (on the configured port, over
    UDP and TCP), like the authoritative servers. -/
def Faithful (U : Universe) (cfg : RecCfg) : Prop :=
  ∀ E ∈ U, ∀ (q : Question) (rd tcp : Bool),
    cfg.oracle { addr := .a E.addr, port := cfg.port, tcp := tcp, question := q, recursionDesired := rd } =
      { delayMs := E.delayMs, reply := authReply U E q rd }

/-- the canonical faithful oracle: the first entry with the contacted address answers; every other
    exchange runs into its time-out. -/
def uniOracle (U : Universe) (port : Nat) : Oracle := fun ex =>
  match ex.addr with
  | .a x =>
    match U.find? (fun E => E.addr == x) with
    | some E =>
      if ex.port = port then { delayMs := E.delayMs, reply := authReply U E ex.question ex.recursionDesired }
      else { delayMs := EXCHANGE_TIMEOUT_MS, reply := none }
    | none => { delayMs := EXCHANGE_TIMEOUT_MS, reply := none }
  | _ => { delayMs := EXCHANGE_TIMEOUT_MS, reply := none }

/-- a recursive resolver (IPv4 only) in front of the universe. -/
def uniCfg (U : Universe) (port : Nat) : RecCfg :=
  { mode := .onlyV4, port := port, oracle := uniOracle U port, hostOrder := id }

/-- … the same in prefer-v4 mode. -/
def uniCfgPrefer (U : Universe) (port : Nat) : RecCfg := { uniCfg U port with mode := .preferV4 }

/-- one host name, one address. -/
def HostsFunctional (U : Universe) : Prop :=
  ∀ E ∈ U, ∀ E' ∈ U, E.host = E'.host → E.addr = E'.addr

/-- an address question (`A` or `AAAA`): the kind the glue short-cut of the referral branch answers. -/
def isAddrQ (q : Question) : Prop := q.qtype = RT_A ∨ q.qtype = RT_AAAA

/-- the hosts a referral names, as `get_better_ns_names` collects them (order of first
    occurrence, no duplicates). -/
def nsHosts (nsRrs : List RR) : List Name := (nsRrs.filterMap nsTarget).foldl insertSet []

/-- the request for `q` fits a UDP datagram (`query_nameserver` then tries UDP first). -/
def udpFits (q : Question) : Bool :=
  match encodeMessage (requestFor q false) with
  | .ok bs => decide (bs.length ≤ UDP_MAX)
  | .error _ => false

/-- The standing hypotheses on the universe and the resolver in front of it: a faithful resolver
    in only-v4 or prefer-v4 mode that keeps single-host referrals as they are; one address per host name, one host
    per zone apex; every server answers within the 5 s exchange time-out; glue records have a
    non-zero TTL. -/
structure UniOK (U : Universe) (cfg : RecCfg) : Prop where
  faithful : Faithful U cfg
  mode : cfg.mode = .onlyV4 ∨ cfg.mode = .preferV4
  order : ∀ h, cfg.hostOrder [h] = [h]
  hosts : HostsFunctional U
  apexes : ∀ E ∈ U, ∀ E' ∈ U, E.apex = E'.apex → E.host = E'.host
  delay : ∀ E ∈ U, E.delayMs < EXCHANGE_TIMEOUT_MS
  glueTtl : ∀ E ∈ U, 0 < E.glueTtl

/-- The questions covered: an ordinary record type (not AXFR / MAILB / MAILA / ANY) whose request
    fits a UDP datagram.  (CNAME-type questions are included: an alias asked for by type CNAME is
    answered with exactly the alias record, the alias is not followed.) -/
structure QuestionOK (q : Question) : Prop where
  qtype : lookupNat queryTypeFromU16 q.qtype = none
  fits : udpFits q = true

/-- The referrals for `q` lead from server `Y` through the servers `rest` to `Z`, which gives no
    further referral: each step is a referral consisting of the single NS record (TTL > 0) of the
    next server's zone, which is strictly deeper. -/
inductive DelegPath (U : Universe) (q : Question) : UEntry → List UEntry → UEntry → Prop
  | here (Z : UEntry) : Z ∈ U → DelegPath U q Z [] Z
  | down (Y C Z : UEntry) (rest : List UEntry) (ttl : Nat) : Y ∈ U → C ∈ U →
      Y.zone.resolve q.name q.qtype = some (.delegation [C.nsRR ttl]) → 0 < ttl →
      Y.apex.labels.length < C.apex.labels.length →
      DelegPath U q C rest Z → DelegPath U q Y (C :: rest) Z

/-- What the resolver is expected to return when the referrals end at server `Z`: exactly the
    records `Z`'s zone holds for the name and type, or an empty answer with the zone's SOA when
    the name or the type does not exist. -/
def expectedAt (Z : UEntry) (q : Question) : Option ResolvedRecord :=
  match Z.zone.resolve q.name q.qtype, Z.zone.soaRR with
  | some (.answer rrs), some soa =>
    if rrs.isEmpty then some (.nonAuthoritative [] (some soa)) else some (.nonAuthoritative rrs none)
  | some .nameError, some soa => some (.nonAuthoritative [] (some soa))
  | _, _ => none

/-- sum of the servers' delays. -/
def totalDelay (es : List UEntry) : Nat := (es.map (·.delayMs)).sum

/-! ## The local context: root hints, empty cache -/

/-- The local zones have nothing to say about `(name, qtype)`: the zone part of `resolve_local`
    falls through to the cache without records (no zone encloses the name, or the enclosing zone
    is not authoritative and has no records / no such name / a delegation). -/
def localMiss (zs : Zones) (name : Name) (qtype : Nat) : Bool :=
  match zs.resolve name qtype with
  | none => true
  | some (_, none) => true
  | some (z, some zr) =>
    z.soa.isNone &&
      (match zr with
       | .answer rrs => rrs.isEmpty
       | .cname _ _ => false
       | _ => true)

/-- The local zones hold the root hints: a non-authoritative zone answering `. NS` with the single
    record naming `rootHost` and `rootHost A` with the single record holding `rootAddr`. -/
structure RootHints (zs : Zones) (rootHost : Name) (rootAddr : Nat) : Prop where
  ns : ∃ z ttl, zs.resolve Name.root RT_NS =
      some (z, some (.answer [{ name := Name.root, rtype := RT_NS, fields := [.name rootHost], rclass := CLASS_IN,
                                ttl := ttl }])) ∧ z.soa = none
  a : ∃ z ttl, zs.resolve rootHost RT_A =
      some (z, some (.answer [{ name := rootHost, rtype := RT_A, fields := [.a rootAddr], rclass := CLASS_IN,
                                ttl := ttl }])) ∧ z.soa = none

/-- the root-hints zone as `Zone::insert` builds it. -/
def rootHintsZone (rootHost : Name) (rootAddr : Nat) (ttl : Nat) : Option Zone :=
  (Zone.default.insert Name.root RT_NS [.name rootHost] ttl false).bind
    (fun z => z.insert rootHost RT_A [.a rootAddr] ttl false)

/-- the context a resolution starts from: the given local zones, an empty cache, an empty stack. -/
def startCtx (zs : Zones) (cacheSize now : Nat) : Ctx :=
  { zones := zs, cache := PCache.new cacheSize, now := now, stack := [] }

/-- On the way up from the question name to the root the local zones know no name servers: for
    every suffix of the labels other than the root itself, the NS lookup misses. -/
def candMiss (zs : Zones) : List Label → Bool
  | [] => true
  | l :: ls =>
    (ls.isEmpty ||
      (match Name.fromLabels (l :: ls) with
       | some n => localMiss zs n RT_NS
       | none => true)) && candMiss zs ls

/-- The standing hypotheses on the start of a resolution of `q` along the path `R :: rest`: `R`
    serves the root and is the server the root hints of the local zones `zs` name; the local
    zones know nothing else that matters (not the question, no name servers on the way up from the
    question name, no address of a server of the path); the question is not for the address of a
    server of the path (that is answered from glue: the "glue short-cut"); the servers' delays
    stay under the 60 s budget and the path under the fuel `resolve_recursive` runs with. -/
structure UniStart (zs : Zones) (q : Question) (R : UEntry) (rest : List UEntry) : Prop where
  root : R.apex = Name.root
  hints : RootHints zs R.host R.addr
  qmiss : localMiss zs q.name q.qtype = true
  cand : candMiss zs q.name.labels = true
  hostsMiss : ∀ C ∈ rest, localMiss zs C.host RT_A = true
  notHost : isAddrQ q → ∀ C ∈ rest, q.name ≠ C.host
  time : totalDelay (R :: rest) < RESOLVE_TIMEOUT_MS
  fuel : rest.length + 3 ≤ REC_FUEL

/-- With a warm cache (NS sets of the zones `V` and aliases owned by the names `cn` stored): on the
    way up from a name with labels `ls` to the zone with `stop` labels, neither the local zones
    nor the cache know name servers or aliases for the names passed. -/
def warmMiss (zs : Zones) (V : List UEntry) (cn : List Name) (stop : Nat) : List Label → Bool
  | [] => true
  | l :: ls =>
    if (l :: ls).length ≤ stop then true
    else
      (match Name.fromLabels (l :: ls) with
       | some n => localMiss zs n RT_NS && !cn.contains n && V.all (fun C => C.apex != n)
       | none => true) && warmMiss zs V cn stop ls

/-- the question for the target `tn` of an alias found for `q` (same type and class). -/
def aliasQ (q : Question) (tn : Name) : Question := { name := tn, qclass := q.qclass, qtype := q.qtype }

/-- The standing hypotheses for a question `q` whose name is an alias for `tn` in the zone at the end
    of the path `R :: rest`, the target being resolved along the path `Y' :: rest'`: as `UniStart`
    for `q`; `q` is not an NS question; neither `q`'s name nor the target is the host name of a
    server (for `A` questions); the local zones know nothing about the target, about the servers of
    both paths, and — on the way up from the target to `Y'`'s zone — about name servers; `Y'` is
    the deepest zone of the first path whose (cached) NS set encloses the target (`warmMiss`), or
    the root; the delays of both paths stay under 60 s. -/
structure UniStartAlias (U : Universe) (zs : Zones) (q : Question) (tn : Name) (R : UEntry) (rest : List UEntry)
    (Y' : UEntry) (rest' : List UEntry) : Prop where
  root : R.apex = Name.root
  hints : RootHints zs R.host R.addr
  qmiss : localMiss zs q.name q.qtype = true
  cand : candMiss zs q.name.labels = true
  notNS : q.qtype ≠ RT_NS
  notHost : isAddrQ q → ∀ E ∈ U, q.name ≠ E.host ∧ tn ≠ E.host
  hostsMiss : ∀ C ∈ rest ++ rest', localMiss zs C.host RT_A = true
  target : tn ≠ q.name
  tmiss : localMiss zs tn q.qtype = true
  restart : (Y' ∈ rest ∧ localMiss zs Y'.apex RT_NS = true) ∨ Y' = R
  restartWf : Name.fromLabels Y'.apex.labels = some Y'.apex
  warm : warmMiss zs rest [q.name] Y'.apex.labels.length tn.labels = true
  time : totalDelay (R :: rest) + totalDelay (Y' :: rest') < RESOLVE_TIMEOUT_MS
  fuel : rest.length + rest'.length + 6 ≤ REC_FUEL

/-- the host-address question `resolve_hostname_to_ip` asks (IPv4). -/
def uniHostQ (host : Name) : Question := { name := host, qclass := CLASS_IN, qtype := RT_A }

/-- the question `candidate_nameservers` asks for a zone. -/
def uniNsQ (name : Name) : Question := { name := name, qtype := RT_NS, qclass := CLASS_IN }

/-- what the zone says about `q` is well-formed: answer records are owned by the question name, of
    the asked type, of known type and class; an alias is a CNAME record of the question name naming
    the target.  (Holds for every zone whose record maps are keyed consistently, as `Zone::insert`
    builds them: `uni_zoneSaysWF_of_typed`.) -/
def ZoneSaysWF (z : Zone) (q : Question) : Prop :=
  (∀ rrs, z.resolve q.name q.qtype = some (.answer rrs) →
    ∀ rr ∈ rrs, rr.name = q.name ∧ rr.rtype = q.qtype ∧ rrIsUnknown rr = false) ∧
  (∀ tn rr, z.resolve q.name q.qtype = some (.cname tn rr) →
    rr.name = q.name ∧ rr.rtype = RT_CNAME ∧ rr.fields = [.name tn] ∧ rrIsUnknown rr = false)

/-- ONE LEG of a resolution: the question `q` is resolved, from a state in which the NS sets and
    glue of the zones `V` and aliases owned by the names `cn` are cached and the questions `stack`
    are being worked on, along the delegation path `Y :: rest` ending at `Z`.  `Y` is where the
    walk up from `q`'s name ends: the deepest zone of `V` enclosing it (`warm`), or the root
    hints.  The local zones know nothing about `q`, the servers' hosts, or name servers on the way
    up; `q` is an ordinary question (not NS / CNAME), not for a server's address, not already an
    alias followed; what the last zone says is well-formed. -/
structure UniLeg (U : Universe) (zs : Zones) (V : List UEntry) (cn : List Name) (stack : List Question)
    (q : Question) (Y : UEntry) (rest : List UEntry) (Z : UEntry) : Prop where
  ok : QuestionOK q
  notNS : q.qtype ≠ RT_NS
  notCN : q.qtype ≠ RT_CNAME
  path : DelegPath U q Y rest Z
  says : ZoneSaysWF Z.zone q
  start : (Y ∈ V ∧ localMiss zs Y.apex RT_NS = true ∧ localMiss zs Y.host RT_A = true) ∨
    (Y.apex = Name.root ∧ RootHints zs Y.host Y.addr)
  startWf : Name.fromLabels Y.apex.labels = some Y.apex
  depth : stack.length + 1 < RECURSION_LIMIT
  stackOK : ∀ q0 ∈ stack, q0.qtype ≠ RT_NS ∧ q0 ≠ q ∧ ∀ E ∈ U, q0 ≠ uniHostQ E.host
  qmiss : localMiss zs q.name q.qtype = true
  notHost : isAddrQ q → ∀ E ∈ U, q.name ≠ E.host
  notAlias : q.name ∉ cn
  warm : warmMiss zs V cn Y.apex.labels.length q.name.labels = true
  hostsMiss : ∀ C ∈ rest, localMiss zs C.host RT_A = true

/-- the (server, question) pairs of one leg. -/
def legExchanges (q : Question) (es : List UEntry) : List (UEntry × Question) := es.map (fun E => (E, q))

/-- A RESOLUTION PLAN: legs linked by aliases.  `UniPlan U zs V cn stack q ex n res`: resolving
    `q` from the state `(V, cn, stack)` contacts the servers `ex` (with the questions given), needs
    `n` units of fuel and yields `res`: either the leg for `q` ends at a zone with data / NODATA /
    NXDOMAIN (`final`), or at a zone where `q`'s name is an alias, and the plan continues for the
    target with the zones of this leg and the alias cached (`alias`). -/
inductive UniPlan (U : Universe) (zs : Zones) : List UEntry → List Name → List Question → Question →
    List (UEntry × Question) → Nat → ResolvedRecord → Prop
  | final {V : List UEntry} {cn : List Name} {stack : List Question} {q : Question} {Y Z : UEntry}
      {rest : List UEntry} {res : ResolvedRecord} :
      UniLeg U zs V cn stack q Y rest Z → expectedAt Z q = some res →
      UniPlan U zs V cn stack q (legExchanges q (Y :: rest)) (rest.length + 3) res
  | alias {V : List UEntry} {cn : List Name} {stack : List Question} {q : Question} {Y Z : UEntry}
      {rest : List UEntry} {tn : Name} {rr : RR} {ex : List (UEntry × Question)} {n : Nat} {res' : ResolvedRecord} :
      UniLeg U zs V cn stack q Y rest Z → Z.zone.resolve q.name q.qtype = some (.cname tn rr) → tn ≠ q.name →
      UniPlan U zs (V ++ rest) (q.name :: cn) (stack ++ [q]) (aliasQ q tn) ex n res' →
      UniPlan U zs V cn stack q (legExchanges q (Y :: rest) ++ ex) (rest.length + 3 + n)
        (.nonAuthoritative ([rr] ++ res'.rrs) res'.soaRR)

/-- the exchanges of a plan, as logged. -/
def planLog (port : Nat) (ex : List (UEntry × Question)) : List Exchange := ex.map (fun p => p.1.exchange port p.2)

/-- the time a plan takes. -/
def planDelay (ex : List (UEntry × Question)) : Nat := totalDelay (ex.map (·.1))

/-! ## Several name servers per zone -/

/-- The standing hypotheses for universes in which a zone may be served by several servers
    (several entries with the same zone): as `UniOK`, without "one host per apex" and without any
    assumption on the order in which the resolver tries the hosts of a referral. -/
structure UniOKM (U : Universe) (cfg : RecCfg) : Prop where
  faithful : Faithful U cfg
  mode : cfg.mode = .onlyV4 ∨ cfg.mode = .preferV4
  hosts : HostsFunctional U
  delay : ∀ E ∈ U, E.delayMs < EXCHANGE_TIMEOUT_MS
  glueTtl : ∀ E ∈ U, 0 < E.glueTtl

/-- `DelegPathM U order q Y rest vis Z`: the referrals for `q` lead from server `Y` through the
    servers `rest` to `Z`.  Each step is a referral whose NS set (`nsRrs`, every record with
    TTL > 0) names exactly the servers `sibs` of ONE strictly deeper zone; the server contacted next, `C`, is
    the one whose host comes LAST in `order (nsHosts nsRrs)` — the candidate loop pops its
    candidates from the end, and `order` is the resolver's `hostOrder` (the iteration order of a
    Rust `HashSet`).  `vis` collects all the servers named on the way (their NS records and glue
    end up in the cache). -/
inductive DelegPathM (U : Universe) (order : List Name → List Name) (q : Question) :
    UEntry → List UEntry → List UEntry → UEntry → Prop
  | here (Z : UEntry) : Z ∈ U → DelegPathM U order q Z [] [] Z
  | down (Y C Z : UEntry) (rest vis sibs : List UEntry) (nsRrs : List RR) : Y ∈ U → C ∈ sibs →
      (∀ D ∈ sibs, D ∈ U ∧ D.apex = C.apex) →
      Y.zone.resolve q.name q.qtype = some (.delegation nsRrs) →
      (∀ rr ∈ nsRrs, 0 < rr.ttl ∧ ∃ D ∈ sibs, rr = D.nsRR rr.ttl) →
      (∀ D ∈ sibs, ∃ rr ∈ nsRrs, rr = D.nsRR rr.ttl) →
      (order (nsHosts nsRrs)).getLast? = some C.host →
      Y.apex.labels.length < C.apex.labels.length →
      DelegPathM U order q C rest vis Z → DelegPathM U order q Y (C :: rest) (sibs ++ vis) Z

/-- the start hypotheses for a path with several servers per zone: as `UniStart`, the conditions
    on the servers of the path being asked of all the servers named on the way. -/
structure UniStartM (zs : Zones) (q : Question) (R : UEntry) (rest vis : List UEntry) : Prop where
  root : R.apex = Name.root
  hints : RootHints zs R.host R.addr
  qmiss : localMiss zs q.name q.qtype = true
  cand : candMiss zs q.name.labels = true
  hostsMiss : ∀ C ∈ vis, localMiss zs C.host RT_A = true
  notHost : isAddrQ q → ∀ C ∈ vis, q.name ≠ C.host
  time : totalDelay (R :: rest) < RESOLVE_TIMEOUT_MS
  fuel : rest.length + 3 ≤ REC_FUEL

/-! ## Consistent universes -/

/-- Every referral a zone of the universe gives is the single NS record (TTL > 0) of a strictly
    deeper zone of the universe, naming that zone's host. -/
def Consistent (U : Universe) : Prop :=
  ∀ Y ∈ U, ∀ (name : Name) (qtype : Nat) (ns : List RR),
    Y.zone.resolve name qtype = some (.delegation ns) →
    ∃ C ∈ U, ∃ ttl, ns = [C.nsRR ttl] ∧ 0 < ttl ∧ Y.apex.labels.length < C.apex.labels.length

/-- `P` holds of `n` and of all its descendants (`fuel` bounds the depth of the tree: a node
    reached with no fuel left must be a leaf). -/
def nodesAll (P : ZNode → Bool) : Nat → ZNode → Bool
  | 0, n => P n && n.children.isEmpty
  | fuel + 1, n => P n && n.children.all (fun kv => nodesAll P fuel kv.2)

/-- a (non-apex) node of a zone of depth `depth` is fine: no wildcards, and an NS set, if any, is
    the single NS record of a deeper zone of the universe (owner = that zone's apex, target = its
    host). -/
def nsOK (U : Universe) (depth : Nat) (n : ZNode) : Bool :=
  n.wildcards.isNone &&
  (match n.this.get RT_NS with
   | none => true
   | some [] => true
   | some [z] =>
     z.rtype == RT_NS && decide (0 < z.ttl) &&
       U.any (fun C => z.fields == [.name C.host] && n.nsdname == C.apex && decide (depth < C.apex.labels.length))
   | some _ => false)

/-- the record maps of a node are keyed consistently (records of type `k` under key `k`). -/
def typedNode (n : ZNode) : Bool :=
  n.this.all (fun kv => kv.2.all (fun zr => zr.rtype == kv.1)) &&
  (match n.wildcards with
   | some ws => ws.all (fun kv => kv.2.all (fun zr => zr.rtype == kv.1))
   | none => true)

/-- the decidable check behind `Consistent`, zone by zone, over the record tree. -/
def zoneConsistent (U : Universe) (fuel : Nat) (Y : UEntry) : Bool :=
  Y.zone.records.wildcards.isNone &&
    Y.zone.records.children.all (fun kv => nodesAll (nsOK U Y.apex.labels.length) fuel kv.2)

def universeConsistent (U : Universe) (fuel : Nat) : Bool := U.all (zoneConsistent U fuel)

/-- The standing hypotheses on the start of a resolution of `q` in a consistent universe with root
    server `R` (no path mentioned): as `UniStart`, with the conditions on the servers of the path
    asked of every non-root server, and the time budget expressed by a bound `D` on the servers'
    delays (a path for `q` has at most as many servers as `q`'s name has labels). -/
structure UniStartAll (U : Universe) (zs : Zones) (q : Question) (R : UEntry) (D : Nat) : Prop where
  root : R.apex = Name.root
  hints : RootHints zs R.host R.addr
  qmiss : localMiss zs q.name q.qtype = true
  cand : candMiss zs q.name.labels = true
  hostsMiss : ∀ C ∈ U, C.apex.labels.length ≠ 1 → localMiss zs C.host RT_A = true
  notHost : isAddrQ q → ∀ C ∈ U, C.apex.labels.length ≠ 1 → q.name ≠ C.host
  delay : ∀ E ∈ U, E.delayMs ≤ D
  time : D * q.name.labels.length < RESOLVE_TIMEOUT_MS
  fuel : q.name.labels.length + 2 ≤ REC_FUEL

/-! ## A concrete three-level universe (for the non-vacuity examples)

    `.` (server `a.` 1.2.3.4) → `e.` (server `n.e.` 2.2.2.2) → `x.e.` (server `m.x.e.` 3.3.3.3, dual-stack:
    also 2001:db8::3, so the referral to `x.e.` carries `A` and `AAAA` glue) and
    `y.e.` (server `m.y.e.` 4.4.4.4); `x.e.` holds `w.x.e. A 5.6.7.8`, `w.x.e. A 5.6.7.9`,
    `w.x.e. TXT "hi"`, the aliases `c.x.e. CNAME w.y.e.`, `d.x.e. CNAME c.x.e.` and the address of its
    own server; `y.e.`
    holds `w.y.e. A 9.9.9.9`.  Names are numeric `List UInt8` literals (string literals do not reduce in the
    kernel); the zones are written as the trees `Zone::insert` builds. -/
namespace UniEx

def nA : Name := ⟨[[97], []], 3⟩                           -- a.
def nE : Name := ⟨[[101], []], 3⟩                          -- e.
def nNE : Name := ⟨[[110], [101], []], 5⟩                  -- n.e.
def nXE : Name := ⟨[[120], [101], []], 5⟩                  -- x.e.
def nMXE : Name := ⟨[[109], [120], [101], []], 7⟩          -- m.x.e.
def nWXE : Name := ⟨[[119], [120], [101], []], 7⟩          -- w.x.e.
def nYXE : Name := ⟨[[121], [120], [101], []], 7⟩          -- y.x.e.   (does not exist)
def nCXE : Name := ⟨[[99], [120], [101], []], 7⟩           -- c.x.e.   (alias for w.y.e.)
def nDXE : Name := ⟨[[100], [120], [101], []], 7⟩          -- d.x.e.   (alias for c.x.e.)
def nYE : Name := ⟨[[121], [101], []], 5⟩                  -- y.e.
def nMYE : Name := ⟨[[109], [121], [101], []], 7⟩          -- m.y.e.
def nWYE : Name := ⟨[[119], [121], [101], []], 7⟩          -- w.y.e.

def soaRoot : SOA := ⟨nA, nA, 1, 2, 3, 4, 60⟩
def soaE : SOA := ⟨nNE, nNE, 1, 2, 3, 4, 60⟩
def soaXE : SOA := ⟨nMXE, nMXE, 1, 2, 3, 4, 60⟩
def soaYE : SOA := ⟨nMYE, nMYE, 1, 2, 3, 4, 60⟩

def zoneRoot : Zone :=
  { apex := Name.root, soa := some soaRoot,
    records := ZNode.mk Name.root [(6, [⟨6, soaRoot.toFields, 60⟩])] none
      [([97], ZNode.mk nA [(1, [⟨1, [.a 16909060], 3600⟩])] none []),
       ([101], ZNode.mk nE [(2, [⟨2, [.name nNE], 3600⟩])] none [])] }

def zoneE : Zone :=
  { apex := nE, soa := some soaE,
    records := ZNode.mk nE [(6, [⟨6, soaE.toFields, 60⟩])] none
      [([110], ZNode.mk nNE [(1, [⟨1, [.a 33686018], 3600⟩])] none []),
       ([120], ZNode.mk nXE [(2, [⟨2, [.name nMXE], 3600⟩])] none []),
       ([121], ZNode.mk nYE [(2, [⟨2, [.name nMYE], 3600⟩])] none [])] }

def zoneXE : Zone :=
  { apex := nXE, soa := some soaXE,
    records := ZNode.mk nXE [(6, [⟨6, soaXE.toFields, 60⟩])] none
      [([109], ZNode.mk nMXE [(1, [⟨1, [.a 50529027], 3600⟩])] none []),
       ([119], ZNode.mk nWXE [(1, [⟨1, [.a 84281096], 300⟩, ⟨1, [.a 84281097], 300⟩]),
                              (16, [⟨16, [.opaque [2, 104, 105]], 300⟩])] none []),
       ([99], ZNode.mk nCXE [(5, [⟨5, [.name nWYE], 300⟩])] none []),
       ([100], ZNode.mk nDXE [(5, [⟨5, [.name nCXE], 300⟩])] none [])] }

def zoneYE : Zone :=
  { apex := nYE, soa := some soaYE,
    records := ZNode.mk nYE [(6, [⟨6, soaYE.toFields, 60⟩])] none
      [([109], ZNode.mk nMYE [(1, [⟨1, [.a 67372036], 3600⟩])] none []),
       ([119], ZNode.mk nWYE [(1, [⟨1, [.a 151587081], 300⟩])] none [])] }

def eRoot : UEntry := { zone := zoneRoot, host := nA, addr := 16909060, glueTtl := 3600, delayMs := 30 }
def eE : UEntry := { zone := zoneE, host := nNE, addr := 33686018, glueTtl := 3600, delayMs := 20 }
def eXE : UEntry :=
  { zone := zoneXE, host := nMXE, addr := 50529027, glueTtl := 3600, delayMs := 10,
    addr6 := some [8193, 3512, 0, 0, 0, 0, 0, 3] }                 -- dual-stack: 2001:db8::3

def eYE : UEntry := { zone := zoneYE, host := nMYE, addr := 67372036, glueTtl := 3600, delayMs := 15 }

def uni : Universe := [eRoot, eE, eXE, eYE]

/-- the root hints: `. NS a.`, `a. A 1.2.3.4` in a zone without SOA. -/
def hintsZone : Zone :=
  { apex := Name.root, soa := none,
    records := ZNode.mk Name.root [(2, [⟨2, [.name nA], 3600⟩])] none
      [([97], ZNode.mk nA [(1, [⟨1, [.a 16909060], 3600⟩])] none [])] }

def zones : Zones := Zones.empty.insert hintsZone

def cfg : RecCfg := uniCfg uni 53
def cfgPrefer : RecCfg := uniCfgPrefer uni 53

def qA : Question := { name := nWXE, qtype := RT_A, qclass := CLASS_IN }         -- answer
def qAAAA : Question := { name := nWXE, qtype := RT_AAAA, qclass := CLASS_IN }   -- NODATA
def qNx : Question := { name := nYXE, qtype := RT_A, qclass := CLASS_IN }        -- NXDOMAIN
def qC : Question := { name := nCXE, qtype := RT_A, qclass := CLASS_IN }         -- alias into `y.e.`
def qD : Question := { name := nDXE, qtype := RT_A, qclass := CLASS_IN }         -- alias of that alias

/-- the same universe with the glue for `n.e.` (the server of `e.`) served with TTL 0. -/
def eE0 : UEntry := { eE with glueTtl := 0 }
def uni0 : Universe := [eRoot, eE0, eXE, eYE]
def cfg0 : RecCfg := uniCfg uni0 53

/-- a variant in which `x.e.` has a second name server, `m2.x.e.` (3.3.3.4): the zone `e.` then
    refers to `x.e.` with two NS records. -/
def nM2XE : Name := ⟨[[109, 50], [120], [101], []], 8⟩     -- m2.x.e.

def zoneEM : Zone :=
  { apex := nE, soa := some soaE,
    records := ZNode.mk nE [(6, [⟨6, soaE.toFields, 60⟩])] none
      [([110], ZNode.mk nNE [(1, [⟨1, [.a 33686018], 3600⟩])] none []),
       ([120], ZNode.mk nXE [(2, [⟨2, [.name nMXE], 3600⟩, ⟨2, [.name nM2XE], 3600⟩])] none []),
       ([121], ZNode.mk nYE [(2, [⟨2, [.name nMYE], 3600⟩])] none [])] }

def eEM : UEntry := { eE with zone := zoneEM }
def eXE2 : UEntry := { zone := zoneXE, host := nM2XE, addr := 50529028, glueTtl := 3600, delayMs := 12 }
def uniM : Universe := [eRoot, eEM, eXE, eXE2, eYE]
def cfgM : RecCfg := uniCfg uniM 53

def rrW1 : RR := ⟨nWXE, 1, [.a 84281096], 1, 300⟩
def rrW2 : RR := ⟨nWXE, 1, [.a 84281097], 1, 300⟩
def soaRRXE : RR := ⟨nXE, 6, soaXE.toFields, 1, 60⟩
def rrC : RR := ⟨nCXE, 5, [.name nWYE], 1, 300⟩
def rrWY : RR := ⟨nWYE, 1, [.a 151587081], 1, 300⟩
def rrD : RR := ⟨nDXE, 5, [.name nCXE], 1, 300⟩

end UniEx


/-! ## Glue policies; warm caches holding answers (for `Props/C07Universe2`)

    `authReply` serves glue for EVERY host of the universe a referral names.  Real parents serve
    glue only for hosts inside the delegated zone (in bailiwick); a referral to a zone whose name
    server lies in another zone carries the NS record alone (a GLUELESS referral).  `authReplyG gp`
    is `authReply` with the additional section of a referral chosen by a glue policy `gp`
    (`uniGlue U`: the policy of `authReply`; `uniGlueB U`: in-bailiwick glue only). -/

/-- what the authoritative server `E` replies to `q`, the glue of referrals being `gp nsRrs`. -/
def authReplyG (gp : List RR → List RR) (E : UEntry) (q : Question) (rd : Bool) : Option Message :=
  match E.zone.resolve q.name q.qtype with
  | some (.delegation nsRrs) =>
    some { header := replyHeader rd false RCODE_NOERROR, questions := [q], answers := [], authority := nsRrs,
           additional := gp nsRrs }
  | _ => authReply [] E q rd

/-- the oracle of `cfg` behaves, at the addresses of the universe, like the authoritative servers
    with glue policy `gp`. -/
def FaithfulG (gp : List RR → List RR) (U : Universe) (cfg : RecCfg) : Prop :=
  ∀ E ∈ U, ∀ (q : Question) (rd tcp : Bool),
    cfg.oracle { addr := .a E.addr, port := cfg.port, tcp := tcp, question := q, recursionDesired := rd } =
      { delayMs := E.delayMs, reply := authReplyG gp E q rd }

/-- IN-BAILIWICK glue: the address records of the servers of the universe named by an NS record
    whose owner (the delegated zone) encloses the server's host name. -/
def uniGlueB (U : Universe) (nsRrs : List RR) : List RR :=
  (U.filter (fun C => nsRrs.any (fun rr => nsTarget rr == some C.host && C.host.isSubdomainOf rr.name))).flatMap
    UEntry.glueRRs

/-- the canonical oracle faithful to the universe with glue policy `gp`. -/
def uniOracleG (gp : List RR → List RR) (U : Universe) (port : Nat) : Oracle := fun ex =>
  match ex.addr with
  | .a x =>
    match U.find? (fun E => E.addr == x) with
    | some E =>
      if ex.port = port then { delayMs := E.delayMs, reply := authReplyG gp E ex.question ex.recursionDesired }
      else { delayMs := EXCHANGE_TIMEOUT_MS, reply := none }
    | none => { delayMs := EXCHANGE_TIMEOUT_MS, reply := none }
  | _ => { delayMs := EXCHANGE_TIMEOUT_MS, reply := none }

/-- a recursive resolver (IPv4 only) in front of the universe whose parents serve in-bailiwick glue
    only. -/
def uniCfgB (U : Universe) (port : Nat) : RecCfg :=
  { mode := .onlyV4, port := port, oracle := uniOracleG (uniGlueB U) U port, hostOrder := id }

/-- `UniOK` for a glue policy `gp` that serves at most the glue `authReply` serves. -/
structure UniOKG (gp : List RR → List RR) (U : Universe) (cfg : RecCfg) : Prop where
  faithful : FaithfulG gp U cfg
  sub : ∀ ns g, g ∈ gp ns → g ∈ uniGlue U ns
  mode : cfg.mode = .onlyV4 ∨ cfg.mode = .preferV4
  order : ∀ h, cfg.hostOrder [h] = [h]
  hosts : HostsFunctional U
  apexes : ∀ E ∈ U, ∀ E' ∈ U, E.apex = E'.apex → E.host = E'.host
  delay : ∀ E ∈ U, E.delayMs < EXCHANGE_TIMEOUT_MS
  glueTtl : ∀ E ∈ U, 0 < E.glueTtl

/-- `warmMiss` for a cache that also holds records under the keys `K` (answers of earlier
    questions): on the way up from a name with labels `ls` to the zone with `stop` labels, neither
    the local zones nor the cache (NS sets of the zones `V`, keys `K`) know name servers or aliases
    for the names passed. -/
def warmMissK (zs : Zones) (V : List UEntry) (K : List (Name × Nat)) (stop : Nat) : List Label → Bool
  | [] => true
  | l :: ls =>
    if (l :: ls).length ≤ stop then true
    else
      (match Name.fromLabels (l :: ls) with
       | some n =>
         localMiss zs n RT_NS && !K.contains (n, RT_NS) && !K.contains (n, RT_CNAME) && V.all (fun C => C.apex != n)
       | none => true) && warmMissK zs V K stop ls

/-- the referral (if any) the server `Y` gives for `q` consists of records with a TTL of at least
    `m` seconds. -/
def nsTtlOK (m : Nat) (q : Question) (Y : UEntry) : Bool :=
  match Y.zone.resolve q.name q.qtype with
  | some (.delegation ns) => ns.all (fun rr => decide (m ≤ rr.ttl))
  | _ => true

/-- the record a cache lookup at time `now'` returns for the record `rr` stored at time `now`
    (times in ns): same owner, type and data, class IN, the remaining TTL in whole seconds. -/
def cachedRR (now now' : Nat) (rr : RR) : RR :=
  { name := rr.name, rtype := rr.rtype, fields := rr.fields, rclass := 1,
    ttl := min ((now + rr.ttl * NANOS - now') / NANOS) U32_MAX }

/-- the context of a later resolution: the zones and the cache the earlier resolution left behind,
    the clock at `now'`, an empty question stack. -/
def laterCtx (st : St) (now' : Nat) : Ctx :=
  { zones := st.ctx.zones, cache := st.ctx.cache, now := now', stack := [] }

/-- The standing hypotheses on the TTLs for a second question asked at time `now'` after a first
    resolution of `q` at time `now` along the path `R :: rest`: the clock did not go back, and the
    glue of every server and every referral on the path have at least `m` seconds of TTL, of which
    at least one full second is left at `now'`. -/
structure UniFresh (U : Universe) (q : Question) (R : UEntry) (rest : List UEntry) (m now now' : Nat) : Prop where
  mono : now ≤ now'
  left : now' + NANOS ≤ now + m * NANOS
  glue : ∀ E ∈ U, m ≤ E.glueTtl
  ns : ∀ Y ∈ R :: rest, nsTtlOK m q Y = true


/-- The standing hypotheses on a LATER question `q2` answered by the zone of the server `Z`, asked
    when the cache holds the NS sets and addresses of the servers `rest` (the path of an earlier
    question below the root server `R`) and records under the keys `K` (the earlier answers): an
    ordinary question (not NS) the local zones know nothing about, not for the address of a server,
    not one of the keys `K` (nor an alias cached under `K`); `Z` is a server of `rest` (the local
    zones knowing no name servers for its zone) or the root server, and the deepest cached
    delegation enclosing the name of `q2` (`warmMissK`). -/
structure UniSibling (zs : Zones) (K : List (Name × Nat)) (R : UEntry) (rest : List UEntry) (Z : UEntry)
    (q2 : Question) : Prop where
  ok : QuestionOK q2
  known : rtypeIsUnknown q2.qtype = false
  notNS : q2.qtype ≠ RT_NS
  qmiss : localMiss zs q2.name q2.qtype = true
  notHost : isAddrQ q2 → ∀ E ∈ rest, q2.name ≠ E.host
  fresh : (q2.name, q2.qtype) ∉ K ∧ (q2.name, RT_CNAME) ∉ K
  start : (Z ∈ rest ∧ localMiss zs Z.apex RT_NS = true) ∨ Z = R
  wf : Name.fromLabels Z.apex.labels = some Z.apex
  warm : warmMissK zs rest K Z.apex.labels.length q2.name.labels = true


/-- the `AAAA` host-address question `resolve_hostname_to_ip` asks in prefer-v4 mode. -/
def uniHost6Q (host : Name) : Question := { name := host, qclass := CLASS_IN, qtype := RT_AAAA }


/-! ## Referrals without glue: resolution walks

    A WALK describes what the candidate loop does for a question `q` from the moment the reply of a
    server `Y` is in: `Y` answers (`last`), or refers to a server `C` with glue (`glued`: `C` is
    contacted next), or refers to `C` WITHOUT glue (`glueless`: `C`'s host is set aside, its address
    is resolved recursively — a nested walk for the question `uniHostQ C.host`, started at the
    deepest cached delegation `Y2` enclosing the host name — and then `C` is contacted).  Indices:
    the question stack `S` of the loop (ending with `q`), the zones `V` whose NS sets and the servers
    `G` whose addresses are cached when `Y`'s reply comes in, the exchanges `ex` that follow, the
    fuel needed, `V'` / `G'` at the end, and the result. -/

/-- side conditions of a referral with glue to `C`. -/
structure GluedOK (zs : Zones) (K : List (Name × Nat)) (S : List Question) (q : Question) (C : UEntry) : Prop where
  notHost : isAddrQ q → q.name ≠ C.host
  miss : localMiss zs C.host RT_A = true
  key : (C.host, RT_A) ∉ K
  stack : uniHostQ C.host ∉ S
  depth : S.length ≠ RECURSION_LIMIT

/-- nothing is known locally about the host of `C` (a server referred to without glue): not an
    address cached for a server of `G`, not in the local zones, not under a key of `K`, not a
    question being worked on; the nesting depth allows one more question. -/
structure HostUnknown (zs : Zones) (K : List (Name × Nat)) (G : List UEntry) (S : List Question) (q : Question)
    (C : UEntry) : Prop where
  notHost : isAddrQ q → q.name ≠ C.host
  notG : ∀ E ∈ G, E.host ≠ C.host
  missA : localMiss zs C.host RT_A = true
  missAAAA : localMiss zs C.host RT_AAAA = true
  keys : (C.host, RT_A) ∉ K ∧ (C.host, RT_AAAA) ∉ K ∧ (C.host, RT_CNAME) ∉ K
  stack : uniHostQ C.host ∉ S ∧ uniHost6Q C.host ∉ S
  depth : S.length + 1 < RECURSION_LIMIT
  noNS : ∀ q0 ∈ S, q0.qtype ≠ RT_NS
  ok : QuestionOK (uniHostQ C.host)

/-- the nested resolution of the address of `C`'s host starts at `Y2`: the deepest zone whose NS set
    is cached (`V`) that encloses the host name — its server's address being cached too (`G`) — or
    the root hints. -/
structure NestedStart (U : Universe) (zs : Zones) (K : List (Name × Nat)) (V G : List UEntry) (S : List Question)
    (C Y2 : UEntry) : Prop where
  mem : Y2 ∈ U
  start : (Y2 ∈ V ∧ Y2 ∈ G ∧ localMiss zs Y2.apex RT_NS = true ∧ localMiss zs Y2.host RT_A = true ∧
      (Y2.apex, RT_NS) ∉ K) ∨ (Y2.apex = Name.root ∧ RootHints zs Y2.host Y2.addr)
  key : (Y2.host, RT_A) ∉ K
  wf : Name.fromLabels Y2.apex.labels = some Y2.apex
  sub : C.host.isSubdomainOf Y2.apex = true
  warm : warmMissK zs V K Y2.apex.labels.length C.host.labels = true
  stack : uniHostQ Y2.host ∉ S

inductive UniWalk (gp : List RR → List RR) (U : Universe) (zs : Zones) (K : List (Name × Nat)) (m : Nat) :
    List Question → Question → List UEntry → List UEntry → UEntry → List (UEntry × Question) → Nat →
    List UEntry → List UEntry → ResolvedRecord → Prop
  | last {S : List Question} {q : Question} {V G : List UEntry} {Z : UEntry} {res : ResolvedRecord}
      (hexp : expectedAt Z q = some res) (hsays : ZoneSaysWF Z.zone q) :
      UniWalk gp U zs K m S q V G Z [] 0 V G res
  | glued {S : List Question} {q : Question} {V G : List UEntry} {Y C : UEntry} {ttl : Nat}
      {ex : List (UEntry × Question)} {f : Nat} {V' G' : List UEntry} {res : ResolvedRecord}
      (hC : C ∈ U) (hres : Y.zone.resolve q.name q.qtype = some (.delegation [C.nsRR ttl]))
      (httl : 0 < ttl ∧ m ≤ ttl) (hdepth : Y.apex.labels.length < C.apex.labels.length)
      (hsub : q.name.isSubdomainOf C.apex = true) (hglue : C.glueRR ∈ gp [C.nsRR ttl])
      (hok : GluedOK zs K S q C)
      (next : UniWalk gp U zs K m S q (V ++ [C]) (G ++ [C]) C ex f V' G' res) :
      UniWalk gp U zs K m S q V G Y ((C, q) :: ex) (f + 2) V' G' res
  | glueless {S : List Question} {q : Question} {V G : List UEntry} {Y C Y2 : UEntry} {ttl : Nat}
      {exN : List (UEntry × Question)} {fN : Nat} {V1 G1 : List UEntry} {resH : ResolvedRecord}
      {ex : List (UEntry × Question)} {f : Nat} {V' G' : List UEntry} {res : ResolvedRecord}
      (hC : C ∈ U) (hres : Y.zone.resolve q.name q.qtype = some (.delegation [C.nsRR ttl]))
      (httl : 0 < ttl ∧ m ≤ ttl) (hdepth : Y.apex.labels.length < C.apex.labels.length)
      (hsub : q.name.isSubdomainOf C.apex = true) (hglue : gp [C.nsRR ttl] = [])
      (hunk : HostUnknown zs K G S q C) (hstart : NestedStart U zs K (V ++ [C]) G (S ++ [uniHostQ C.host]) C Y2)
      (nested : UniWalk gp U zs K m (S ++ [uniHostQ C.host]) (uniHostQ C.host) (V ++ [C]) G Y2 exN fN V1 G1 resH)
      (haddr : resH.rrs ≠ [] ∧ ∀ rr ∈ resH.rrs, rr.fields = [.a C.addr] ∧ m ≤ rr.ttl)
      (next : UniWalk gp U zs K m S q V1 (G1 ++ [C]) C ex f V' G' res) :
      UniWalk gp U zs K m S q V G Y ((Y2, uniHostQ C.host) :: exN ++ (C, q) :: ex) (fN + f + 6) V' G' res


/-- The standing hypotheses of the simplest glueless resolution: the referrals for `q` lead from the
    root server `R` through `rest` (all with glue) to a parent that refers — WITHOUT glue — to the
    zone of `Z2`, whose name server host lies elsewhere; the address of that host is resolved along
    the (glued) path `Y2 :: rest2`, `Y2` being the deepest server of the first path whose zone
    encloses the host name (or the root server).  Root hints and nothing else in the local zones;
    `q` is an ordinary question (not NS), not for the address of a server involved; nothing is
    known locally about `Z2`'s host; the servers of the second path are other hosts; all TTLs are at
    least `m ≥ 1` seconds; the delays stay under 60 s and the paths under the fuel. -/
structure UniStartGlueless (gp : List RR → List RR) (U : Universe) (zs : Zones) (m : Nat) (q : Question) (R : UEntry)
    (rest : List UEntry) (Z2 : UEntry) (ttl2 : Nat) (Y2 : UEntry) (rest2 : List UEntry) : Prop where
  root : R.apex = Name.root
  hints : RootHints zs R.host R.addr
  notNS : q.qtype ≠ RT_NS
  qmiss : localMiss zs q.name q.qtype = true
  cand : candMiss zs q.name.labels = true
  glued : ∀ C ∈ rest ++ rest2, ∀ ttl, C.glueRR ∈ gp [C.nsRR ttl]
  hostsMiss : ∀ C ∈ rest ++ rest2, localMiss zs C.host RT_A = true
  notHost : isAddrQ q → ∀ C ∈ rest ++ [Z2], q.name ≠ C.host
  glueless : gp [Z2.nsRR ttl2] = []
  unknown : (∀ E ∈ rest, E.host ≠ Z2.host) ∧ localMiss zs Z2.host RT_A = true ∧ localMiss zs Z2.host RT_AAAA = true
  hostOK : QuestionOK (uniHostQ Z2.host)
  start : (Y2 ∈ rest ∧ localMiss zs Y2.apex RT_NS = true) ∨ Y2 = R
  wf : Name.fromLabels Y2.apex.labels = some Y2.apex
  warm : warmMissK zs (rest ++ [Z2]) [] Y2.apex.labels.length Z2.host.labels = true
  nestedHosts : ∀ C ∈ Y2 :: rest2, C.host ≠ Z2.host ∧ q ≠ uniHostQ C.host
  ttl : 1 ≤ m ∧ ∀ E ∈ U, m ≤ E.glueTtl
  nsTtl : (∀ Y ∈ R :: rest, nsTtlOK m q Y = true) ∧ (∀ Y ∈ Y2 :: rest2, nsTtlOK m (uniHostQ Z2.host) Y = true)
  time : totalDelay (R :: rest) + totalDelay (Y2 :: rest2) + Z2.delayMs < RESOLVE_TIMEOUT_MS
  fuel : 2 * rest.length + 2 * rest2.length + 9 ≤ REC_FUEL

/-! ## The example universe with a glueless zone

    `UniEx.uniG`: as `UniEx.uni`, with a zone `z.e.` delegated from `e.` to the name server `k.y.e.`
    (6.6.6.6), a host that lies in the zone `y.e.` — out of bailiwick: under the in-bailiwick glue
    policy (`uniGlueB`) the referral from `e.` to `z.e.` carries the NS record and no glue.  `y.e.`
    holds `k.y.e. A 6.6.6.6`; `z.e.` holds `w.z.e. A 7.7.7.7`. -/
namespace UniEx

def nZE : Name := ⟨[[122], [101], []], 5⟩                  -- z.e.
def nWZE : Name := ⟨[[119], [122], [101], []], 7⟩          -- w.z.e.
def nKYE : Name := ⟨[[107], [121], [101], []], 7⟩          -- k.y.e.

def soaZE : SOA := ⟨nKYE, nKYE, 1, 2, 3, 4, 60⟩

def zoneEG : Zone :=
  { apex := nE, soa := some soaE,
    records := ZNode.mk nE [(6, [⟨6, soaE.toFields, 60⟩])] none
      [([110], ZNode.mk nNE [(1, [⟨1, [.a 33686018], 3600⟩])] none []),
       ([120], ZNode.mk nXE [(2, [⟨2, [.name nMXE], 3600⟩])] none []),
       ([121], ZNode.mk nYE [(2, [⟨2, [.name nMYE], 3600⟩])] none []),
       ([122], ZNode.mk nZE [(2, [⟨2, [.name nKYE], 3600⟩])] none [])] }

def zoneYEG : Zone :=
  { apex := nYE, soa := some soaYE,
    records := ZNode.mk nYE [(6, [⟨6, soaYE.toFields, 60⟩])] none
      [([109], ZNode.mk nMYE [(1, [⟨1, [.a 67372036], 3600⟩])] none []),
       ([119], ZNode.mk nWYE [(1, [⟨1, [.a 151587081], 300⟩])] none []),
       ([107], ZNode.mk nKYE [(1, [⟨1, [.a 101058054], 3600⟩])] none [])] }

def zoneZE : Zone :=
  { apex := nZE, soa := some soaZE,
    records := ZNode.mk nZE [(6, [⟨6, soaZE.toFields, 60⟩])] none
      [([119], ZNode.mk nWZE [(1, [⟨1, [.a 117901063], 300⟩])] none [])] }

def eEG : UEntry := { eE with zone := zoneEG }
def eYEG : UEntry := { eYE with zone := zoneYEG }
def eZE : UEntry := { zone := zoneZE, host := nKYE, addr := 101058054, glueTtl := 3600, delayMs := 25 }

def uniG : Universe := [eRoot, eEG, eXE, eYEG, eZE]

/-- IPv4-only resolver in front of `uniG`, the parents serving in-bailiwick glue only. -/
def cfgG : RecCfg := uniCfgB uniG 53

def qZ : Question := { name := nWZE, qtype := RT_A, qclass := CLASS_IN }   -- in the glueless zone
def rrWZ : RR := ⟨nWZE, 1, [.a 117901063], 1, 300⟩
def rrK : RR := ⟨nKYE, 1, [.a 101058054], 1, 3600⟩
def soaRRZE : RR := ⟨nZE, 6, soaZE.toFields, 1, 60⟩

end UniEx

/-! ## A variant of `UniEx.uni` whose zone `x.e.` serves an RRset with two different TTLs -/
namespace UniEx

/-- `x.e.` with `w.x.e. A 5.6.7.8` (TTL 300) and `w.x.e. A 5.6.7.9` (TTL 100). -/
def zoneXEP : Zone :=
  { apex := nXE, soa := some soaXE,
    records := ZNode.mk nXE [(6, [⟨6, soaXE.toFields, 60⟩])] none
      [([109], ZNode.mk nMXE [(1, [⟨1, [.a 50529027], 3600⟩])] none []),
       ([119], ZNode.mk nWXE [(1, [⟨1, [.a 84281096], 300⟩, ⟨1, [.a 84281097], 100⟩])] none [])] }

def eXEP : UEntry := { eXE with zone := zoneXEP }
def uniP : Universe := [eRoot, eE, eXEP, eYE]
def cfgP : RecCfg := uniCfg uniP 53

end UniEx

/-! ## A glueless zone whose name server lies in another glueless zone

    `UniEx.uniG2`: as `uniG`, with a zone `v.e.` delegated from `e.` to the name server `j.z.e.`
    (8.8.8.8), a host in the zone `z.e.` — which is itself delegated without glue (to `k.y.e.` in
    `y.e.`).  `z.e.` holds `j.z.e. A 8.8.8.8`; `v.e.` holds `w.v.e. A 9.9.9.1`. -/
namespace UniEx

def nVE : Name := ⟨[[118], [101], []], 5⟩                  -- v.e.
def nWVE : Name := ⟨[[119], [118], [101], []], 7⟩          -- w.v.e.
def nJZE : Name := ⟨[[106], [122], [101], []], 7⟩          -- j.z.e.
def soaVE : SOA := ⟨nJZE, nJZE, 1, 2, 3, 4, 60⟩

def zoneEG2 : Zone :=
  { apex := nE, soa := some soaE,
    records := ZNode.mk nE [(6, [⟨6, soaE.toFields, 60⟩])] none
      [([110], ZNode.mk nNE [(1, [⟨1, [.a 33686018], 3600⟩])] none []),
       ([120], ZNode.mk nXE [(2, [⟨2, [.name nMXE], 3600⟩])] none []),
       ([121], ZNode.mk nYE [(2, [⟨2, [.name nMYE], 3600⟩])] none []),
       ([122], ZNode.mk nZE [(2, [⟨2, [.name nKYE], 3600⟩])] none []),
       ([118], ZNode.mk nVE [(2, [⟨2, [.name nJZE], 3600⟩])] none [])] }

def zoneZE2 : Zone :=
  { apex := nZE, soa := some soaZE,
    records := ZNode.mk nZE [(6, [⟨6, soaZE.toFields, 60⟩])] none
      [([119], ZNode.mk nWZE [(1, [⟨1, [.a 117901063], 300⟩])] none []),
       ([106], ZNode.mk nJZE [(1, [⟨1, [.a 134744072], 3600⟩])] none [])] }

def zoneVE : Zone :=
  { apex := nVE, soa := some soaVE,
    records := ZNode.mk nVE [(6, [⟨6, soaVE.toFields, 60⟩])] none
      [([119], ZNode.mk nWVE [(1, [⟨1, [.a 151587073], 300⟩])] none [])] }

def eEG2 : UEntry := { eE with zone := zoneEG2 }
def eZE2 : UEntry := { eZE with zone := zoneZE2 }
def eVE : UEntry := { zone := zoneVE, host := nJZE, addr := 134744072, glueTtl := 3600, delayMs := 5 }

def uniG2 : Universe := [eRoot, eEG2, eXE, eYEG, eZE2, eVE]
def cfgG2 : RecCfg := uniCfgB uniG2 53

def qV : Question := { name := nWVE, qtype := RT_A, qclass := CLASS_IN }
def rrWV : RR := ⟨nWVE, 1, [.a 151587073], 1, 300⟩
def rrJ : RR := ⟨nJZE, 1, [.a 134744072], 1, 3600⟩

end UniEx

end Resolved
