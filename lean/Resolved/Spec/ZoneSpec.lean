/-
  Declarative specification of authoritative zone lookup (RFC 1034 §4.3.2 step 3, RFC 4592
  wildcards) over a *flat* list of zone entries — no tree, no descent.  This is what C02 says.
  Hypothesis D1 (DESIGN §9): no entry is owned strictly beneath a delegation point.
-/
import Resolved.Model.Zone

namespace Resolved.ZSpec

open Resolved Gen

/-- One configured record: owner relative to the apex (labels in name order, e.g. `[www]`),
    whether it was given as `*.owner`, and the record. -/
structure Entry where
  rel : List Label
  wild : Bool
  zr : ZoneRecord
deriving DecidableEq, Repr, Inhabited

/-- `s` is a (not necessarily proper) suffix of `l`. -/
def isSuffix (s l : List Label) : Bool := s.isSuffixOf l

/-- a name exists in the zone iff some entry is owned at or below it (the apex always exists). -/
def existsNode (es : List Entry) (rel : List Label) : Bool :=
  rel.isEmpty || es.any (fun e => isSuffix rel e.rel)

/-- records (in configuration order, duplicates removed) owned exactly at `rel`. -/
def recordsAt (es : List Entry) (rel : List Label) (wild : Bool) : List ZoneRecord :=
  ((es.filter (fun e => e.rel == rel && e.wild == wild)).map (·.zr)).eraseDups

def ofType (zrs : List ZoneRecord) (t : Nat) : List ZoneRecord := zrs.filter (·.rtype == t)

/-- all non-empty suffixes of `rel`, shortest (closest to the apex) first. -/
def properSuffixes (rel : List Label) : List (List Label) :=
  ((List.range rel.length).map (fun i => rel.drop (rel.length - 1 - i)))

/-- the delegation point governing `rel`: a non-apex ancestor-or-self holding NS records. -/
def delegationPoint (es : List Entry) (rel : List Label) : Option (List Label) :=
  (properSuffixes rel).find? (fun d => !(ofType (recordsAt es d false) RT_NS).isEmpty)

def absName (rel : List Label) (apex : Name) : Option Name := Name.fromLabels (rel ++ apex.labels)

/-- classification of a record set once the owner is fixed (steps 3.a / 3.c data part). -/
def classify (zrs : List ZoneRecord) (qname : Name) (qtype : Nat) (nsOwner : Option Name)
    (canDelegate : Bool) : ZoneResult :=
  let ns := ofType zrs RT_NS
  if canDelegate && qtype != RT_NS && !ns.isEmpty then
    match nsOwner with
    | some o => .delegation (ns.map (·.toRR o))
    | none => .panic
  else
    let cn := ofType zrs RT_CNAME
    match (if rtypeMatches RT_CNAME qtype then none else cn.head?) with
    | some z =>
      match z.fields with
      | [.name target] => .cname target (z.toRR qname)
      | _ => .panic
    | none =>
      match lookupNat queryTypeFromU16 qtype with
      | some "Wildcard" => .answer (zrs.map (·.toRR qname))
      | some _ => .answer []
      | none => .answer ((ofType zrs qtype).map (·.toRR qname))

/-- longest proper suffix of `rel` that exists, together with the label just below it. -/
def closestEncloser (es : List Entry) (rel : List Label) : List Label × Option Label :=
  -- candidates: rel.drop 1, rel.drop 2, …, []
  let cands := (List.range rel.length).map (fun i => (rel.drop (i + 1), rel[i]?))
  match cands.find? (fun c => existsNode es c.1) with
  | some c => c
  | none => ([], rel.getLast?)

/-- The specification of `Zone::resolve` for a query name `qname = rel ++ apex`. -/
def lookup (es : List Entry) (apex : Name) (qname : Name) (rel : List Label) (qtype : Nat) : ZoneResult :=
  let exact (canDelegate : Bool) : ZoneResult :=
    if existsNode es rel then
      classify (recordsAt es rel false) qname qtype (absName rel apex) canDelegate
    else
      let (c, next) := closestEncloser es rel
      let ws := recordsAt es c true
      if ws.isEmpty then .nameError
      else
        match next with
        | some l => classify ws qname qtype (absName (l :: c) apex) true
        | none => .panic
  match delegationPoint es rel with
  | some d =>
    if d == rel && qtype == RT_NS then exact false
    else
      match absName d apex with
      | some o => .delegation ((ofType (recordsAt es d false) RT_NS).map (·.toRR o))
      | none => .panic
  | none => exact false

/-- D1: no entry is owned strictly beneath a (non-apex) delegation point; a wildcard `*.d` counts
    as beneath `d`. -/
def d1 (es : List Entry) : Bool :=
  es.all (fun e =>
    let owner := e.rel
    -- every non-empty proper suffix of the owner (and the owner itself, for wildcard entries)
    (properSuffixes owner).all (fun d =>
      let strictlyBeneath := d.length < owner.length || e.wild
      !(strictlyBeneath && !(ofType (recordsAt es d false) RT_NS).isEmpty)))

/-- equality of results up to the order of records inside an answer (ANY answers come out of a
    hash map in Rust). -/
def sameResult (a b : ZoneResult) : Bool :=
  match a, b with
  | .answer x, .answer y => x.length == y.length && x.all (y.contains ·) && y.all (x.contains ·)
  | _, _ => a == b

end Resolved.ZSpec
