/-
  Independent specification of the text form of a domain name accepted by
  `DomainName::from_dotted_string` (crates/dns-types/src/protocol/types.rs), on the UTF-8 octets of
  the text.  Core Lean only; does not mention the model (Model/Name.lean).  `46` is `.`.

  A text is accepted iff it is `.` or empty (the root), or it ends with a dot and, the final dot
  removed, the dot-separated chunks are all non-empty and at most 63 octets long, and the wire length
  (one length octet per chunk, the chunks, the root label's length octet) is at most 255.
-/

namespace Resolved

/-- the chunks between the dots of `s` (always at least one; `foldl` with the current chunk and the
    finished chunks). -/
def splitDots (s : List UInt8) : List (List UInt8) :=
  let (cur, acc) := s.foldl (fun (p : List UInt8 × List (List UInt8)) b =>
    if b.toNat == 46 then ([], p.2 ++ [p.1]) else (p.1 ++ [b], p.2)) ([], [])
  acc ++ [cur]

/-- the texts `from_dotted_string` accepts. -/
def dottedOk (s : List UInt8) : Bool :=
  if s == [46] || s.isEmpty then true
  else
    match s.getLast? with
    | some d =>
      if d.toNat != 46 then false
      else
        let chunks := splitDots s.dropLast
        chunks.all (fun c => !c.isEmpty && c.length ≤ 63) && (chunks.map (·.length + 1)).sum + 1 ≤ 255
    | none => true

/-- ASCII lower-casing of one octet (`A`–`Z` = 65–90). -/
def asciiLower (b : UInt8) : UInt8 := if 65 ≤ b.toNat && b.toNat ≤ 90 then b + 32 else b

/-- the labels of the name an accepted text denotes: the lower-cased chunks, then the root label. -/
def dottedSpecLabels (s : List UInt8) : List (List UInt8) :=
  if s == [46] || s.isEmpty then [[]]
  else (splitDots s.dropLast).map (·.map asciiLower) ++ [[]]

/-- its wire length: one length octet per label plus the labels' octets. -/
def dottedSpecLen (s : List UInt8) : Nat :=
  ((dottedSpecLabels s).map (·.length + 1)).sum

end Resolved
