/-
  Declarative RFC 1035 wire-format specification (section 4.1), independent of the decoder's
  control flow.  Used by the C03/C04 theorems: "the decoder accepts exactly the well-formed
  messages and reads them as the grammar says".
-/
import Resolved.Model.Wire
import Resolved.Proofs.NameLemmas

namespace Resolved

open Gen

/-- `WireName buf start pos labels len endPos`: at offset `pos` of `buf` stands an encoded domain
    name (RFC 1035 §3.1, §4.1.4) whose expansion is `labels` (lower-cased, ending in the root
    label) of encoded length `len`, whose in-place encoding ends at `endPos`; every compression
    pointer met points strictly before `start` (the offset at which the enclosing name began), and
    the pointed-to name obeys the same rule relative to its own start. -/
inductive WireName (buf : List UInt8) : Nat → Nat → List Label → Nat → Nat → Prop where
  | root {start pos : Nat} :
      buf[pos]? = some 0 → WireName buf start pos [[]] 1 (pos + 1)
  | label {start pos : Nat} {sz : UInt8} {rest : List Label} {rlen e : Nat} :
      buf[pos]? = some sz → 1 ≤ sz.toNat → sz.toNat ≤ 63 →
      pos + 1 + sz.toNat ≤ buf.length →
      WireName buf start (pos + 1 + sz.toNat) rest rlen e →
      WireName buf start pos (((buf.drop (pos + 1)).take sz.toNat).map lowerByte :: rest)
        (1 + sz.toNat + rlen) e
  | ptr {start pos : Nat} {b lo : UInt8} {rest : List Label} {rlen e : Nat} :
      buf[pos]? = some b → 192 ≤ b.toNat → buf[pos + 1]? = some lo →
      (b.toNat % 64) * 256 + lo.toNat < start →
      WireName buf ((b.toNat % 64) * 256 + lo.toNat) ((b.toNat % 64) * 256 + lo.toNat) rest rlen e →
      WireName buf start pos rest rlen (pos + 2)

/-- Number of nested pointer expansions used by a `WireName` derivation (C03 depth bound). -/
inductive WireNameDepth (buf : List UInt8) : Nat → Nat → Nat → Prop where
  | root {start pos : Nat} : buf[pos]? = some 0 → WireNameDepth buf start pos 0
  | label {start pos d : Nat} {sz : UInt8} :
      buf[pos]? = some sz → 1 ≤ sz.toNat → sz.toNat ≤ 63 →
      WireNameDepth buf start (pos + 1 + sz.toNat) d → WireNameDepth buf start pos d
  | ptr {start pos d : Nat} {b lo : UInt8} :
      buf[pos]? = some b → 192 ≤ b.toNat → buf[pos + 1]? = some lo →
      (b.toNat % 64) * 256 + lo.toNat < start →
      WireNameDepth buf ((b.toNat % 64) * 256 + lo.toNat) ((b.toNat % 64) * 256 + lo.toNat) d →
      WireNameDepth buf start pos (d + 1)

/-! ### Well-formed messages (precondition of the C04 round trip) -/

def FieldValWF : Field → FieldVal → Prop
  | .u16, .u16 n => n < 65536
  | .u32, .u32 n => n < 4294967296
  | .a, .a n => n < 4294967296
  | .aaaa, .aaaa gs => gs.length = 8 ∧ ∀ g ∈ gs, g < 65536
  | .opaque, .opaque bs => bs.length < 65536
  | .name _, .name n => LabelsShape n.labels ∧ (∀ l ∈ n.labels, LabelOK l) ∧
      n.len = n.labels.length + sumLen n.labels ∧ n.len ≤ DOMAINNAME_MAX_LEN
  | _, _ => False

def FieldsWF : List Field → List FieldVal → Prop
  | [], [] => True
  | f :: fs, v :: vs => FieldValWF f v ∧ FieldsWF fs vs
  | _, _ => False

def NameWF (n : Name) : Prop :=
  LabelsShape n.labels ∧ (∀ l ∈ n.labels, LabelOK l) ∧
  n.len = n.labels.length + sumLen n.labels ∧ n.len ≤ DOMAINNAME_MAX_LEN

def RRWF (r : RR) : Prop :=
  NameWF r.name ∧ r.rtype < 65536 ∧ r.rclass < 65536 ∧ r.ttl < 4294967296 ∧
  FieldsWF (encodeLayoutOf r.rtype) r.fields

def QuestionWF (q : Question) : Prop := NameWF q.name ∧ q.qtype < 65536 ∧ q.qclass < 65536

def HeaderWF (h : Header) : Prop := h.id < 65536 ∧ h.opcode < 16 ∧ h.rcode < 16

/-- `WfMsg m`: what every decoder output and every message built through the public constructors
    satisfies; the precondition of `C04_roundtrip`. -/
def WfMsg (m : Message) : Prop :=
  HeaderWF m.header ∧ (∀ q ∈ m.questions, QuestionWF q) ∧ (∀ r ∈ m.answers, RRWF r) ∧
  (∀ r ∈ m.authority, RRWF r) ∧ (∀ r ∈ m.additional, RRWF r)

end Resolved
