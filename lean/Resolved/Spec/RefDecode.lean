/-
  A second, differently structured RFC 1035 decoder used as the *executable specification* in
  the Impl-vs-Spec oracle (never in a theorem's conclusion): names are expanded by an explicit
  fuelled walk that first collects raw labels and only then validates lengths; RDATA is sliced by
  RDLENGTH first and parsed inside the slice bounds.  It also records, for the C04 oracle, where
  names start, which of them were written without pointers, and every pointer target.
-/
import Resolved.Model.Wire

namespace Resolved.Ref

open Resolved Gen

structure Trace where
  fullNameStarts : List Nat := []   -- offsets at which a complete pointer-free name starts
  pointerTargets : List Nat := []
deriving Repr, Inhabited

/-- walk labels from `pos`; `limit` = exclusive upper bound for the next pointer target. -/
def walk (buf : List UInt8) : Nat → Nat → Nat → Option Nat → List Label → Bool → List Nat →
    Option (List Label × Nat × Bool × List Nat)
  | 0, _, _, _, _, _, _ => none
  | fuel + 1, pos, limit, endPos, acc, sawPtr, ptrs =>
    match buf[pos]? with
    | none => none
    | some b =>
      let n := b.toNat
      if n = 0 then
        some ((acc ++ [[]]), (endPos.getD (pos + 1)), sawPtr, ptrs)
      else if n < 64 then
        let os := (buf.drop (pos + 1)).take n
        if os.length < n then none
        else
          -- stop early when the name can no longer fit (keeps the walk finite on long chains)
          if acc.length + 1 + (acc.map List.length).sum + n > 255 then none
          else walk buf fuel (pos + 1 + n) limit endPos (acc ++ [os.map lowerByte]) sawPtr ptrs
      else if n ≥ 192 then
        match buf[pos + 1]? with
        | none => none
        | some lo =>
          let tgt := (n - 192) * 256 + lo.toNat
          if tgt < limit then
            walk buf fuel tgt tgt (some (endPos.getD (pos + 2))) acc true (tgt :: ptrs)
          else none
      else none

/-- expand the name at `pos`; `none` = not a well-formed name (any reason). -/
def name (buf : List UInt8) (pos : Nat) (tr : Trace) : Option (Name × Nat × Trace) :=
  match walk buf 40000 pos pos none [] false [] with
  | none => none
  | some (labels, e, sawPtr, ptrs) =>
    let len := labels.length + (labels.map List.length).sum
    if len ≤ 255 then
      some (⟨labels, len⟩, e,
        { fullNameStarts := if sawPtr then tr.fullNameStarts else pos :: tr.fullNameStarts
          pointerTargets := ptrs ++ tr.pointerTargets })
    else none

def be (bs : List UInt8) : Nat := bs.foldl (fun a b => a * 256 + b.toNat) 0

def slice (buf : List UInt8) (pos n : Nat) : Option (List UInt8) :=
  let s := (buf.drop pos).take n
  if s.length = n then some s else none

/-- parse the fields of an RDATA occupying exactly `[pos, stop)`. -/
def fields (buf : List UInt8) (stop : Nat) : List Field → Nat → Trace → Option (List FieldVal × Nat × Trace)
  | [], pos, tr => some ([], pos, tr)
  | f :: fs, pos, tr =>
    let one : Option (FieldVal × Nat × Trace) :=
      match f with
      | .u16 => if pos + 2 ≤ stop then (slice buf pos 2).map (fun s => (.u16 (be s), pos + 2, tr)) else none
      | .u32 => if pos + 4 ≤ stop then (slice buf pos 4).map (fun s => (.u32 (be s), pos + 4, tr)) else none
      | .a => if pos + 4 ≤ stop then (slice buf pos 4).map (fun s => (.a (be s), pos + 4, tr)) else none
      | .aaaa =>
        if pos + 16 ≤ stop then
          (slice buf pos 16).map (fun s =>
            (.aaaa ((List.range 8).map (fun i => be ((s.drop (2 * i)).take 2))), pos + 16, tr))
        else none
      | .opaque => (slice buf pos (stop - pos)).map (fun s => (.opaque s, stop, tr))
      | .name _ =>
        match name buf pos tr with
        | some (n, e, tr') => if e ≤ stop then some (.name n, e, tr') else none
        | none => none
    match one with
    | none => none
    | some (v, pos', tr') =>
      match fields buf stop fs pos' tr' with
      | none => none
      | some (vs, e, tr'') => some (v :: vs, e, tr'')

def rr (buf : List UInt8) (pos : Nat) (tr : Trace) : Option (RR × Nat × Trace) :=
  match name buf pos tr with
  | none => none
  | some (n, p, tr) =>
    match slice buf p 10 with
    | none => none
    | some fixed =>
      let rtype := be (fixed.take 2)
      let rclass := be ((fixed.drop 2).take 2)
      let ttl := be ((fixed.drop 4).take 4)
      let rdlen := be ((fixed.drop 8).take 2)
      let start := p + 10
      let stop := start + rdlen
      if stop ≤ buf.length then
        match fields buf stop (decodeLayoutOf rtype) start tr with
        | some (fs, e, tr') =>
          if e = stop then some ({ name := n, rtype, fields := fs, rclass, ttl }, stop, tr') else none
        | none => none
      else none

def question (buf : List UInt8) (pos : Nat) (tr : Trace) : Option (Question × Nat × Trace) :=
  match name buf pos tr with
  | none => none
  | some (n, p, tr) =>
    match slice buf p 4 with
    | none => none
    | some s => some ({ name := n, qtype := be (s.take 2), qclass := be (s.drop 2) }, p + 4, tr)

def many {α} (f : Nat → Trace → Option (α × Nat × Trace)) : Nat → Nat → Trace → Option (List α × Nat × Trace)
  | 0, pos, tr => some ([], pos, tr)
  | k + 1, pos, tr =>
    match f pos tr with
    | none => none
    | some (x, p, tr) =>
      match many f k p tr with
      | none => none
      | some (xs, e, tr) => some (x :: xs, e, tr)

def bit (b : UInt8) (i : Nat) : Bool := (b.toNat / 2 ^ i) % 2 = 1

/-- `none` = malformed. -/
def message (buf : List UInt8) : Option (Message × Trace) :=
  match slice buf 0 12 with
  | none => none
  | some h =>
    let b2 := h[2]!
    let b3 := h[3]!
    let header : Header :=
      { id := be (h.take 2), isResponse := bit b2 7, opcode := (b2.toNat / 8) % 16,
        isAuthoritative := bit b2 2, isTruncated := bit b2 1, recursionDesired := bit b2 0,
        recursionAvailable := bit b3 7, rcode := b3.toNat % 16 }
    let qd := be ((h.drop 4).take 2)
    let an := be ((h.drop 6).take 2)
    let ns := be ((h.drop 8).take 2)
    let ar := be ((h.drop 10).take 2)
    match many (question buf) qd 12 {} with
    | none => none
    | some (qs, p, tr) =>
    match many (rr buf) an p tr with
    | none => none
    | some (ans, p, tr) =>
    match many (rr buf) ns p tr with
    | none => none
    | some (auth, p, tr) =>
    match many (rr buf) ar p tr with
    | none => none
    | some (add, _, tr) =>
      some ({ header, questions := qs, answers := ans, authority := auth, additional := add }, tr)

/-- wire length of an RDATA (names in RDATA are never compressed by this encoder). -/
def fieldLen : FieldVal → Nat
  | .u16 _ => 2 | .u32 _ => 4 | .a _ => 4 | .aaaa _ => 16
  | .opaque bs => bs.length
  | .name n => n.labels.length + (n.labels.map List.length).sum

def rdataLen (r : RR) : Nat := (r.fields.map fieldLen).sum

end Resolved.Ref
