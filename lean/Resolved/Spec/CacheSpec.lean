/-
  Abstract specification of the record cache (C05, C15), independent of partitions and queues:
  a finite map  (name, type, data) ⇀ expiry  plus bounds on when each name was last used.
  The executable checks below are applied to the *implementation's own outputs* (lookup results,
  prune tuples, state dumps) by the Impl-vs-Spec oracle; the theorems in Props/C05, Props/C15 are
  about the model and use the same vocabulary.
-/
import Resolved.Model.Cache

namespace Resolved.CSpec

open Resolved

structure Key where
  name : Name
  rtype : Nat
  fields : List FieldVal
deriving DecidableEq, Repr, Inhabited

structure DRec where
  rtype : Nat
  fields : List FieldVal
  expiry : Nat
deriving DecidableEq, Repr, Inhabited

structure DPart where
  name : Name
  lastRead : Nat
  nextExpiry : Nat
  size : Nat
  recs : List DRec
deriving Repr, Inhabited

structure Dump where
  currentSize : Nat
  desiredSize : Nat
  parts : List DPart
  aq : List (Name × Nat)
  eq : List (Name × Nat)
deriving Repr, Inhabited

structure State where
  now : Nat
  desired : Nat
  entries : List (Key × Nat)          -- (name,type,data) ↦ expiry of its LAST insertion
  lower : List (Name × Nat)           -- the name was certainly used at or after this time
  upper : List (Name × Nat)           -- … and not after this time
  seen : List (Name × Nat) := []      -- (name, type) pairs stored at some time since the name (re)appeared
deriving Repr, Inhabited

def assocGet (l : List (Name × Nat)) (n : Name) : Option Nat := (l.find? (·.1 == n)).map (·.2)
def assocSet (l : List (Name × Nat)) (n : Name) (v : Nat) : List (Name × Nat) :=
  (l.filter (·.1 != n)) ++ [(n, v)]

def State.find (st : State) (k : Key) : Option Nat := (st.entries.find? (·.1 == k)).map (·.2)

/-- an insertion through the shared cache: TTL 0 is not stored; re-insertion replaces the expiry. -/
def State.insert (st : State) (rr : RR) : State :=
  if rr.ttl > 0 then
    let k : Key := ⟨rr.name, rr.rtype, rr.fields⟩
    { st with entries := (st.entries.filter (·.1 != k)) ++ [(k, st.now + rr.ttl * NANOS)]
              lower := assocSet st.lower rr.name st.now
              upper := assocSet st.upper rr.name st.now
              seen := if st.seen.contains (rr.name, rr.rtype) then st.seen else st.seen ++ [(rr.name, rr.rtype)] }
  else st

/-- what a lookup at time `now` may and must return; `none` = fine, `some why` = violation. -/
def State.checkGet (st : State) (n : Name) (qtype : Nat) (unchecked : Bool) (rrs : List RR) : Option String :=
  if !rrs.all (fun rr => rr.name == n && rr.rclass == 1 && rtypeMatches rr.rtype qtype) then
    some "lookup-returned-foreign-record"
  else if !(rrs.map (fun rr => (rr.rtype, rr.fields))).Nodup then some "lookup-returned-duplicate"
  else
    let bad := rrs.find? (fun rr =>
      match st.find ⟨n, rr.rtype, rr.fields⟩ with
      | none => true
      | some e =>
        if unchecked then !(rr.ttl * NANOS ≤ e - st.now)
        else !(st.now < e && 1 ≤ rr.ttl && rr.ttl * NANOS ≤ e - st.now))
    match bad with
    | some rr =>
      match st.find ⟨n, rr.rtype, rr.fields⟩ with
      | none => some "served-record-not-in-cache"
      | some e => if st.now ≥ e && !unchecked then some "served-after-ttl-elapsed" else some "ttl-exceeds-time-left"
    | none =>
      -- liveness (D3): a stored record with at least one full second left must be returned
      let missing := st.entries.find? (fun (k, e) =>
        k.name == n && rtypeMatches k.rtype qtype && st.now + NANOS ≤ e &&
        !(rrs.any (fun rr => rr.rtype == k.rtype && rr.fields == k.fields)))
      match missing with
      | some _ => some "live-record-not-returned"
      | none => none

/-- A lookup is a use of the name when it returns something (`lower` moves).  When it returns nothing
    it MAY still have been one (`upper` moves) - the store holds records of the asked type which
    were filtered out as expired, or did so at some time since the name (re)appeared in the store
    (the Rust keeps the emptied per-type vector) - but not when the name never held a record of
    the asked type: a miss is not a use. -/
def State.afterGet (st : State) (n : Name) (qtype : Nat) (rrs : List RR) : State :=
  let mayTouch := !rrs.isEmpty || st.seen.any (fun (m, t) => m == n && rtypeMatches t qtype)
  let st1 := if mayTouch && (assocGet st.upper n).isSome then { st with upper := assocSet st.upper n st.now } else st
  if rrs.isEmpty then st1 else { st1 with lower := assocSet st1.lower n st.now }

def minList : List Nat → Option Nat
  | [] => none
  | x :: xs => match minList xs with
    | none => some x
    | some m => some (min x m)

def sameKeys (a b : List (Name × Nat)) : Bool :=
  a.length == b.length && a.all (fun x => b.contains x) && (a.map (·.1)).Nodup

/-- the structural invariant of C15 on a dump (queues, counters, next-expiry). -/
def dumpInvariant (d : Dump) : Option String :=
  let total := (d.parts.map (·.recs.length)).sum
  if d.currentSize != total then some "current-size-not-record-count"
  else if !d.parts.all (fun p => p.size == p.recs.length) then some "partition-size-wrong"
  else if !d.parts.all (fun p => !p.recs.isEmpty) then some "empty-partition-kept"
  else if !d.parts.all (fun p => minList (p.recs.map (·.expiry)) == some p.nextExpiry) then some "next-expiry-not-minimum"
  else if !(d.parts.map (·.name)).Nodup then some "duplicate-partition"
  else if !d.parts.all (fun p => (p.recs.map (fun r => (r.rtype, r.fields))).Nodup) then some "duplicate-record"
  else if !sameKeys d.aq (d.parts.map (fun p => (p.name, p.lastRead))) then some "access-queue-out-of-sync"
  else if !sameKeys d.eq (d.parts.map (fun p => (p.name, p.nextExpiry))) then some "expiry-queue-out-of-sync"
  else none

def dumpEntries (d : Dump) : List (Key × Nat) :=
  d.parts.flatMap (fun p => p.recs.map (fun r => (⟨p.name, r.rtype, r.fields⟩, r.expiry)))

/-- the dump holds exactly the abstract entries (count = number of distinct (name,type,data)),
    satisfies the structural invariant, and its last-use times are within the known bounds. -/
def State.checkDump (st : State) (d : Dump) (ties : Bool) : Option String :=
  match dumpInvariant d with
  | some why => some why
  | none =>
    let des := dumpEntries d
    if d.desiredSize != st.desired then some "desired-size-changed"
    else if !(des.all (fun e => st.entries.contains e)) then some "stored-record-or-expiry-differs-from-last-insert"
    else if !(st.entries.all (fun e => des.contains e)) then some "inserted-record-missing"
    else if !ties && !d.parts.all (fun p =>
        match assocGet st.lower p.name, assocGet st.upper p.name with
        | some lo, some hi => lo ≤ p.lastRead && p.lastRead ≤ hi
        | _, _ => false) then some "last-read-out-of-bounds"
    else none

def liveRecs (p : DPart) (now : Nat) : List DRec := p.recs.filter (fun r => r.expiry > now)

/-- C15: what one `prune` at time `now` must do, judged on the dumps taken right before and after. -/
def checkPrune (now desired : Nat) (b : Dump) (tup : Bool × Nat × Nat × Nat) (a : Dump) : Option String :=
  let (o, n, e, p) := tup
  let totalB := (b.parts.map (·.recs.length)).sum
  let expiredB := (b.parts.map (fun q => (q.recs.filter (fun r => r.expiry ≤ now)).length)).sum
  let totalA := (a.parts.map (·.recs.length)).sum
  if o != decide (totalB > desired) then some "overflow-flag-wrong"
  else if e != expiredB then some "expired-count-wrong"
  else if !(a.parts.all (fun q => q.recs.all (fun r => r.expiry > now))) then some "expired-record-left-behind"
  else if n != totalA then some "remaining-count-wrong"
  else if totalA > desired then some "still-over-size"
  else
    let survivors := a.parts.map (·.name)
    let liveB := b.parts.filter (fun q => !(liveRecs q now).isEmpty)
    let evicted := liveB.filter (fun q => !survivors.contains q.name)
    if !(a.parts.all (fun q =>
        match b.parts.find? (·.name == q.name) with
        | none => false
        | some qb =>
          let lb := liveRecs qb now
          lb.length == q.recs.length && lb.all (fun r => q.recs.contains r) && q.lastRead == qb.lastRead)) then
      some "survivor-changed-or-invented"
    else if p != (evicted.map (fun q => (liveRecs q now).length)).sum then some "pruned-count-wrong"
    else if !(evicted.all (fun ev => a.parts.all (fun sv => ev.lastRead ≤ sv.lastRead))) then
      some "evicted-not-least-recently-used"
    else
      let liveTotal := (liveB.map (fun q => (liveRecs q now).length)).sum
      if liveTotal ≤ desired && !evicted.isEmpty then some "evicted-while-not-over-size"
      else
        let maxLR := evicted.foldl (fun m q => max m q.lastRead) 0
        if !evicted.isEmpty &&
            !(evicted.any (fun q => q.lastRead == maxLR && totalA + (liveRecs q now).length > desired)) then
          some "evicted-more-than-needed"
        else none

/-- after a prune the abstract map keeps exactly the entries that survived. -/
def State.afterPrune (st : State) (a : Dump) : State :=
  let des := dumpEntries a
  let names := a.parts.map (·.name)
  { st with entries := st.entries.filter (fun e => des.contains e)
            lower := st.lower.filter (fun x => names.contains x.1)
            upper := st.upper.filter (fun x => names.contains x.1)
            seen := st.seen.filter (fun x => names.contains x.1) }

end Resolved.CSpec
