/-
  Basic facts about the zone-text model (Model/ZoneText.lean): the escape reader, progress of the
  tokeniser, sufficiency of the fuel of `parseEntry` / `deserialiseLoop`.
-/
import Resolved.Model.ZoneText

namespace Resolved.ZoneText

open Resolved Resolved.IpText

/-! ## `tokeniseEscape` -/

theorem toDigit10_le {c : Char} {d : Nat} (h : toDigit10 c = some d) : d ≤ 9 := by
  unfold toDigit10 at h
  split at h
  · cases h; omega
  · cases h

/-- the count returned by `tokeniseEscape` is 1 or 3 and never more than what the stream holds. -/
theorem tokeniseEscape_count {cs : List Char} {o : UInt8} {n : Nat}
    (h : tokeniseEscape cs = .ok (o, n)) : 1 ≤ n ∧ n ≤ cs.length := by
  unfold tokeniseEscape at h
  split at h
  · cases h
  · rename_i c1 r1
    split at h
    · split at h
      · cases h
      · split at h
        · split at h
          · cases h
          · split at h
            · split at h
              · cases h; simp
              · cases h
            · cases h
        · cases h
    · split at h
      · cases h; simp
      · cases h

/-! ## progress of the tokeniser -/

theorem tokLoop_rest_le (cs : List Char) :
    ∀ (skip : Nat) (rtoks : List Token) (rstr : List Char) (roct : List UInt8) (st : TState) (lc : Bool)
      (toks : List Token) (rest : List Char),
      tokLoop skip cs rtoks rstr roct st lc = .ok (toks, rest) → rest.length ≤ cs.length := by
  induction cs with
  | nil =>
    intro skip rtoks rstr roct st lc toks rest h
    simp only [tokLoop] at h
    cases h; simp
  | cons c cs ih =>
    intro skip rtoks rstr roct st lc toks rest h
    have step : ∀ {skip' rtoks' rstr' roct' st' lc'},
        tokLoop skip' cs rtoks' rstr' roct' st' lc' = .ok (toks, rest) → rest.length ≤ (c :: cs).length := by
      intro _ _ _ _ _ _ h'
      have := ih _ _ _ _ _ _ _ _ h'
      simp only [List.length_cons]; omega
    have done : ∀ {x : List Token}, (Except.ok (x, cs) : Except Error _) = .ok (toks, rest) →
        rest.length ≤ (c :: cs).length := by
      intro _ h'
      cases h'; simp
    cases skip with
    | succ k => simp only [tokLoop] at h; exact step h
    | zero =>
      simp only [tokLoop] at h
      cases st <;> simp only at h <;>
        repeat' split at h
      all_goals first
        | exact step h
        | exact done h
        | cases h

/-- **progress**: a `tokenise_entry` call on a non-empty stream consumes at least one char. -/
theorem tokeniseEntry_progress {cs : List Char} {toks : List Token} {rest : List Char}
    (h : tokeniseEntry cs = .ok (toks, rest)) (hne : cs ≠ []) : rest.length < cs.length := by
  cases cs with
  | nil => exact absurd rfl hne
  | cons c cs =>
    unfold tokeniseEntry at h
    simp only [tokLoop] at h
    repeat' split at h
    all_goals first
      | (have := tokLoop_rest_le _ _ _ _ _ _ _ _ _ h; simp only [List.length_cons]; omega)
      | (cases h; simp)
      | cases h

/-- on the empty stream `tokenise_entry` returns no tokens and the empty stream. -/
theorem tokeniseEntry_nil : tokeniseEntry [] = .ok ([], []) := by
  simp [tokeniseEntry, tokLoop, pushNonEmpty]

theorem tokeniseEntry_rest_le {cs : List Char} {toks : List Token} {rest : List Char}
    (h : tokeniseEntry cs = .ok (toks, rest)) : rest.length ≤ cs.length :=
  tokLoop_rest_le _ _ _ _ _ _ _ _ _ h

/-! ## fuel of `parseEntry` and of the entry loop -/

/-- what `parseEntry` returns leaves a stream no longer than the one it got, and strictly shorter
    when it returns an entry. -/
theorem parseEntry_rest (fuel : Nat) :
    ∀ (o : Option Name) (pd : Option MaybeWildcard) (pt : Option Nat) (s : List Char)
      (e : Option Entry) (rest : List Char),
      parseEntry fuel o pd pt s = .ok e rest →
        rest.length ≤ s.length ∧ (e.isSome → rest.length < s.length) := by
  induction fuel with
  | zero => intro o pd pt s e rest h; simp [parseEntry] at h
  | succ f ih =>
    intro o pd pt s e rest h
    simp only [parseEntry] at h
    split at h
    · cases h
    · rename_i tokens rest' htok
      have hle := tokeniseEntry_rest_le htok
      split at h
      · split at h
        · cases h; exact ⟨hle, by simp⟩
        · have := ih _ _ _ _ _ _ h
          exact ⟨by omega, fun he => by have := this.2 he; omega⟩
      · rename_i t0 ts
        have hne : s ≠ [] := by
          intro hs
          subst hs
          rw [tokeniseEntry_nil] at htok
          cases htok
        have hlt := tokeniseEntry_progress htok hne
        split at h
        · cases h; exact ⟨by omega, fun _ => hlt⟩
        · cases h

/-- **the fuel of `parseEntry` suffices**: with more fuel than chars it never runs out. -/
theorem parseEntry_fuel_suffices (fuel : Nat) :
    ∀ (o : Option Name) (pd : Option MaybeWildcard) (pt : Option Nat) (s : List Char),
      s.length < fuel → parseEntry fuel o pd pt s ≠ .outOfFuel := by
  induction fuel with
  | zero => intro o pd pt s h; omega
  | succ f ih =>
    intro o pd pt s hlen
    simp only [parseEntry]
    split
    · simp
    · rename_i tokens rest htok
      split
      · split
        · simp
        · rename_i hrest
          have hne : s ≠ [] := by
            intro hs
            subst hs
            rw [tokeniseEntry_nil] at htok
            cases htok
            simp at hrest
          have := tokeniseEntry_progress htok hne
          exact ih _ _ _ _ (by omega)
      · split <;> simp

/-- **the fuel of the entry loop suffices**. -/
theorem deserialiseLoop_fuel_suffices (fuel : Nat) :
    ∀ (st : DState) (s : List Char), s.length < fuel → deserialiseLoop fuel st s ≠ none := by
  induction fuel with
  | zero => intro st s h; omega
  | succ f ih =>
    intro st s hlen
    simp only [deserialiseLoop]
    split
    · rename_i h
      exact absurd h (parseEntry_fuel_suffices _ _ _ _ _ (by omega))
    · simp
    · simp
    · rename_i entry rest h
      have hr := (parseEntry_rest _ _ _ _ _ _ _ h).2 (by simp)
      have hf : rest.length < f := by omega
      split
      · exact ih _ _ hf
      · simp
      · split
        · split
          · simp
          · exact ih _ _ hf
        · exact ih _ _ hf
      · split
        · simp
        · exact ih _ _ hf

def DResult.isOutOfFuel : DResult → Bool
  | .outOfFuel => true
  | _ => false

theorem insertAll_not_outOfFuel (wild : Bool) (rrs : List RR) :
    ∀ z : Zone, (insertAll wild z rrs).isOutOfFuel = false := by
  induction rrs with
  | nil => intro z; rfl
  | cons rr rest ih =>
    intro z
    simp only [insertAll]
    split
    · rfl
    · split
      · rfl
      · exact ih _

theorem buildZone_not_outOfFuel (st : DState) : (buildZone st).isOutOfFuel = false := by
  unfold buildZone
  simp only
  split
  · exact insertAll_not_outOfFuel _ _ _
  · rename_i r h
    have := insertAll_not_outOfFuel false st.rrs.reverse
      (match st.apexAndSoa with | some (apex, soa) => Zone.new apex (some soa) | none => Zone.default)
    exact this

/-- `Zone.deserialise` never reports `outOfFuel`. -/
theorem deserialise_not_outOfFuel (data : List Char) : (deserialise data).isOutOfFuel = false := by
  unfold deserialise
  have := deserialiseLoop_fuel_suffices (data.length + 1) {} data (by omega)
  split
  · rename_i h; exact absurd h this
  · rfl
  · exact buildZone_not_outOfFuel _

end Resolved.ZoneText
