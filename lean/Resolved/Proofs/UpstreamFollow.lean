/-
  Lemmas about `followLoop` / `followCnames` (`Resolved/Model/Upstream.lean`):
  fuel sufficiency, loop detection, and the chain structure of the result.
-/
import Resolved.Proofs.UpstreamLemmas

namespace Resolved

/-! ### association-list facts -/

theorem nmGet_nmInsert (m : NameMap) (k v a : Name) :
    nmGet (nmInsert m k v) a = if k = a then some v else nmGet m a := by
  induction m with
  | nil => simp [nmInsert, nmGet]
  | cons p m ih =>
    obtain ⟨k', v'⟩ := p
    unfold nmInsert
    by_cases hk : k' = k
    · subst hk
      simp only [if_true, nmGet]
      split <;> rfl
    · simp only [hk, if_false, nmGet, ih]
      by_cases ha : k' = a
      · subst ha
        simp [Ne.symm hk]
      · simp [ha]

theorem nmGet_mem {m : NameMap} {a b : Name} (h : nmGet m a = some b) : (a, b) ∈ m := by
  induction m with
  | nil => cases h
  | cons p m ih =>
    obtain ⟨k, v⟩ := p
    unfold nmGet at h
    split at h
    · rename_i hk
      cases h; subst hk
      exact List.mem_cons_self
    · exact List.mem_cons_of_mem _ (ih h)

theorem nmGet_mem_vals {m : NameMap} {a b : Name} (h : nmGet m a = some b) : b ∈ m.map (·.2) :=
  List.mem_map.mpr ⟨(a, b), nmGet_mem h, rfl⟩

theorem nmGet_append (m1 m2 : NameMap) (a : Name) :
    nmGet (m1 ++ m2) a = match nmGet m1 a with | some b => some b | none => nmGet m2 a := by
  induction m1 with
  | nil => simp [nmGet]
  | cons p m ih =>
    obtain ⟨k, v⟩ := p
    simp only [List.cons_append, nmGet]
    split
    · rfl
    · exact ih

theorem nmInsert_of_get_none {m : NameMap} {k v : Name} (h : nmGet m k = none) :
    nmInsert m k v = m ++ [(k, v)] := by
  induction m with
  | nil => rfl
  | cons p m ih =>
    obtain ⟨k', v'⟩ := p
    unfold nmGet at h
    split at h
    · cases h
    · rename_i hk
      unfold nmInsert
      simp only [hk, if_false, List.cons_append, ih h]

/-- with distinct keys, membership is lookup. -/
theorem nmGet_of_mem_nodup {m : NameMap} {a b : Name} (hnd : (m.map (·.1)).Nodup) (h : (a, b) ∈ m) :
    nmGet m a = some b := by
  induction m with
  | nil => cases h
  | cons p m ih =>
    obtain ⟨k, v⟩ := p
    simp only [List.map_cons, List.nodup_cons] at hnd
    unfold nmGet
    rcases List.mem_cons.mp h with h0 | h0
    · cases h0; simp
    · have hk : k ≠ a := by
        intro hk; subst hk
        exact hnd.1 (List.mem_map.mpr ⟨(k, b), h0, rfl⟩)
      simp only [hk, if_false]
      exact ih hnd.2 h0

/-! ### pigeonhole -/

theorem nodup_subset_length {α : Type} [DecidableEq α] (l l' : List α) (hnd : l.Nodup)
    (hsub : ∀ x ∈ l, x ∈ l') : l.length ≤ l'.length := by
  induction l generalizing l' with
  | nil => simp
  | cons a l ih =>
    simp only [List.nodup_cons] at hnd
    have ha : a ∈ l' := hsub a List.mem_cons_self
    have h1 : l.length ≤ (l'.erase a).length := by
      apply ih _ hnd.2
      intro x hx
      have hxa : x ≠ a := by intro h; subst h; exact hnd.1 hx
      exact (List.mem_erase_of_ne hxa).mpr (hsub x (List.mem_cons_of_mem _ hx))
    have h2 : (l'.erase a).length = l'.length - 1 := List.length_erase_of_mem ha
    have h3 : 0 < l'.length := List.length_pos_of_mem ha
    simp only [List.length_cons]
    omega

/-! ### chains -/

/-- `path = [t₁, …, t_k]` with `n ↦ t₁ ↦ … ↦ t_k` in `m`. -/
def ChainFrom (m : NameMap) : Name → List Name → Prop
  | _, [] => True
  | n, t :: rest => nmGet m n = some t ∧ ChainFrom m t rest

/-- the last name of `n :: path`. -/
def lastOr : Name → List Name → Name
  | n, [] => n
  | _, t :: p => lastOr t p

theorem lastOr_eq_getLast (n : Name) (path : List Name) :
    (n :: path).getLast? = some (lastOr n path) := by
  induction path generalizing n with
  | nil => rfl
  | cons t p ih =>
    rw [List.getLast?_cons_cons, ih]
    rfl

/-- the links `[(n,t₁), (t₁,t₂), …]` of a path. -/
def linksOf (n : Name) (path : List Name) : NameMap := (n :: path).zip path

theorem linksOf_cons (n t : Name) (p : List Name) : linksOf n (t :: p) = (n, t) :: linksOf t p := rfl

def insertAll (fol : NameMap) (ls : NameMap) : NameMap := ls.foldl (fun f p => nmInsert f p.1 p.2) fol

/-- a chain element is the end of the chain, or its successor is on the chain too. -/
theorem chain_mem_succ {m : NameMap} {n : Name} {path : List Name} (hc : ChainFrom m n path)
    {x : Name} (hx : x ∈ path) : x = lastOr n path ∨ ∃ y, nmGet m x = some y ∧ y ∈ path := by
  induction path generalizing n with
  | nil => cases hx
  | cons t p ih =>
    obtain ⟨_, hc'⟩ := hc
    rcases List.mem_cons.mp hx with h | h
    · subst h
      cases p with
      | nil => exact Or.inl rfl
      | cons u p' => exact Or.inr ⟨u, hc'.1, by simp⟩
    · rcases ih hc' h with h1 | ⟨y, h1, h2⟩
      · exact Or.inl h1
      · exact Or.inr ⟨y, h1, List.mem_cons_of_mem _ h2⟩

/-- a duplicate-free chain that ends in a name without successor never returns to its start. -/
theorem chain_start_not_mem {m : NameMap} {n : Name} {path : List Name} (hc : ChainFrom m n path)
    (hnd : path.Nodup) (hend : nmGet m (lastOr n path) = none) : n ∉ path := by
  cases path with
  | nil => simp
  | cons t p =>
    obtain ⟨hnt, hc'⟩ := hc
    simp only [List.nodup_cons] at hnd
    have hend' : nmGet m (lastOr t p) = none := hend
    intro hmem
    rcases List.mem_cons.mp hmem with h | h
    · -- n = t
      subst h
      cases p with
      | nil =>
        simp only [lastOr] at hend'
        rw [hend'] at hnt; cases hnt
      | cons u p' =>
        have := hc'.1
        rw [hnt] at this
        cases this
        exact hnd.1 (by simp)
    · rcases chain_mem_succ hc' h with h1 | ⟨y, h1, h2⟩
      · rw [← h1, hnt] at hend'; cases hend'
      · rw [hnt] at h1; cases h1
        exact hnd.1 h2

theorem insertAll_linksOf {fol : NameMap} {n : Name} {path : List Name} (hnd : (n :: path).Nodup)
    (hfol : ∀ k ∈ n :: path, nmGet fol k = none) :
    insertAll fol (linksOf n path) = fol ++ linksOf n path := by
  induction path generalizing n fol with
  | nil => simp [linksOf, insertAll]
  | cons t p ih =>
    rw [linksOf_cons]
    have hn : nmGet fol n = none := hfol n List.mem_cons_self
    have hnd' : (t :: p).Nodup := (List.nodup_cons.mp hnd).2
    have hnp : n ∉ t :: p := (List.nodup_cons.mp hnd).1
    show insertAll (nmInsert fol n t) (linksOf t p) = _
    rw [nmInsert_of_get_none hn, ih hnd']
    · simp
    · intro k hk
      rw [nmGet_append, hfol k (List.mem_cons_of_mem _ hk)]
      have : n ≠ k := by intro h; subst h; exact hnp hk
      simp [nmGet, this]

theorem linksOf_keys_nodup {n : Name} {path : List Name} (hnd : (n :: path).Nodup) :
    ((linksOf n path).map (·.1)).Nodup := by
  induction path generalizing n with
  | nil => simp [linksOf]
  | cons t p ih =>
    rw [linksOf_cons]
    simp only [List.map_cons, List.nodup_cons]
    refine ⟨?_, ih (List.nodup_cons.mp hnd).2⟩
    intro hmem
    obtain ⟨⟨a, b⟩, hab, ha⟩ := List.mem_map.mp hmem
    simp only at ha
    subst ha
    have : a ∈ t :: p := (List.of_mem_zip hab).1
    exact (List.nodup_cons.mp hnd).1 this

/-! ### followLoop -/

theorem followLoop_succ (m : NameMap) (fuel : Nat) (n : Name) (seen : List Name) (fol : NameMap) :
    followLoop m (fuel + 1) n seen fol =
      match nmGet m n with
      | none => some (n, seen, fol)
      | some t =>
        if seen.contains t then none
        else followLoop m fuel t (seen ++ [t]) (nmInsert fol n t) := rfl

/-- structure of a successful run. -/
theorem followLoop_some {m : NameMap} {fuel : Nat} {n : Name} {seen : List Name} {fol : NameMap}
    {fin : Name} {seen' : List Name} {fol' : NameMap}
    (h : followLoop m fuel n seen fol = some (fin, seen', fol')) :
    ∃ path, seen' = seen ++ path ∧ ChainFrom m n path ∧ fin = lastOr n path ∧
      nmGet m fin = none ∧ (∀ t ∈ path, t ∉ seen) ∧ path.Nodup ∧
      fol' = insertAll fol (linksOf n path) := by
  induction fuel generalizing n seen fol with
  | zero => cases h
  | succ fuel ih =>
    rw [followLoop_succ] at h
    split at h
    · rename_i hg
      cases h
      exact ⟨[], by simp, trivial, rfl, hg, by simp, List.nodup_nil, rfl⟩
    · rename_i t hg
      split at h
      · cases h
      · rename_i hnc
        have hts : t ∉ seen := by simpa using hnc
        obtain ⟨p, h1, h2, h3, h4, h5, h6, h7⟩ := ih h
        refine ⟨t :: p, by simp [h1], ⟨hg, h2⟩, h3, h4, ?_, ?_, ?_⟩
        · intro x hx
          rcases List.mem_cons.mp hx with hx | hx
          · subst hx; exact hts
          · intro hs; exact h5 x hx (List.mem_append_left _ hs)
        · refine List.nodup_cons.mpr ⟨?_, h6⟩
          intro hp; exact h5 t hp (by simp)
        · rw [h7, linksOf_cons]; rfl

/-- a detected loop gives `none` whatever the fuel. -/
theorem followLoop_none_of_loop {m : NameMap} {n : Name} {seen : List Name} {path : List Name}
    {t : Name} (hc : ChainFrom m n path) (hdis : ∀ x ∈ path, x ∉ seen) (hnd : path.Nodup)
    (hlast : nmGet m (lastOr n path) = some t) (ht : t ∈ seen ++ path) (fuel : Nat) (fol : NameMap) :
    followLoop m fuel n seen fol = none := by
  induction path generalizing n seen fol fuel with
  | nil =>
    cases fuel with
    | zero => rfl
    | succ fuel =>
      rw [followLoop_succ]
      simp only [lastOr] at hlast
      have : t ∈ seen := by simpa using ht
      simp [hlast, this]
  | cons a p ih =>
    cases fuel with
    | zero => rfl
    | succ fuel =>
      rw [followLoop_succ]
      obtain ⟨hna, hc'⟩ := hc
      have has : a ∉ seen := hdis a List.mem_cons_self
      simp only [hna, List.contains_eq_mem, has, decide_false, Bool.false_eq_true, if_false]
      obtain ⟨hap, hnd'⟩ := List.nodup_cons.mp hnd
      apply ih hc' _ hnd'
      · exact hlast
      · simpa using ht
      · intro x hx hs
        rcases List.mem_append.mp hs with hs | hs
        · exact hdis x (List.mem_cons_of_mem _ hx) hs
        · have : x = a := by simpa using hs
          subst this; exact hap hx

/-- the bookkeeping invariant of `seen`: duplicate-free values of the map. -/
def SeenOk (m : NameMap) (seen : List Name) : Prop := seen.Nodup ∧ ∀ x ∈ seen, x ∈ m.map (·.2)

theorem SeenOk.length_le {m : NameMap} {seen : List Name} (h : SeenOk m seen) : seen.length ≤ m.length := by
  have := nodup_subset_length seen (m.map (·.2)) h.1 h.2
  simpa using this

theorem SeenOk.snoc {m : NameMap} {seen : List Name} {n t : Name} (h : SeenOk m seen)
    (hg : nmGet m n = some t) (ht : t ∉ seen) : SeenOk m (seen ++ [t]) := by
  constructor
  · rw [List.nodup_append]
    refine ⟨h.1, by simp, ?_⟩
    intro a ha b hb
    have : b = t := by simpa using hb
    subst this
    intro hab; subst hab; exact ht ha
  · intro x hx
    rcases List.mem_append.mp hx with hx | hx
    · exact h.2 x hx
    · have : x = t := by simpa using hx
      subst this
      exact nmGet_mem_vals hg

/-- with enough fuel, more fuel changes nothing. -/
theorem followLoop_fuel_indep {m : NameMap} {fuel : Nat} {n : Name} {seen : List Name} {fol : NameMap}
    (hs : SeenOk m seen) (hf : m.length + 1 ≤ fuel + seen.length) (k : Nat) :
    followLoop m (fuel + k) n seen fol = followLoop m fuel n seen fol := by
  induction fuel generalizing n seen fol with
  | zero => have := hs.length_le; omega
  | succ fuel ih =>
    have : fuel + 1 + k = (fuel + k) + 1 := by omega
    rw [this, followLoop_succ, followLoop_succ]
    split
    · rfl
    · rename_i t hg
      split
      · rfl
      · rename_i hnc
        have hts : t ∉ seen := by simpa using hnc
        apply ih (hs.snoc hg hts)
        simp only [List.length_append, List.length_cons, List.length_nil]
        omega

/-- with enough fuel, `none` means a loop was really found. -/
theorem followLoop_none_loop {m : NameMap} {fuel : Nat} {n : Name} {seen : List Name} {fol : NameMap}
    (hs : SeenOk m seen) (hf : m.length + 1 ≤ fuel + seen.length)
    (h : followLoop m fuel n seen fol = none) :
    ∃ path t, ChainFrom m n path ∧ (∀ x ∈ path, x ∉ seen) ∧ path.Nodup ∧
      nmGet m (lastOr n path) = some t ∧ t ∈ seen ++ path := by
  induction fuel generalizing n seen fol with
  | zero => have := hs.length_le; omega
  | succ fuel ih =>
    rw [followLoop_succ] at h
    split at h
    · cases h
    · rename_i t hg
      split at h
      · rename_i hc
        have hts : t ∈ seen := by simpa using hc
        exact ⟨[], t, trivial, by simp, List.nodup_nil, hg, by simpa using hts⟩
      · rename_i hnc
        have hts : t ∉ seen := by simpa using hnc
        have hf' : m.length + 1 ≤ fuel + (seen ++ [t]).length := by
          simp only [List.length_append, List.length_cons, List.length_nil]; omega
        obtain ⟨p, t', h1, h2, h3, h4, h5⟩ := ih (hs.snoc hg hts) hf' h
        refine ⟨t :: p, t', ⟨hg, h1⟩, ?_, ?_, h4, by simpa using h5⟩
        · intro x hx
          rcases List.mem_cons.mp hx with hx | hx
          · subst hx; exact hts
          · intro hs'; exact h2 x hx (List.mem_append_left _ hs')
        · refine List.nodup_cons.mpr ⟨?_, h3⟩
          intro hp; exact h2 t hp (by simp)

theorem seenOk_nil (m : NameMap) : SeenOk m [] := ⟨List.nodup_nil, by simp⟩

/-! ### the CNAME map of `followCnames` -/

def cnStep (m : NameMap) (rr : RR) : NameMap :=
  match cnameTarget rr with
  | some t => nmInsert m rr.name t
  | none => m

/-- the `cname_map` built by `follow_cnames`. -/
def buildMap (rrs : List RR) : NameMap := rrs.foldl cnStep []

/-- the map actually followed (Rust fix 95d17ac): empty for a question of type CNAME (the alias
    record is the answer and is not followed), the `cname_map` of the records otherwise. -/
def followMap (rrs : List RR) (qtype : Nat) : NameMap :=
  if qtype == RT_CNAME then [] else buildMap rrs

theorem followMap_cname (rrs : List RR) : followMap rrs RT_CNAME = [] := rfl

theorem followMap_of_ne {qtype : Nat} (h : qtype ≠ RT_CNAME) (rrs : List RR) :
    followMap rrs qtype = buildMap rrs := by
  unfold followMap
  simp [h]

/-- the followed map is the `cname_map` of a sub-list of the records (none of them for a CNAME
    question). -/
theorem followMap_eq_buildMap (rrs : List RR) (qtype : Nat) :
    followMap rrs qtype = buildMap (if qtype == RT_CNAME then [] else rrs) := by
  unfold followMap
  split <;> rfl

theorem followCnames_eq (rrs : List RR) (target : Name) (qtype : Nat) :
    followCnames rrs target qtype =
      match followLoop (followMap rrs qtype) ((followMap rrs qtype).length + 1) target [] [] with
      | none => none
      | some (finalName, seen, followed) =>
        if rrs.any (fun rr => rr.name == target && rtypeMatches rr.rtype qtype) || !seen.isEmpty
        then some (finalName, followed) else none := rfl

/-- a question for the CNAME type: nothing is followed; the question name is returned (with no
    followed link) exactly when the records hold a CNAME record owned by it. -/
theorem followCnames_cname (rrs : List RR) (target : Name) :
    followCnames rrs target RT_CNAME =
      if rrs.any (fun rr => rr.name == target && rtypeMatches rr.rtype RT_CNAME)
      then some (target, []) else none := by
  rw [followCnames_eq, followMap_cname]
  simp [followLoop, nmGet]

/-- the target of the last CNAME record of `rrs` owned by `a` (a later insert overwrites). -/
def lastCname : List RR → Name → Option Name
  | [], _ => none
  | rr :: rest, a =>
    match lastCname rest a with
    | some t => some t
    | none => if rr.name = a then cnameTarget rr else none

theorem nmGet_cnStep (m : NameMap) (rr : RR) (a : Name) :
    nmGet (cnStep m rr) a =
      match (if rr.name = a then cnameTarget rr else none) with
      | some t => some t
      | none => nmGet m a := by
  unfold cnStep
  cases hc : cnameTarget rr with
  | none => simp
  | some t =>
    simp only [nmGet_nmInsert]
    split <;> rfl

theorem nmGet_foldl_cnStep (rrs : List RR) (m0 : NameMap) (a : Name) :
    nmGet (rrs.foldl cnStep m0) a =
      match lastCname rrs a with
      | some t => some t
      | none => nmGet m0 a := by
  induction rrs generalizing m0 with
  | nil => rfl
  | cons rr rest ih =>
    simp only [List.foldl_cons, ih, lastCname]
    cases lastCname rest a with
    | some t => rfl
    | none => simp only [nmGet_cnStep]

theorem nmGet_buildMap (rrs : List RR) (a : Name) : nmGet (buildMap rrs) a = lastCname rrs a := by
  unfold buildMap
  rw [nmGet_foldl_cnStep]
  cases lastCname rrs a <;> rfl

theorem lastCname_some {rrs : List RR} {a t : Name} (h : lastCname rrs a = some t) :
    ∃ rr ∈ rrs, rr.name = a ∧ cnameTarget rr = some t := by
  induction rrs with
  | nil => cases h
  | cons rr rest ih =>
    unfold lastCname at h
    split at h
    · rename_i t' ht
      cases h
      obtain ⟨r, hr, h1⟩ := ih ht
      exact ⟨r, List.mem_cons_of_mem _ hr, h1⟩
    · split at h
      · rename_i hn
        exact ⟨rr, List.mem_cons_self, hn, h⟩
      · cases h

theorem lastCname_none {rrs : List RR} {a : Name} (h : lastCname rrs a = none) :
    ∀ rr ∈ rrs, rr.name = a → cnameTarget rr = none := by
  induction rrs with
  | nil => intro rr hr; cases hr
  | cons rr rest ih =>
    unfold lastCname at h
    split at h
    · cases h
    · rename_i hn
      intro r hr hra
      rcases List.mem_cons.mp hr with h0 | h0
      · subst h0
        simpa [hra] using h
      · exact ih hn r h0 hra

theorem chain_iff_links {m : NameMap} {n : Name} {path : List Name} :
    ChainFrom m n path ↔ ∀ p ∈ linksOf n path, nmGet m p.1 = some p.2 := by
  induction path generalizing n with
  | nil => simp [ChainFrom, linksOf]
  | cons t p ih =>
    rw [linksOf_cons]
    simp only [ChainFrom, ih, List.mem_cons, forall_eq_or_imp]

/-- a chain in the empty map has no link. -/
theorem chainFrom_nil {n : Name} {path : List Name} (h : ChainFrom [] n path) : path = [] := by
  cases path with
  | nil => rfl
  | cons t p => exact absurd h.1 (by simp [nmGet])

/-- a chain of the followed map is a chain of the `cname_map` of all records. -/
theorem chainFrom_followMap {rrs : List RR} {qtype : Nat} {n : Name} {path : List Name}
    (h : ChainFrom (followMap rrs qtype) n path) : ChainFrom (buildMap rrs) n path := by
  by_cases hq : qtype = RT_CNAME
  · subst hq
    rw [followMap_cname] at h
    rw [chainFrom_nil h]
    trivial
  · rwa [followMap_of_ne hq] at h

/-- structure of a successful `followCnames`, in terms of the map that was followed. -/
theorem followCnames_some' {rrs : List RR} {target : Name} {qtype : Nat} {fin : Name} {followed : NameMap}
    (h : followCnames rrs target qtype = some (fin, followed)) :
    ∃ path, ChainFrom (followMap rrs qtype) target path ∧ (target :: path).Nodup ∧ fin = lastOr target path ∧
      nmGet (followMap rrs qtype) fin = none ∧ followed = linksOf target path ∧
      (path = [] → rrs.any (fun rr => rr.name == target && rtypeMatches rr.rtype qtype) = true) := by
  rw [followCnames_eq] at h
  split at h
  · cases h
  · rename_i fin' seen fol hfl
    split at h
    · rename_i hcond
      cases h
      obtain ⟨path, h1, h2, h3, h4, _, h6, h7⟩ := followLoop_some hfl
      simp only [List.nil_append] at h1
      subst h1
      have hstart : target ∉ seen := chain_start_not_mem h2 h6 (h3 ▸ h4)
      have hnd : (target :: seen).Nodup := List.nodup_cons.mpr ⟨hstart, h6⟩
      refine ⟨seen, h2, hnd, h3, h4, ?_, ?_⟩
      · rw [h7, insertAll_linksOf hnd (by intro k _; rfl)]
        rfl
      · intro hnil
        subst hnil
        simpa using hcond
    · cases h

/-- structure of a successful `followCnames`, in terms of the `cname_map` of all records: the
    followed chain is a chain of that map; unless the question type is CNAME (then nothing is
    followed: `path = []`) it ends at a name without CNAME record. -/
theorem followCnames_some {rrs : List RR} {target : Name} {qtype : Nat} {fin : Name} {followed : NameMap}
    (h : followCnames rrs target qtype = some (fin, followed)) :
    ∃ path, ChainFrom (buildMap rrs) target path ∧ (target :: path).Nodup ∧ fin = lastOr target path ∧
      (qtype ≠ RT_CNAME → nmGet (buildMap rrs) fin = none) ∧ followed = linksOf target path ∧
      (path = [] → rrs.any (fun rr => rr.name == target && rtypeMatches rr.rtype qtype) = true) ∧
      (qtype = RT_CNAME → path = []) := by
  obtain ⟨path, h1, h2, h3, h4, h5, h6⟩ := followCnames_some' h
  refine ⟨path, chainFrom_followMap h1, h2, h3, ?_, h5, h6, ?_⟩
  · intro hq
    rwa [followMap_of_ne hq] at h4
  · intro hq
    subst hq
    rw [followMap_cname] at h1
    exact chainFrom_nil h1

/-! ### questions for the CNAME type (Rust fix 95d17ac) -/

theorem rtypeMatches_cname (rt : Nat) : rtypeMatches rt RT_CNAME = (rt == RT_CNAME) := rfl

/-- with no followed link, the filter keeps exactly the records of the asked type at the final
    name. -/
theorem ansKeep_nil (q : Question) (fin : Name) (an : RR) :
    ansKeep q fin [] an = (rtypeMatches an.rtype q.qtype && an.name == fin) := by
  unfold ansKeep
  cases cnameTarget an <;> simp [nmGet]

/-- the filter on a CNAME question whose answer section holds a CNAME record owned by the question
    name: the known CNAME records owned by the question name, as an answer. -/
theorem validate_cname_question_some {q : Question} {resp : Message} {mc : Nat} (hq : q.qtype = RT_CNAME)
    (hany : resp.answers.any (fun rr => rr.name == q.name && rtypeMatches rr.rtype RT_CNAME) = true) :
    validateNameserverResponse q resp mc =
      if ((knownOf resp).filter (fun an => rtypeMatches an.rtype RT_CNAME && an.name == q.name)).isEmpty
      then none
      else some (.answer
        ((knownOf resp).filter (fun an => rtypeMatches an.rtype RT_CNAME && an.name == q.name)) none) := by
  have hk : ansKeep q q.name [] = fun an => rtypeMatches an.rtype RT_CNAME && an.name == q.name := by
    funext an
    rw [ansKeep_nil, hq]
  rw [validate_eq, hq, followCnames_cname, if_pos hany]
  simp only [hk]
  generalize hK : knownOf resp = K
  by_cases hf : (K.filter (fun an => rtypeMatches an.rtype RT_CNAME && an.name == q.name)).isEmpty = true
  · simp only [hf, if_true]
    split <;> rfl
  · have hne : K.filter (fun an => rtypeMatches an.rtype RT_CNAME && an.name == q.name) ≠ [] := by
      intro h0; rw [h0] at hf; exact hf rfl
    obtain ⟨w, hw⟩ := List.exists_mem_of_ne_nil _ hne
    obtain ⟨hwK, hwp⟩ := List.mem_filter.mp hw
    have hKne : K.isEmpty = false := by
      cases K with
      | nil => cases hwK
      | cons _ _ => rfl
    have hKany : K.any (fun an => rtypeMatches an.rtype RT_CNAME && an.name == q.name) = true :=
      List.any_eq_true.mpr ⟨w, hwK, hwp⟩
    simp only [hKne, hf, hKany, Bool.false_eq_true, if_false, if_true]

/-- the filter on a CNAME question whose answer section holds no CNAME record owned by the question
    name: referral or negative answer only. -/
theorem validate_cname_question_none {q : Question} {resp : Message} {mc : Nat} (hq : q.qtype = RT_CNAME)
    (hany : resp.answers.any (fun rr => rr.name == q.name && rtypeMatches rr.rtype RT_CNAME) = false) :
    validateNameserverResponse q resp mc =
      match chooseNs (getBetterNsNames resp.answers q.name mc) (getBetterNsNames resp.authority q.name mc) with
      | none => (getNxdomainNodataSoa q resp mc).map (fun soa => .answer [] (some soa))
      | some (mn, ns) => some (.delegation (delegRrs resp mn ns) ns mn) := by
  rw [validate_eq, hq, followCnames_cname, hany]
  rfl

end Resolved
