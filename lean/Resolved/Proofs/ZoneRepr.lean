/-
  C02 refinement, step (i)/(iii): the representation relation between the record maps of the tree
  and the flat entry list, and its preservation by insertion.
-/
import Resolved.Proofs.ZoneInsertLemmas

namespace Resolved

open Gen ZSpec

/-! ## record map ↔ flat record list -/

/-- `m` stores exactly the records `zrs` (a duplicate-free list in configuration order), grouped by
    type with the per-type order preserved. -/
def RecRepr (m : RecMap) (zrs : List ZoneRecord) : Prop :=
  m.keys.Nodup ∧ ∀ k, m.get k = if ofType zrs k = [] then none else some (ofType zrs k)

theorem recRepr_nil : RecRepr [] [] := by
  refine ⟨by simp [RecMap.keys], ?_⟩
  intro k; simp [ofType]

theorem ofType_append (a b : List ZoneRecord) (k : Nat) : ofType (a ++ b) k = ofType a k ++ ofType b k := by
  simp [ofType]

theorem mem_ofType {zrs : List ZoneRecord} {k : Nat} {zr : ZoneRecord} :
    zr ∈ ofType zrs k ↔ zr ∈ zrs ∧ zr.rtype = k := by
  simp [ofType]

theorem ofType_pushNew (zrs : List ZoneRecord) (zr : ZoneRecord) (k : Nat) :
    ofType (pushNew zrs zr) k = if zr.rtype = k then pushNew (ofType zrs k) zr else ofType zrs k := by
  unfold pushNew
  by_cases hk : zr.rtype = k
  · simp only [hk, if_true]
    have hmem : (ofType zrs k).contains zr = zrs.contains zr := by
      rw [Bool.eq_iff_iff]; simp [mem_ofType, hk]
    rw [hmem]
    split
    · rfl
    · simp [ofType, hk]
  · simp only [hk, if_false]
    split
    · rfl
    · simp [ofType, hk]

theorem pushNew_ne_nil (l : List ZoneRecord) (zr : ZoneRecord) : pushNew l zr ≠ [] := by
  unfold pushNew
  split
  · rename_i h; intro h2; subst h2; simp at h
  · simp

theorem recRepr_insertRecord (m : RecMap) (zrs : List ZoneRecord) (zr : ZoneRecord)
    (h : RecRepr m zrs) : RecRepr (m.insertRecord zr) (pushNew zrs zr) := by
  refine ⟨RecMap.keys_nodup_insertRecord m zr h.1, ?_⟩
  intro k
  rw [RecMap.get_insertRecord, ofType_pushNew]
  by_cases hk : zr.rtype = k
  · simp only [hk, if_true]
    rw [if_neg (pushNew_ne_nil _ _)]
    rw [h.2 k]
    split <;> rename_i h0 <;> simp [h0]
  · simp only [hk, if_false]
    exact h.2 k

/-- the wildcard record set of a node: absent iff no wildcard record was configured. -/
def WildRepr (w : Option RecMap) (zrs : List ZoneRecord) : Prop :=
  match w with
  | none => zrs = []
  | some ws => zrs ≠ [] ∧ RecRepr ws zrs

theorem wildRepr_insert (w : Option RecMap) (zrs : List ZoneRecord) (zr : ZoneRecord)
    (h : WildRepr w zrs) : WildRepr (some ((w.getD []).insertRecord zr)) (pushNew zrs zr) := by
  refine ⟨pushNew_ne_nil _ _, ?_⟩
  cases w with
  | none =>
    simp only [WildRepr] at h; subst h
    exact recRepr_insertRecord [] [] zr recRepr_nil
  | some ws => exact recRepr_insertRecord ws zrs zr h.2

/-! ## recordsAt / existsNode under appending an entry -/

theorem recordsAt_snoc (es : List Entry) (e : Entry) (rel : List Label) (wild : Bool) :
    recordsAt (es ++ [e]) rel wild =
      if e.rel = rel ∧ e.wild = wild then pushNew (recordsAt es rel wild) e.zr
      else recordsAt es rel wild := by
  unfold recordsAt
  rw [List.filter_append]
  by_cases h : e.rel = rel ∧ e.wild = wild
  · obtain ⟨h1, h2⟩ := h
    subst h1; subst h2
    simp only [List.filter_cons, List.filter_nil, beq_self_eq_true, Bool.and_self, if_true,
      List.map_append, List.map_cons, List.map_nil, and_self]
    rw [eraseDups_snoc]; rfl
  · have : (e.rel == rel && e.wild == wild) = false := by
      rw [Bool.eq_false_iff]; intro hh; apply h
      simpa using hh
    simp [this, h]

theorem recordsAt_nil (rel : List Label) (wild : Bool) : recordsAt [] rel wild = [] := by
  simp [recordsAt]

theorem existsNode_snoc (es : List Entry) (e : Entry) (rel : List Label) :
    existsNode (es ++ [e]) rel = (existsNode es rel || isSuffix rel e.rel) := by
  simp [existsNode, Bool.or_assoc]

/-! ## the tree invariant -/

/-- the record sets `v` of a node represent the entries owned at `rel`. -/
def ViewRepr (v : RecMap × Option RecMap) (es : List Entry) (rel : List Label) : Prop :=
  RecRepr v.1 (recordsAt es rel false) ∧ WildRepr v.2 (recordsAt es rel true)

/-- `root` is the tree of the entry list `es`: a node exists at (reversed) path `p` exactly when the
    name exists in the sense of the specification, and its record sets are the entries owned there. -/
structure TreeRepr (root : ZNode) (es : List Entry) : Prop where
  names : ZNode.NamesOK root
  exist : ∀ p, (root.descend p).isSome = existsNode es p.reverse
  recs : ∀ p, ViewRepr (ZNode.baseView root p) es p.reverse

theorem treeRepr_new (apex : Name) (h : Name.fromLabels apex.labels = some apex) :
    TreeRepr (ZNode.new apex) [] := by
  refine ⟨ZNode.namesOK_new apex h, ?_, ?_⟩
  · intro p
    rw [ZNode.descend_new]
    cases p <;> simp [existsNode]
  · intro p
    rw [ZNode.baseView_new]
    exact ⟨by rw [recordsAt_nil]; exact recRepr_nil, by rw [recordsAt_nil]; rfl⟩

theorem treeRepr_insertRev (root root' : ZNode) (es : List Entry) (r : List Label) (zr : ZoneRecord)
    (wild : Bool) (h : TreeRepr root es) (hi : root.insertRev r zr wild = some root') :
    TreeRepr root' (es ++ [⟨r.reverse, wild, zr⟩]) := by
  refine ⟨(ZNode.namesOK_insertRev zr wild r root root' h.names hi).1, ?_, ?_⟩
  · intro p
    rw [ZNode.insertRev_descend_isSome zr wild r root root' p hi, existsNode_snoc, h.exist p]
    congr 1
    simp only [isSuffix]
    rw [Bool.eq_iff_iff]
    simp [List.reverse_suffix]
  · intro p
    have hbase := h.recs p
    by_cases hp : p <+: r
    · obtain ⟨n', hd, hv⟩ := ZNode.insertRev_descend_on zr wild r root root' p hi hp
      have hbv : ZNode.baseView root' p = ZNode.view n' := by simp [ZNode.baseView, hd]
      rw [hbv, hv]
      by_cases hpr : p = r
      · subst hpr
        simp only [if_true]
        unfold ViewRepr ZNode.updView
        simp only [recordsAt_snoc, true_and]
        cases wild with
        | true =>
          simp only [if_true, Bool.true_eq_false, if_false]
          exact ⟨hbase.1, wildRepr_insert _ _ zr hbase.2⟩
        | false =>
          simp only [Bool.false_eq_true, if_false, if_true]
          exact ⟨recRepr_insertRecord _ _ zr hbase.1, hbase.2⟩
      · simp only [hpr, if_false]
        have hne : ¬ r.reverse = p.reverse := by
          intro hh; apply hpr
          have := congrArg List.reverse hh; simpa using this.symm
        unfold ViewRepr
        simp only [recordsAt_snoc, hne, false_and, if_false]
        exact hbase
    · have hbv : ZNode.baseView root' p = ZNode.baseView root p := by
        unfold ZNode.baseView
        rw [ZNode.insertRev_descend_off zr wild r root root' p hi hp]
      rw [hbv]
      have hne : ¬ r.reverse = p.reverse := by
        intro hh; apply hp
        have := congrArg List.reverse hh
        simp only [List.reverse_reverse] at this
        rw [this]; exact List.prefix_refl _
      unfold ViewRepr
      simp only [recordsAt_snoc, hne, false_and, if_false]
      exact hbase

end Resolved
