/- Helper lemmas about the `Name` model (C16). -/
import Resolved.Model.Name

namespace Resolved

open Gen

def sumLen (ls : List Label) : Nat := (ls.map List.length).sum

@[simp] theorem sumLen_nil : sumLen [] = 0 := rfl
@[simp] theorem sumLen_cons (l : Label) (ls : List Label) : sumLen (l :: ls) = l.length + sumLen ls := by
  simp [sumLen]
@[simp] theorem sumLen_append (a b : List Label) : sumLen (a ++ b) = sumLen a + sumLen b := by
  simp [sumLen]

/-- ASCII upper-case letter. -/
def isUpper (b : UInt8) : Prop := 65 ≤ b.toNat ∧ b.toNat ≤ 90

instance (b : UInt8) : Decidable (isUpper b) := by unfold isUpper; infer_instance

theorem lowerByte_not_upper (b : UInt8) : ¬ isUpper (lowerByte b) := by
  unfold lowerByte isUpper
  split
  · rename_i h
    have hb : b.toNat < 256 := b.toNat_lt
    have : (UInt8.ofNat (b.toNat + 32)).toNat = b.toNat + 32 := by
      simp; omega
    omega
  · rename_i h; exact h

theorem lowerByte_of_not_upper (b : UInt8) (h : ¬ isUpper b) : lowerByte b = b := by
  unfold lowerByte; unfold isUpper at h; simp [h]

theorem lowerByte_idem (b : UInt8) : lowerByte (lowerByte b) = lowerByte b :=
  lowerByte_of_not_upper _ (lowerByte_not_upper b)

/-- What `Label::try_from` guarantees of a label. -/
def LabelOK (l : Label) : Prop := l.length ≤ LABEL_MAX_LEN ∧ ∀ b ∈ l, ¬ isUpper b

theorem Label.tryFrom_some {bs : List UInt8} {l : Label} (h : Label.tryFrom bs = some l) :
    l = bs.map lowerByte ∧ bs.length ≤ LABEL_MAX_LEN ∧ LabelOK l := by
  unfold Label.tryFrom at h
  split at h
  · cases h
  · rename_i hlen
    cases h
    refine ⟨rfl, by omega, by simp; omega, ?_⟩
    intro b hb
    simp at hb
    obtain ⟨a, _, rfl⟩ := hb
    exact lowerByte_not_upper a

theorem Label.tryFrom_none_iff (bs : List UInt8) : Label.tryFrom bs = none ↔ bs.length > LABEL_MAX_LEN := by
  unfold Label.tryFrom; split <;> simp_all

/-- the loop after a blank label has been seen: only the empty remainder is accepted -/
theorem fromLabelsLoop_true (ls : List Label) (len : Nat) :
    Name.fromLabelsLoop ls true len = if ls = [] then some (true, len) else none := by
  cases ls <;> simp [Name.fromLabelsLoop]

/-- Shape accepted by `from_labels`: non-empty, last label empty, no other label empty. -/
def LabelsShape (ls : List Label) : Prop :=
  ls ≠ [] ∧ ls.getLast? = some [] ∧ ∀ l ∈ ls.dropLast, l ≠ []

instance (ls : List Label) : Decidable (LabelsShape ls) := by unfold LabelsShape; infer_instance

theorem fromLabelsLoop_false (ls : List Label) (len : Nat) :
    Name.fromLabelsLoop ls false len =
      if ∀ l ∈ ls.dropLast, l ≠ [] then some (decide (ls.getLast? = some []), len + sumLen ls)
      else none := by
  induction ls generalizing len with
  | nil => simp [Name.fromLabelsLoop]
  | cons l ls ih =>
    simp only [Name.fromLabelsLoop, Bool.false_eq_true, if_false, Bool.false_or]
    by_cases hl : l = []
    · subst hl
      simp only [List.isEmpty_nil, fromLabelsLoop_true]
      cases ls with
      | nil => simp
      | cons m ms => simp
    · have : l.isEmpty = false := by simp [hl]
      rw [this, ih]
      cases ls with
      | nil => simp [hl]
      | cons m ms =>
        simp only [List.dropLast_cons_cons, List.mem_cons, forall_eq_or_imp, hl, ne_eq, not_false_eq_true,
          true_and, List.getLast?_cons_cons, sumLen_cons]
        split <;> simp [Nat.add_assoc]

theorem fromLabels_eq (ls : List Label) :
    Name.fromLabels ls =
      if LabelsShape ls ∧ ls.length + sumLen ls ≤ DOMAINNAME_MAX_LEN then
        some ⟨ls, ls.length + sumLen ls⟩
      else none := by
  unfold Name.fromLabels LabelsShape
  cases ls with
  | nil => simp
  | cons l ls =>
    rw [fromLabelsLoop_false]
    by_cases h1 : ∀ x ∈ (l :: ls).dropLast, x ≠ []
    · rw [if_pos h1]
      by_cases h2 : (l :: ls).getLast? = some []
      · by_cases h3 : (l :: ls).length + sumLen (l :: ls) ≤ DOMAINNAME_MAX_LEN
        · simp only [h2, decide_true, true_and, h3, if_true, List.isEmpty_cons, Bool.false_eq_true, if_false,
            ne_eq, reduceCtorEq, not_false_eq_true, and_true]
          rw [if_pos (fun x hx => h1 x hx)]; simp
        · simp only [h2, decide_true, true_and, h3, if_false, List.isEmpty_cons, Bool.false_eq_true,
            ne_eq, reduceCtorEq, not_false_eq_true, and_false]
          simp
      · simp [h2]
    · rw [if_neg h1]
      simp only [List.isEmpty_cons, Bool.false_eq_true, if_false]
      rw [if_neg]
      intro h
      exact h1 h.1.2.2

end Resolved
