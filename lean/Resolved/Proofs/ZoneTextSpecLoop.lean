/-
  C11: the entry loop of `Zone::deserialise` on `render ds v`, against `denoteAll ds`.
-/
import Resolved.Proofs.ZoneTextSpecStep

namespace Resolved.ZoneText

open Resolved Resolved.IpText Gen ZTSpec

/-! ## fuel of `parseEntry` -/

theorem parseEntry_fuel_irrelevant (f : Nat) :
    ∀ (g : Nat) (o : Option Name) (pd : Option MaybeWildcard) (pt : Option Nat) (s : List Char),
      s.length < f → s.length < g → parseEntry f o pd pt s = parseEntry g o pd pt s := by
  induction f with
  | zero => intro g o pd pt s h; omega
  | succ f ih =>
    intro g o pd pt s hf hg
    cases g with
    | zero => omega
    | succ g =>
      simp only [parseEntry]
      cases htok : tokeniseEntry s with
      | error e => rfl
      | ok p =>
        obtain ⟨tokens, rest⟩ := p
        simp only
        cases tokens with
        | nil =>
          simp only
          split
          · rfl
          · rename_i hr
            have hne : s ≠ [] := by
              intro hs; subst hs
              rw [tokeniseEntry_nil] at htok
              cases htok
              simp at hr
            have := tokeniseEntry_progress htok hne
            exact ih g o pd pt rest (by omega) (by omega)
        | cons t0 ts => rfl

/-- an entry without tokens (blank line, comment) is skipped by the entry loop. -/
theorem loopStep_skip (st : DState) (s rest : List Char) (h : tokeniseEntry s = .ok ([], rest)) :
    loopStep st s = loopStep st rest := by
  by_cases hs : s = []
  · subst hs
    rw [tokeniseEntry_nil] at h
    cases h
    rfl
  · have hlt := tokeniseEntry_progress h hs
    by_cases hr : rest = []
    · subst hr
      unfold loopStep
      simp [parseEntry, h, tokeniseEntry_nil]
    · have hre : rest.isEmpty = false := by simpa using hr
      have hpe : parseEntry (s.length + 1) st.origin st.previousDomain st.previousTtl s
          = parseEntry (rest.length + 1) st.origin st.previousDomain st.previousTtl rest := by
        rw [← parseEntry_fuel_irrelevant s.length (rest.length + 1) _ _ _ rest hlt (by omega)]
        simp only [parseEntry, h, hre, Bool.false_eq_true, if_false]
      unfold loopStep
      rw [hpe]

/-! ## the other directives -/

theorem resolve_textName (o : Option Name) (ho : ∀ on, o = some on → TextName on) (n : NameRef)
    (hn : nameRefOk false n = true) {nm : Name} (h : resolve o n = .ok nm) : TextName nm := by
  cases n with
  | abs ls =>
    obtain ⟨hlen, hnd, hascii⟩ := labelsOk_props (by simpa [nameRefOk] using hn : ls.all (labelOk false) = true)
    exact mkName_textName hlen hnd hascii h
  | rel ls =>
    obtain ⟨-, hok, -⟩ := nameRefOk_rel hn
    obtain ⟨hlen, hnd, hascii⟩ := labelsOk_props hok
    simp only [resolve] at h
    cases o with
    | none => cases h
    | some on =>
      simp only at h
      obtain ⟨hl2, hn2, ha2, -⟩ := (ho on rfl).init_props
      refine mkName_textName (ls := ls ++ on.labels.dropLast) ?_ ?_ ?_ h
      · intro l hl
        simp only [List.mem_append] at hl
        rcases hl with hl | hl
        · exact hlen l hl
        · exact hl2 l hl
      · intro l hl
        simp only [List.mem_append] at hl
        rcases hl with hl | hl
        · exact hnd l hl
        · exact hn2 l hl
      · intro l hl
        simp only [List.mem_append] at hl
        rcases hl with hl | hl
        · exact hascii l hl
        · exact ha2 l hl
  | «at» =>
    simp only [resolve] at h
    cases o with
    | none => cases h
    | some on => cases h; exact ho _ rfl

/-- **an `$ORIGIN` line in the entry loop**. -/
theorem origin_step (dst : DenoteState) (st : DState) (hrel : StRel dst st) (n : NameRef)
    (hok : directiveOk false (.origin n) = true) (dst' : DenoteState)
    (hden : denoteDirective dst (.origin n) = .ok dst')
    (lv : LineVar) (eol : List Char) (heol : IsEol eol) (hc : CommentOk lv) (tailE rest : List Char)
    (hle : LineEnd eol tailE rest) :
    ∃ st', loopStep st (renderLine lv eol (.origin n) ++ tailE ++ rest) = some (.cont st' rest) ∧ StRel dst' st' := by
  have hn : nameRefOk false n = true := hok
  simp only [denoteDirective] at hden
  cases hr : resolve dst.origin n with
  | error e => rw [hr] at hden; cases hden
  | ok o' =>
    rw [hr] at hden
    simp only [Except.ok.injEq] at hden
    have htok : tokeniseEntry (renderLine lv eol (.origin n) ++ tailE ++ rest)
        = .ok ([(sORIGIN, asciiOctets sORIGIN), (nameChars n, atomOctets (nameAtoms n))], rest) := by
      rw [renderLine_eq lv eol (.origin n) (fun c h => by cases h)]
      have hts : directiveTokens lv (.origin n) = [asciiAtoms sORIGIN, nameAtoms n] := rfl
      rw [hts, tokenise_lineBody_le lv eol heol hc _ _ _
        (by rw [← hts]; exact directiveTokens_structural lv (.origin n)) tailE rest hle]
      simp only [List.map_cons, List.map_nil, tokenOf_asciiAtoms sORIGIN (by decide)]
      rfl
    have hp : parseDomain st.origin (nameChars n) = .ok o' := by
      rw [hrel.origin, parseDomain_spec dst.origin hrel.originOk n hn, hr]; rfl
    refine ⟨{ st with origin := some o' }, ?_, ?_⟩
    · unfold loopStep
      simp only [parseEntry, htok, if_true, parseOrigin, ne_eq, not_true_eq_false, if_false, hp, entryStep]
    · subst hden
      refine ⟨rfl, ?_, hrel.prevOwner, hrel.prevTtl, hrel.soa, hrel.rrs, hrel.wrrs⟩
      intro on hon
      cases hon
      exact resolve_textName dst.origin hrel.originOk n hn hr

/-- **a blank or comment-only line** is skipped. -/
theorem blank_step (st : DState) (c : Option (List Char)) (hok : directiveOk false (.blank c) = true)
    (lv : LineVar) (eol : List Char) (heol : IsEol eol) (tailE rest : List Char) (hle : LineEnd eol tailE rest) :
    loopStep st (renderLine lv eol (.blank c) ++ tailE ++ rest) = loopStep st rest := by
  apply loopStep_skip
  apply tokenise_blank_line_le lv eol heol c _ tailE rest hle
  intro x hx
  subst hx
  simpa [directiveOk] using hok

/-! ## the whole file: the entry loop -/

/-- the variant's comments contain no line feed. -/
def VariantOk (v : FileVar) : Prop := ∀ lv ∈ v.lines, CommentOk lv

theorem cyc_commentOk (v : FileVar) (hv : VariantOk v) (i : Nat) : CommentOk (cyc v.lines i) := by
  unfold cyc
  split
  · intro c hc; cases hc
  · cases hg : v.lines[i % v.lines.length]? with
    | none => intro c hc; cases hc
    | some lv =>
      simp only [Option.getD_some]
      exact hv lv (List.mem_of_getElem? hg)

def eolOf (v : FileVar) : List Char := if v.crlf then ['\r', '\n'] else ['\n']

theorem eolOf_isEol (v : FileVar) : IsEol (eolOf v) := by
  unfold eolOf IsEol
  cases v.crlf <;> simp

theorem renderFrom_cons (v : FileVar) (eol : List Char) (i : Nat) (d : Directive) (ds : List Directive) :
    ∃ tailE, renderFrom v eol i (d :: ds) = renderLine (cyc v.lines i) eol d ++ tailE ++ renderFrom v eol (i + 1) ds
      ∧ LineEnd eol tailE (renderFrom v eol (i + 1) ds) := by
  cases ds with
  | nil =>
    cases hf : v.finalNewline with
    | true => exact ⟨eol, by simp [renderFrom, hf], Or.inl rfl⟩
    | false => exact ⟨[], by simp [renderFrom, hf], Or.inr ⟨rfl, rfl⟩⟩
  | cons d2 ds2 => exact ⟨eol, by simp [renderFrom], Or.inl rfl⟩

/-- **the entry loop on a rendered file**: if the specification accepts all directives, the loop runs to
    the end of the text and arrives in the corresponding state. -/
theorem loop_render (v : FileVar) (hv : VariantOk v) (ds : List Directive) :
    ∀ (i : Nat) (dst : DenoteState) (st : DState) (dstF : DenoteState), StRel dst st →
      (∀ d ∈ ds, directiveOk false d = true) → denoteAll dst ds = .ok dstF →
      ∀ f, (renderFrom v (eolOf v) i ds).length < f →
        ∃ stF, deserialiseLoop f st (renderFrom v (eolOf v) i ds) = some (.ok stF) ∧ StRel dstF stF := by
  induction ds with
  | nil =>
    intro i dst st dstF hrel _ hden f hf
    simp only [denoteAll, Except.ok.injEq] at hden
    subst hden
    obtain ⟨g, rfl⟩ : ∃ g, f = g + 1 := ⟨f - 1, by omega⟩
    exact ⟨st, by simp [renderFrom, loop_end], hrel⟩
  | cons d ds ih =>
    intro i dst st dstF hrel hok hden f hf
    obtain ⟨tailE, hrf, hle⟩ := renderFrom_cons v (eolOf v) i d ds
    rw [hrf] at hf ⊢
    obtain ⟨g, rfl⟩ : ∃ g, f = g + 1 := ⟨f - 1, by omega⟩
    have hdOk := hok d (by simp)
    have hrestOk : ∀ x ∈ ds, directiveOk false x = true := fun x hx => hok x (by simp [hx])
    simp only [denoteAll] at hden
    cases hdd : denoteDirective dst d with
    | error e => rw [hdd] at hden; cases hden
    | ok dst1 =>
      rw [hdd] at hden
      simp only at hden
      have heol := eolOf_isEol v
      have hc := cyc_commentOk v hv i
      cases d with
      | blank c =>
        simp only [denoteDirective, Except.ok.injEq] at hdd
        subst hdd
        rw [deserialiseLoop_succ, blank_step st c hdOk _ _ heol tailE _ hle, ← deserialiseLoop_succ]
        exact ih (i + 1) dst st dstF hrel hrestOk hden (g + 1) (by
          simp only [List.length_append] at hf; omega)
      | «include» p o => simp [denoteDirective] at hdd
      | origin n =>
        obtain ⟨st', hstep, hrel'⟩ := origin_step dst st hrel n hdOk dst1 hdd _ _ heol hc tailE _ hle
        rw [loop_cont g hstep]
        have hlt := loopStep_cont_lt hstep
        exact ih (i + 1) dst1 st' dstF hrel' hrestOk hden g (by omega)
      | record r =>
        obtain ⟨st', hstep, hrel'⟩ := record_step dst st hrel r hdOk dst1 hdd _ _ heol hc tailE _ hle
        rw [loop_cont g hstep]
        have hlt := loopStep_cont_lt hstep
        exact ih (i + 1) dst1 st' dstF hrel' hrestOk hden g (by omega)

/-- **the text side of `parse (render ds v)`**: for directives accepted by the specification,
    `Zone::deserialise` reads the whole rendering without error in the entry loop, and its result is
    the zone-building phase on the state that corresponds to the specification's. -/
theorem deserialise_render (ds : List Directive) (v : FileVar) (hv : VariantOk v)
    (hok : ∀ d ∈ ds, directiveOk false d = true) (dstF : DenoteState) (hden : denoteAll {} ds = .ok dstF) :
    ∃ stF, deserialise (render ds v) = buildZone stF ∧ StRel dstF stF := by
  obtain ⟨stF, hloop, hrel⟩ := loop_render v hv ds 0 {} {} dstF stRel_init hok hden
    ((render ds v).length + 1) (by unfold render eolOf; omega)
  refine ⟨stF, ?_, hrel⟩
  unfold deserialise
  have : render ds v = renderFrom v (eolOf v) 0 ds := rfl
  rw [this] at hloop ⊢
  rw [hloop]

end Resolved.ZoneText
