/-
  C15: what `prune` does — `remove_expired` purges every partition of its expired tuples (dropping
  emptied partitions), the eviction loop removes whole partitions in least-recently-used order while
  the cache is over its size, and the counts reported are exact.
-/
import Resolved.Proofs.CacheStore

namespace Resolved

open PCache

/-! ## Sums over partitions -/

/-- `Σ f p` over the partitions -/
def psum (f : Partition → Nat) (ps : List (Name × Partition)) : Nat := (ps.map (fun kp => f kp.2)).sum

@[simp] theorem psum_nil (f : Partition → Nat) : psum f [] = 0 := rfl
@[simp] theorem psum_cons (f : Partition → Nat) (x : Name × Partition) (ps : List (Name × Partition)) :
    psum f (x :: ps) = f x.2 + psum f ps := by simp [psum]
@[simp] theorem psum_append (f : Partition → Nat) (a b : List (Name × Partition)) :
    psum f (a ++ b) = psum f a + psum f b := by simp [psum]

theorem psum_congr {f g : Partition → Nat} {ps : List (Name × Partition)}
    (h : ∀ kp ∈ ps, f kp.2 = g kp.2) : psum f ps = psum g ps := by
  unfold psum; congr 1; exact List.map_congr_left h

theorem psum_filter_add (f : Partition → Nat) (q : Name × Partition → Bool) (ps : List (Name × Partition)) :
    psum f (ps.filter q) + psum f (ps.filter (fun x => !q x)) = psum f ps := by
  induction ps with
  | nil => rfl
  | cons x ps ih =>
    by_cases hq : q x = true
    · rw [List.filter_cons_of_pos hq, List.filter_cons_of_neg (by simp [hq])]
      simp only [psum_cons]; omega
    · rw [List.filter_cons_of_neg hq, List.filter_cons_of_pos (by simpa using hq)]
      simp only [psum_cons]; omega

/-- number of tuples of the whole cache with `expiry ≤ now` -/
def expiredTotal (c : PCache) (now : Nat) : Nat := psum (fun p => expiredIn p.records now) c.partitions

/-- number of tuples of a partition with `expiry > now` -/
def liveCount (now : Nat) (p : Partition) : Nat := recCount (liveRecs p.records now)

/-- number of tuples of the whole cache with `expiry > now` -/
def liveTotal (c : PCache) (now : Nat) : Nat := psum (liveCount now) c.partitions

theorem totalTuples_eq_psum (c : PCache) : totalTuples c = psum (fun p => recCount p.records) c.partitions := rfl

theorem sizeSum_eq_psum (ps : List (Name × Partition)) : sizeSum ps = psum (·.size) ps := rfl

theorem expired_add_live_total (c : PCache) (now : Nat) :
    expiredTotal c now + liveTotal c now = totalTuples c := by
  unfold expiredTotal liveTotal
  rw [totalTuples_eq_psum]
  induction c.partitions with
  | nil => rfl
  | cons x ps ih =>
    have := expiredIn_add_live x.2.records now
    simp only [psum_cons, liveCount] at ih ⊢
    omega

/-! ## Live / expired tuples of one partition -/

theorem liveRecs_eq_self {rs : List (Nat × Tuples)} {now : Nat} (h : ∀ t ∈ tuplesOf rs, t.2 > now) :
    liveRecs rs now = rs := by
  induction rs with
  | nil => rfl
  | cons r rs ih =>
    simp only [tuplesOf_cons, List.mem_append] at h
    rw [liveRecs_cons, ih (fun t ht => h t (Or.inr ht))]
    have : r.2.filter (fun t => decide (t.2 > now)) = r.2 := by
      rw [List.filter_eq_self]; intro t ht; simpa using h t (Or.inl ht)
    rw [this]

theorem expiredIn_eq_zero {rs : List (Nat × Tuples)} {now : Nat} (h : ∀ t ∈ tuplesOf rs, t.2 > now) :
    expiredIn rs now = 0 := by
  unfold expiredIn
  rw [List.countP_eq_zero]
  intro t ht
  have := h t ht
  simp; omega

theorem expiredIn_liveRecs (rs : List (Nat × Tuples)) (now : Nat) : expiredIn (liveRecs rs now) now = 0 := by
  apply expiredIn_eq_zero
  intro t ht
  rw [tuplesOf_liveRecs] at ht
  simpa using (List.mem_filter.mp ht).2

theorem PInv.all_live {p : Partition} (h : PInv p) {now : Nat} (hn : p.nextExpiry > now) :
    ∀ t ∈ tuplesOf p.records, t.2 > now := by
  intro t ht
  have := h.nextExpiry_min.2 t ht
  omega

theorem PInv.expired_pos {p : Partition} (h : PInv p) {now : Nat} (hn : p.nextExpiry ≤ now) :
    1 ≤ expiredIn p.records now := by
  obtain ⟨t, ht, he⟩ := h.nextExpiry_min.1
  unfold expiredIn
  apply List.countP_pos_iff.mpr
  exact ⟨t, ht, by simp; omega⟩

/-! ## What `remove_expired` does to one partition -/

/-- the partition after `remove_expired` (`none`: the partition is dropped) -/
def purgeP (now : Nat) (p : Partition) : Option Partition :=
  if p.nextExpiry > now then some p
  else
    match (retainLive p.records now).2.2 with
    | some n =>
      some { p with records := liveRecs p.records now, size := p.size - expiredIn p.records now, nextExpiry := n }
    | none => none

/-- … as a map on the partition list -/
def purgeKP (now : Nat) (kp : Name × Partition) : Option (Name × Partition) :=
  (purgeP now kp.2).map (fun p' => (kp.1, p'))

theorem retainLive_some_gt {rs : List (Nat × Tuples)} {now n : Nat} (h : (retainLive rs now).2.2 = some n) :
    n > now := by
  obtain ⟨_, _, h3⟩ := retainLive_spec rs now
  rw [h] at h3
  obtain ⟨t, ht, he⟩ := h3.1
  rw [tuplesOf_liveRecs] at ht
  have := (List.mem_filter.mp ht).2
  simp at this; omega

theorem retainLive_none_count {rs : List (Nat × Tuples)} {now : Nat} (h : (retainLive rs now).2.2 = none) :
    recCount (liveRecs rs now) = 0 := by
  obtain ⟨_, _, h3⟩ := retainLive_spec rs now
  rw [h] at h3
  simp only [OptMin] at h3
  rw [← length_tuplesOf, h3]; rfl

theorem purgeP_some {now : Nat} {p p' : Partition} (hp : PInv p) (h : purgeP now p = some p') :
    p'.records = liveRecs p.records now ∧ p'.lastRead = p.lastRead ∧ p'.nextExpiry > now ∧
      p'.size + expiredIn p.records now = p.size := by
  unfold purgeP at h
  split at h
  · rename_i hn
    cases h
    have hl := hp.all_live hn
    exact ⟨(liveRecs_eq_self hl).symm, rfl, hn, by rw [expiredIn_eq_zero hl]; rfl⟩
  · split at h
    · rename_i n hn
      cases h
      have := expiredIn_add_live p.records now
      have := hp.size_eq
      exact ⟨rfl, rfl, retainLive_some_gt hn, by simp only; omega⟩
    · cases h

theorem purgeP_none {now : Nat} {p : Partition} (h : purgeP now p = none) : liveCount now p = 0 := by
  unfold purgeP at h
  split at h
  · cases h
  · split at h
    · cases h
    · rename_i hn; exact retainLive_none_count hn

theorem purgeP_of_live {now : Nat} {p : Partition} (h : p.nextExpiry > now) : purgeP now p = some p := by
  unfold purgeP; simp [h]

/-! ## One step of `remove_expired` against the purge -/

theorem filterMap_purge_self {now : Nat} {ps : List (Name × Partition)}
    (h : ∀ kp ∈ ps, kp.2.nextExpiry > now) : ps.filterMap (purgeKP now) = ps := by
  induction ps with
  | nil => rfl
  | cons x ps ih =>
    have hx := h x (by simp)
    rw [List.filterMap_cons]
    simp only [purgeKP, purgeP_of_live hx, Option.map_some]
    rw [ih (fun kp hkp => h kp (List.mem_cons_of_mem _ hkp))]

/-- a step does not change the purge of the state, and reports the expired tuples it removed -/
theorem Inv.step_purge {c : PCache} (h : Inv c) (now : Nat) :
    (c.removeExpiredStep now).1.partitions.filterMap (purgeKP now) = c.partitions.filterMap (purgeKP now) ∧
    (c.removeExpiredStep now).2 + expiredTotal (c.removeExpiredStep now).1 now = expiredTotal c now ∧
    (c.removeExpiredStep now).1.desiredSize = c.desiredSize := by
  cases hm : PQ.minEntry c.expiryPriority with
  | none => rw [removeExpiredStep_empty now (PQ.minEntry_eq_none.mp hm)]; simp
  | some ke =>
    obtain ⟨k, e⟩ := ke
    obtain ⟨p, hp, hpe⟩ := h.minEntry_eq hm
    have hpi := h.pinv_of_get hp
    by_cases he : e > now
    · rw [removeExpiredStep_live hm he]; simp [expiredTotal]
    · have he' : e ≤ now := by omega
      have hne : ¬ p.nextExpiry > now := by omega
      obtain ⟨a, b, hab, hka, hkb⟩ := AL.get_split_nodup h.keysNodup hp
      cases hn : (retainLive p.records now).2.2 with
      | some n =>
        rw [removeExpiredStep_some hm he' hp hn]
        have hgt := retainLive_some_gt hn
        generalize hq : ({ p with records := liveRecs p.records now, size := p.size - expiredIn p.records now, nextExpiry := n } : Partition) = p'
        have h1 : purgeKP now (k, p) = some (k, p') := by
          simp [purgeKP, purgeP, hne, hn, hq]
        have h2 : purgeKP now (k, p') = some (k, p') := by
          simp only [purgeKP]; rw [purgeP_of_live (by rw [← hq]; exact hgt)]; rfl
        have h3 : expiredIn p'.records now = 0 := by rw [← hq]; exact expiredIn_liveRecs _ _
        refine ⟨?_, ?_, rfl⟩
        · simp only
          rw [hab, AL.set_split hka]
          simp only [List.filterMap_append, List.filterMap_cons, h1, h2]
        · simp only [expiredTotal]
          rw [hab, AL.set_split hka]
          simp only [psum_append, psum_cons, h3]; omega
      | none =>
        rw [removeExpiredStep_none hm he' hp hn]
        have h1 : purgeKP now (k, p) = none := by simp [purgeKP, purgeP, hne, hn]
        refine ⟨?_, ?_, rfl⟩
        · simp only
          rw [hab, AL.erase_split hka hkb]
          simp only [List.filterMap_append, List.filterMap_cons, h1]
        · simp only [expiredTotal]
          rw [hab, AL.erase_split hka hkb]
          simp only [psum_append, psum_cons]; omega

/-- a step that reports nothing leaves only partitions whose `next_expiry` is in the future -/
theorem Inv.step_zero {c : PCache} (h : Inv c) {now : Nat} (h0 : (c.removeExpiredStep now).2 = 0) :
    ∀ kp ∈ (c.removeExpiredStep now).1.partitions, kp.2.nextExpiry > now := by
  cases hm : PQ.minEntry c.expiryPriority with
  | none =>
    rw [removeExpiredStep_empty now (PQ.minEntry_eq_none.mp hm)]
    have hq := PQ.minEntry_eq_none.mp hm
    intro kp hkp
    have := h.eq_get kp.1
    rw [hq, AL.get_of_mem h.keysNodup (show (kp.1, kp.2) ∈ c.partitions from hkp)] at this
    cases this
  | some ke =>
    obtain ⟨k, e⟩ := ke
    obtain ⟨p, hp, hpe⟩ := h.minEntry_eq hm
    have hpi := h.pinv_of_get hp
    by_cases he : e > now
    · rw [removeExpiredStep_live hm he]
      intro kp hkp
      simp only at hkp
      have hg := AL.get_of_mem h.keysNodup (show (kp.1, kp.2) ∈ c.partitions from hkp)
      have := PQ.minEntry_le hm (kp.1, kp.2.nextExpiry) (AL.mem_of_get (h.eq_get_of hg))
      simp only at this; omega
    · have he' : e ≤ now := by omega
      have hpos := hpi.expired_pos (now := now) (by omega)
      cases hn : (retainLive p.records now).2.2 with
      | some n => rw [removeExpiredStep_some hm he' hp hn] at h0; simp only at h0; omega
      | none => rw [removeExpiredStep_none hm he' hp hn] at h0; simp only at h0; omega

theorem expiredTotal_zero {c : PCache} (h : Inv c) {now : Nat}
    (hl : ∀ kp ∈ c.partitions, kp.2.nextExpiry > now) : expiredTotal c now = 0 := by
  unfold expiredTotal
  have : psum (fun p => expiredIn p.records now) c.partitions = psum (fun _ => 0) c.partitions :=
    psum_congr (fun kp hkp => expiredIn_eq_zero ((h.parts kp hkp).all_live (hl kp hkp)))
  rw [this]
  unfold psum
  induction c.partitions with
  | nil => rfl
  | cons x ps ih => simpa using ih

/-! ## `remove_expired` as a whole -/

theorem Inv.removeExpiredLoop_spec {fuel : Nat} {c c' : PCache} {now acc n : Nat} (h : Inv c)
    (hl : PCache.removeExpiredLoop fuel c now acc = some (c', n)) :
    c'.partitions = c.partitions.filterMap (purgeKP now) ∧ n = acc + expiredTotal c now ∧
      c'.desiredSize = c.desiredSize := by
  induction fuel generalizing c acc with
  | zero => simp [PCache.removeExpiredLoop] at hl
  | succ fuel ih =>
    rw [removeExpiredLoop_succ] at hl
    obtain ⟨h1, h2, h3⟩ := h.step_purge now
    have hi := h.removeExpiredStep now
    split at hl
    · rename_i h0
      cases hl
      have hz := h.step_zero h0
      refine ⟨?_, ?_, h3⟩
      · rw [← h1, filterMap_purge_self hz]
      · have := expiredTotal_zero hi hz
        omega
    · obtain ⟨i1, i2, i3⟩ := ih hi hl
      refine ⟨by rw [i1, h1], by omega, by rw [i3, h3]⟩

/-- `remove_expired` purges every partition and reports the number of expired tuples. -/
theorem Inv.removeExpired_spec {c c' : PCache} {now n : Nat} (h : Inv c)
    (hl : c.removeExpired now = some (c', n)) :
    c'.partitions = c.partitions.filterMap (purgeKP now) ∧ n = expiredTotal c now ∧
      c'.desiredSize = c.desiredSize := by
  have := h.removeExpiredLoop_spec hl
  simpa using this

/-! ## The eviction loop -/

theorem Inv.lru_of_over {c : PCache} (h : Inv c) (hov : c.currentSize > c.desiredSize) :
    ∃ k x p, PQ.minEntry c.accessPriority = some (k, x) ∧ AL.get c.partitions k = some p ∧ p.lastRead = x := by
  cases hm : PQ.minEntry c.accessPriority with
  | none =>
    have hq := PQ.minEntry_eq_none.mp hm
    have hl := h.aq_length
    rw [hq] at hl
    have := h.partitions_nil_size (List.length_eq_zero_iff.mp hl.symm)
    omega
  | some kx =>
    obtain ⟨k, x⟩ := kx
    obtain ⟨p, hp, hx⟩ := h.minEntry_aq hm
    exact ⟨k, x, p, rfl, hp, hx⟩

theorem filter_keys_self (ps : List (Name × Partition)) :
    ps.filter (fun kp => decide (kp.1 ∈ AL.keys ps)) = ps := by
  rw [List.filter_eq_self]
  intro kp hkp
  simpa using AL.mem_keys_of_mem (show (kp.1, kp.2) ∈ ps from hkp)

/-- The eviction loop: survivors are untouched partitions of the input, in order; every evicted
    partition was read no later than every survivor; the count is the sum of the evicted sizes; and
    the last eviction was necessary. -/
theorem Inv.pruneLoop_spec {fuel : Nat} {c c2 : PCache} {acc n : Nat} (h : Inv c)
    (hl : PCache.pruneLoop fuel c acc = some (c2, n)) :
    c2.partitions = c.partitions.filter (fun kp => decide (kp.1 ∈ AL.keys c2.partitions)) ∧
    (∀ k p, AL.get c2.partitions k = some p → AL.get c.partitions k = some p) ∧
    (∀ k p, AL.get c.partitions k = some p → AL.get c2.partitions k = none →
      ∀ k' p', AL.get c2.partitions k' = some p' → p.lastRead ≤ p'.lastRead) ∧
    n + c2.currentSize = acc + c.currentSize ∧
    (n ≠ acc → ∃ k p, AL.get c.partitions k = some p ∧ AL.get c2.partitions k = none ∧
      c2.currentSize + p.size > c2.desiredSize) ∧
    c2.desiredSize = c.desiredSize ∧
    (c.currentSize ≤ c.desiredSize → c2 = c ∧ n = acc) := by
  -- the result when the loop stops at once
  have stop : ∀ {c : PCache} {acc : Nat},
      c.partitions = c.partitions.filter (fun kp => decide (kp.1 ∈ AL.keys c.partitions)) ∧
      (∀ k p, AL.get c.partitions k = some p → AL.get c.partitions k = some p) ∧
      (∀ k p, AL.get c.partitions k = some p → AL.get c.partitions k = none →
        ∀ k' p', AL.get c.partitions k' = some p' → p.lastRead ≤ p'.lastRead) ∧
      acc + c.currentSize = acc + c.currentSize ∧
      (acc ≠ acc → ∃ k p, AL.get c.partitions k = some p ∧ AL.get c.partitions k = none ∧
        c.currentSize + p.size > c.desiredSize) ∧
      c.desiredSize = c.desiredSize ∧
      (c.currentSize ≤ c.desiredSize → c = c ∧ acc = acc) := by
    intro c acc
    refine ⟨(filter_keys_self _).symm, fun _ _ h => h, ?_, rfl, fun h => absurd rfl h, rfl, fun _ => ⟨rfl, rfl⟩⟩
    intro k p h1 h2; rw [h1] at h2; cases h2
  induction fuel generalizing c acc with
  | zero =>
    simp only [PCache.pruneLoop] at hl
    split at hl
    · cases hl
    · cases hl; exact stop
  | succ fuel ih =>
    rw [pruneLoop_succ] at hl
    split at hl
    · rename_i hov
      obtain ⟨k, x, p, hm, hp, hx⟩ := h.lru_of_over hov
      have hi := h.removeLRU
      have hsz := h.removeLRU_size
      rw [removeLRU_some hm hp] at hl hi hsz
      simp only at hl hsz
      obtain ⟨i7, i1, i2, i3, i4, i6, _⟩ := ih hi hl
      simp only at i7 i1 i2 i3 i4 i6
      -- `k` is not a key of the result
      have hk2 : AL.get c2.partitions k = none := by
        cases hg : AL.get c2.partitions k with
        | none => rfl
        | some p2 =>
          have := i1 k p2 hg
          rw [AL.get_erase] at this; simp at this
      have hknot : k ∉ AL.keys c2.partitions := AL.get_eq_none_iff.mp hk2
      have sub : ∀ k' p', AL.get c2.partitions k' = some p' → AL.get c.partitions k' = some p' := by
        intro k' p' hg
        have := i1 k' p' hg
        rw [AL.get_erase] at this
        split at this
        · cases this
        · exact this
      refine ⟨?_, sub, ?_, by omega, ?_, i6, fun hle => by omega⟩
      · refine i7.trans ?_
        unfold AL.erase
        rw [List.filter_filter]
        apply List.filter_congr
        intro kp hkp
        by_cases hkk : kp.1 = k
        · have : ¬ kp.1 ∈ AL.keys c2.partitions := by rw [hkk]; exact hknot
          simp [this]
        · simp [hkk]
      · intro k0 p0 hg0 hn0 k' p' hg'
        by_cases hk0 : k0 = k
        · subst hk0
          rw [hp] at hg0; cases hg0
          have hq := h.aq_get_of (sub k' p' hg')
          have := PQ.minEntry_le hm (k', p'.lastRead) (AL.mem_of_get hq)
          simp only at this; omega
        · apply i2 k0 p0 ?_ hn0 k' p' hg'
          rw [AL.get_erase]; simp [hk0, hg0]
      · intro hne
        by_cases hn : n = acc + p.size
        · refine ⟨k, p, hp, hk2, ?_⟩
          rw [i6]; omega
        · obtain ⟨k0, p0, hg0, hn0, hs0⟩ := i4 hn
          refine ⟨k0, p0, ?_, hn0, hs0⟩
          rw [AL.get_erase] at hg0
          split at hg0
          · cases hg0
          · exact hg0
    · cases hl; exact stop

/-! ## `prune` as a whole -/

theorem purgeKP_some {now : Nat} {kp kp' : Name × Partition} (h : purgeKP now kp = some kp') :
    kp'.1 = kp.1 ∧ purgeP now kp.2 = some kp'.2 := by
  unfold purgeKP at h
  cases hp : purgeP now kp.2 with
  | none => rw [hp] at h; cases h
  | some p' => rw [hp] at h; cases h; exact ⟨rfl, rfl⟩

/-- tuple count of the purged list, restricted to a set of names -/
theorem psum_filter_purge (now : Nat) (q : Name → Bool) {ps : List (Name × Partition)}
    (hps : ∀ kp ∈ ps, PInv kp.2) :
    psum (fun p => recCount p.records) ((ps.filterMap (purgeKP now)).filter (fun kp => q kp.1)) =
      psum (liveCount now) (ps.filter (fun kp => q kp.1)) := by
  induction ps with
  | nil => rfl
  | cons x ps ih =>
    have ih' := ih (fun kp hkp => hps kp (List.mem_cons_of_mem _ hkp))
    have hx := hps x (by simp)
    rw [List.filterMap_cons]
    cases hp : purgeKP now x with
    | none =>
      simp only
      have h0 : liveCount now x.2 = 0 := by
        apply purgeP_none
        unfold purgeKP at hp
        cases hpp : purgeP now x.2 with
        | none => rfl
        | some p' => rw [hpp] at hp; cases hp
      by_cases hq : q x.1 = true
      · rw [List.filter_cons_of_pos (by simpa using hq), psum_cons, h0, ih']; omega
      · rw [List.filter_cons_of_neg (by simpa using hq), ih']
    | some x' =>
      simp only
      obtain ⟨hk, hpp⟩ := purgeKP_some hp
      obtain ⟨hrec, _, _, _⟩ := purgeP_some hx hpp
      have hcnt : recCount x'.2.records = liveCount now x.2 := by rw [hrec]; rfl
      by_cases hq : q x.1 = true
      · rw [List.filter_cons_of_pos (by rw [hk]; simpa using hq), List.filter_cons_of_pos (by simpa using hq)]
        simp only [psum_cons, hcnt, ih']
      · rw [List.filter_cons_of_neg (by rw [hk]; simpa using hq), List.filter_cons_of_neg (by simpa using hq), ih']

theorem psum_purge (now : Nat) {ps : List (Name × Partition)} (hps : ∀ kp ∈ ps, PInv kp.2) :
    psum (fun p => recCount p.records) (ps.filterMap (purgeKP now)) = psum (liveCount now) ps := by
  have := psum_filter_purge now (fun _ => true) hps
  rwa [List.filter_eq_self.mpr (fun _ _ => rfl), List.filter_eq_self.mpr (fun _ _ => rfl)] at this

/-- Everything `prune` does, in one statement (the C15 theorems are read off from it). -/
theorem Inv.prune_spec {c c' : PCache} {now : Nat} {r : Bool × Nat × Nat × Nat} (h : Inv c)
    (hp : c.prune now = some (c', r)) :
    ∃ c1 : PCache, Inv c1 ∧ Inv c' ∧
      c1.partitions = c.partitions.filterMap (purgeKP now) ∧
      c1.currentSize = liveTotal c now ∧
      c1.desiredSize = c.desiredSize ∧ c'.desiredSize = c.desiredSize ∧
      c'.partitions = c1.partitions.filter (fun kp => decide (kp.1 ∈ AL.keys c'.partitions)) ∧
      (∀ k p, AL.get c1.partitions k = some p → AL.get c'.partitions k = none →
        ∀ k' p', AL.get c'.partitions k' = some p' → p.lastRead ≤ p'.lastRead) ∧
      (r.2.2.2 ≠ 0 → ∃ k p, AL.get c1.partitions k = some p ∧ AL.get c'.partitions k = none ∧
        c'.currentSize + p.size > c'.desiredSize) ∧
      (c1.currentSize ≤ c1.desiredSize → c' = c1 ∧ r.2.2.2 = 0) ∧
      r.1 = decide (c.currentSize > c.desiredSize) ∧ r.2.1 = c'.currentSize ∧
      r.2.2.1 = expiredTotal c now ∧ r.2.2.2 + c'.currentSize = c1.currentSize := by
  obtain ⟨c1, e, p, h1, h2, rfl⟩ := prune_eq_some hp
  have hi1 := h.removeExpired h1
  have hi2 := hi1.pruneLoop h2
  obtain ⟨s1, s2, s3⟩ := h.removeExpired_spec h1
  obtain ⟨l7, _, l2, l3, l4, l6, l5⟩ := hi1.pruneLoop_spec h2
  refine ⟨c1, hi1, hi2, s1, ?_, s3, by rw [l6, s3], l7, l2, l4, l5, rfl, rfl, s2, by simpa using l3⟩
  rw [← hi1.totalTuples_eq, totalTuples_eq_psum, s1]
  exact psum_purge now h.parts

end Resolved
