/-
  C13, zone level, the tree side: `all_records` / `all_wildcard_records` of a zone built through the
  insertion API, in terms of the flat entry list it represents (`TreeRepr`, Proofs/ZoneRepr.lean),
  and: re-inserting everything a zone lists rebuilds the same set of records.
-/
import Resolved.Proofs.ZoneMain
import Resolved.Proofs.ZoneTextZone

namespace Resolved.ZoneText

open Resolved Gen ZSpec ZNode

/-! ## distinct child keys, everywhere in the tree -/

inductive KeysOK : ZNode → Prop where
  | mk (nsd : Name) (this : RecMap) (wild : Option RecMap) (ch : List (Label × ZNode)) :
      (childKeys ch).Nodup → (∀ p ∈ ch, KeysOK p.2) → KeysOK (.mk nsd this wild ch)

theorem KeysOK.keys {node : ZNode} (h : KeysOK node) : (childKeys node.children).Nodup := by
  cases h; assumption

theorem KeysOK.child {node : ZNode} (h : KeysOK node) : ∀ p ∈ node.children, KeysOK p.2 := by
  cases h; assumption

theorem keysOK_new (nsd : Name) : KeysOK (ZNode.new nsd) :=
  .mk nsd [] none [] (by simp [childKeys]) (by simp)

theorem mem_childSet {cs : List (Label × ZNode)} {l : Label} {c : ZNode} {x : Label × ZNode}
    (h : x ∈ childSet cs l c) : x = (l, c) ∨ x ∈ cs := by
  induction cs with
  | nil => simp [childSet] at h; exact Or.inl h
  | cons kv rest ih =>
    obtain ⟨k, v⟩ := kv
    simp only [childSet] at h
    split at h
    · rename_i hk
      simp only [List.mem_cons] at h
      rcases h with h | h
      · left; rw [h, hk]
      · right; simp [h]
    · simp only [List.mem_cons] at h
      rcases h with h | h
      · right; simp [h]
      · rcases ih h with h' | h'
        · exact Or.inl h'
        · right; simp [h']

theorem childGet_of_mem {cs : List (Label × ZNode)} (hn : (childKeys cs).Nodup) {l : Label} {c : ZNode}
    (h : (l, c) ∈ cs) : childGet cs l = some c := by
  induction cs with
  | nil => simp at h
  | cons kv rest ih =>
    obtain ⟨k, v⟩ := kv
    simp only [childKeys, List.map_cons, List.nodup_cons] at hn
    simp only [List.mem_cons, Prod.mk.injEq] at h
    simp only [childGet]
    rcases h with ⟨h1, h2⟩ | h
    · subst h1; subst h2; simp
    · have : k ≠ l := by
        intro e; subst e
        exact hn.1 (List.mem_map_of_mem (f := (·.1)) h)
      rw [if_neg this]
      exact ih hn.2 h

theorem childGet_mem' {cs : List (Label × ZNode)} {l : Label} {c : ZNode} (h : childGet cs l = some c) :
    (l, c) ∈ cs := by
  induction cs with
  | nil => simp [childGet] at h
  | cons kv rest ih =>
    obtain ⟨k, v⟩ := kv
    simp only [childGet] at h
    split at h
    · rename_i hk; cases h; subst hk; simp
    · simp [ih h]

theorem keysOK_insertRev (zr : ZoneRecord) (wild : Bool) (r : List Label) :
    ∀ (node node' : ZNode), KeysOK node → node.insertRev r zr wild = some node' → KeysOK node' := by
  induction r with
  | nil =>
    intro node node' hk h
    simp only [insertRev] at h
    cases node with
    | mk nsd this w ch =>
      have hkeys := hk.keys
      have hch := hk.child
      split at h
      · split at h <;> (cases h; exact .mk _ _ _ _ hkeys hch)
      · cases h; exact .mk _ _ _ _ hkeys hch
  | cons lbl rest ih =>
    intro node node' hk h
    obtain ⟨base, child', hci, rfl, hb⟩ := insertRev_cons_shape node node' lbl rest zr wild h
    have hbase : KeysOK base := by
      rcases hb with hb | ⟨_, nsd, _, rfl⟩
      · exact hk.child _ (childGet_mem' hb)
      · exact keysOK_new nsd
    have hc' := ih base child' hbase hci
    refine .mk _ _ _ _ (childKeys_nodup_childSet _ _ _ hk.keys) ?_
    intro p hp
    rcases mem_childSet hp with rfl | hp
    · exact hc'
    · exact hk.child p hp

/-! ## `all_records` through `descend` -/

theorem mem_allRecordsChildren' (ch : List (Label × ZNode)) (x : Name × List ZoneRecord) :
    x ∈ allRecordsChildren ch ↔ ∃ l c, (l, c) ∈ ch ∧ x ∈ c.allRecords := by
  induction ch with
  | nil => simp [allRecordsChildren]
  | cons kv rest ih =>
    obtain ⟨k, v⟩ := kv
    simp only [allRecordsChildren, List.mem_append, ih, List.mem_cons, Prod.mk.injEq]
    constructor
    · rintro (h | ⟨l, c, hm, hx⟩)
      · exact ⟨k, v, Or.inl ⟨rfl, rfl⟩, h⟩
      · exact ⟨l, c, Or.inr hm, hx⟩
    · rintro ⟨l, c, (⟨rfl, rfl⟩ | hm), hx⟩
      · exact Or.inl hx
      · exact Or.inr ⟨l, c, hm, hx⟩

theorem mem_allRecords' (node : ZNode) (x : Name × List ZoneRecord) :
    x ∈ node.allRecords ↔
      (x = (node.nsdname, node.this.flatMap (·.2)) ∧ node.this.flatMap (·.2) ≠ []) ∨
      x ∈ allRecordsChildren node.children := by
  cases node with
  | mk nsd this w ch =>
    simp only [ZNode.allRecords, List.mem_append, nsdname_mk, this_mk, children_mk]
    constructor
    · rintro (h | h)
      · split at h
        · simp at h
        · rename_i hne
          simp only [List.mem_singleton] at h
          exact Or.inl ⟨h, by simpa using hne⟩
      · exact Or.inr h
    · rintro (⟨h, hne⟩ | h)
      · left
        have : (List.flatMap (fun x => x.2) this).isEmpty = false := by simpa using hne
        rw [this]; simp [h]
      · exact Or.inr h

/-- the entries of `all_records` are exactly the nodes holding records. -/
theorem mem_allRecords_descend {node : ZNode} (hk : KeysOK node) (x : Name × List ZoneRecord) :
    x ∈ node.allRecords ↔
      ∃ p n, node.descend p = some n ∧ x = (n.nsdname, n.this.flatMap (·.2)) ∧ n.this.flatMap (·.2) ≠ [] := by
  induction hk with
  | mk nsd this w ch hkeys hch ih =>
    rw [mem_allRecords', mem_allRecordsChildren']
    simp only [nsdname_mk, this_mk, children_mk]
    constructor
    · rintro (⟨hx, hne⟩ | ⟨l, c, hm, hx⟩)
      · exact ⟨[], _, rfl, hx, hne⟩
      · obtain ⟨p, n, hd, hx', hne⟩ := (ih (l, c) hm).mp hx
        refine ⟨l :: p, n, ?_, hx', hne⟩
        simp [descend_cons, childGet_of_mem hkeys hm, hd]
    · rintro ⟨p, n, hd, hx, hne⟩
      cases p with
      | nil => simp at hd; subst hd; exact Or.inl ⟨hx, hne⟩
      | cons l rest =>
        simp only [descend_cons, children_mk] at hd
        cases hc : childGet ch l with
        | none => simp [hc] at hd
        | some c =>
          simp only [hc, Option.bind_some] at hd
          exact Or.inr ⟨l, c, childGet_mem' hc, (ih (l, c) (childGet_mem' hc)).mpr ⟨rest, n, hd, hx, hne⟩⟩

theorem mem_allWildcardChildren' (ch : List (Label × ZNode)) (x : Name × List ZoneRecord) :
    x ∈ allWildcardChildren ch ↔ ∃ l c, (l, c) ∈ ch ∧ x ∈ c.allWildcardRecords := by
  induction ch with
  | nil => simp [allWildcardChildren]
  | cons kv rest ih =>
    obtain ⟨k, v⟩ := kv
    simp only [allWildcardChildren, List.mem_append, ih, List.mem_cons, Prod.mk.injEq]
    constructor
    · rintro (h | ⟨l, c, hm, hx⟩)
      · exact ⟨k, v, Or.inl ⟨rfl, rfl⟩, h⟩
      · exact ⟨l, c, Or.inr hm, hx⟩
    · rintro ⟨l, c, (⟨rfl, rfl⟩ | hm), hx⟩
      · exact Or.inl hx
      · exact Or.inr ⟨l, c, hm, hx⟩

theorem mem_allWildcardRecords' (node : ZNode) (x : Name × List ZoneRecord) :
    x ∈ node.allWildcardRecords ↔
      (∃ ws, node.wildcards = some ws ∧ x = (node.nsdname, ws.flatMap (·.2)) ∧ ws.flatMap (·.2) ≠ []) ∨
      x ∈ allWildcardChildren node.children := by
  cases node with
  | mk nsd this w ch =>
    simp only [ZNode.allWildcardRecords, List.mem_append, nsdname_mk, wildcards_mk, children_mk]
    constructor
    · rintro (h | h)
      · cases w with
        | none => simp at h
        | some ws =>
          simp only at h
          split at h
          · simp at h
          · rename_i hne
            simp only [List.mem_singleton] at h
            exact Or.inl ⟨ws, rfl, h, by simpa using hne⟩
      · exact Or.inr h
    · rintro (⟨ws, hw, h, hne⟩ | h)
      · left
        cases hw
        have : (List.flatMap (fun x => x.2) ws).isEmpty = false := by simpa using hne
        simp only [this]; simp [h]
      · exact Or.inr h

theorem mem_allWildcardRecords_descend {node : ZNode} (hk : KeysOK node) (x : Name × List ZoneRecord) :
    x ∈ node.allWildcardRecords ↔
      ∃ p n ws, node.descend p = some n ∧ n.wildcards = some ws ∧ x = (n.nsdname, ws.flatMap (·.2))
        ∧ ws.flatMap (·.2) ≠ [] := by
  induction hk with
  | mk nsd this w ch hkeys hch ih =>
    rw [mem_allWildcardRecords', mem_allWildcardChildren']
    simp only [nsdname_mk, wildcards_mk, children_mk]
    constructor
    · rintro (⟨ws, hw, hx, hne⟩ | ⟨l, c, hm, hx⟩)
      · exact ⟨[], _, ws, rfl, hw, hx, hne⟩
      · obtain ⟨p, n, ws, hd, hw, hx', hne⟩ := (ih (l, c) hm).mp hx
        refine ⟨l :: p, n, ws, ?_, hw, hx', hne⟩
        simp [descend_cons, childGet_of_mem hkeys hm, hd]
    · rintro ⟨p, n, ws, hd, hw, hx, hne⟩
      cases p with
      | nil => simp at hd; subst hd; exact Or.inl ⟨ws, hw, hx, hne⟩
      | cons l rest =>
        simp only [descend_cons, children_mk] at hd
        cases hc : childGet ch l with
        | none => simp [hc] at hd
        | some c =>
          simp only [hc, Option.bind_some] at hd
          exact Or.inr ⟨l, c, childGet_mem' hc,
            (ih (l, c) (childGet_mem' hc)).mpr ⟨rest, n, ws, hd, hw, hx, hne⟩⟩

/-! ## record maps and the records they represent -/

theorem recmap_get_of_mem {m : RecMap} (hn : m.keys.Nodup) {k : Nat} {v : List ZoneRecord}
    (h : (k, v) ∈ m) : m.get k = some v := by
  induction m with
  | nil => simp at h
  | cons kv rest ih =>
    obtain ⟨k', v'⟩ := kv
    simp only [RecMap.keys, List.map_cons, List.nodup_cons] at hn
    simp only [List.mem_cons, Prod.mk.injEq] at h
    simp only [RecMap.get]
    rcases h with ⟨h1, h2⟩ | h
    · subst h1; subst h2; simp
    · have : k' ≠ k := by
        intro e; subst e
        exact hn.1 (List.mem_map_of_mem (f := (·.1)) h)
      rw [if_neg this]
      exact ih hn.2 h

/-- the records stored in a map that represents the list `zrs` are the members of `zrs`. -/
theorem recRepr_mem {m : RecMap} {zrs : List ZoneRecord} (h : RecRepr m zrs) (zr : ZoneRecord) :
    zr ∈ m.flatMap (·.2) ↔ zr ∈ zrs := by
  simp only [List.mem_flatMap]
  constructor
  · rintro ⟨⟨k, v⟩, hkv, hzr⟩
    have hg := recmap_get_of_mem h.1 hkv
    rw [h.2 k] at hg
    split at hg
    · cases hg
    · cases hg
      exact (mem_ofType.mp hzr).1
  · intro hzr
    have hne : ofType zrs zr.rtype ≠ [] := by
      intro he
      have : zr ∈ ofType zrs zr.rtype := mem_ofType.mpr ⟨hzr, rfl⟩
      rw [he] at this; simp at this
    have hg := h.2 zr.rtype
    rw [if_neg hne] at hg
    exact ⟨(zr.rtype, ofType zrs zr.rtype), RecMap.get_mem hg, mem_ofType.mpr ⟨hzr, rfl⟩⟩

theorem mem_recordsAt (es : List ZSpec.Entry) (rel : List Label) (wild : Bool) (zr : ZoneRecord) :
    zr ∈ recordsAt es rel wild ↔ ∃ e ∈ es, e.rel = rel ∧ e.wild = wild ∧ e.zr = zr := by
  unfold recordsAt
  simp only [List.mem_eraseDups, List.mem_map, List.mem_filter, Bool.and_eq_true, beq_iff_eq]
  constructor
  · rintro ⟨e, ⟨he, h1, h2⟩, h3⟩; exact ⟨e, he, h1, h2, h3⟩
  · rintro ⟨e, he, h1, h2, h3⟩; exact ⟨e, ⟨he, h1, h2⟩, h3⟩

theorem existsNode_of_mem {es : List ZSpec.Entry} {e : ZSpec.Entry} (h : e ∈ es) : existsNode es e.rel = true := by
  unfold existsNode
  simp only [Bool.or_eq_true, List.any_eq_true]
  exact Or.inr ⟨e, h, by simp [isSuffix]⟩

/-! ## the records a zone lists, in terms of the entries it represents -/

/-- `(n, zr)` is listed by `all_records`. -/
def FlatRec (z : Zone) (n : Name) (zr : ZoneRecord) : Prop := ∃ zrs, (n, zrs) ∈ z.allRecords ∧ zr ∈ zrs

/-- `(n, zr)` is listed by `all_wildcard_records`. -/
def FlatWild (z : Zone) (n : Name) (zr : ZoneRecord) : Prop :=
  ∃ zrs, (n, zrs) ∈ z.allWildcardRecords ∧ zr ∈ zrs

theorem flatRec_iff {z : Zone} {apex : Name} {soa : Option SOA} {es : List ZSpec.Entry}
    (hr : Zone.Repr z apex soa es) (hk : KeysOK z.records) (n : Name) (zr : ZoneRecord) :
    FlatRec z n zr ↔
      ∃ e ∈ es, e.wild = false ∧ e.zr = zr ∧ Name.fromLabels (e.rel ++ apex.labels) = some n := by
  unfold FlatRec Zone.allRecords
  constructor
  · rintro ⟨zrs, hmem, hzr⟩
    obtain ⟨p, nd, hd, hx, -⟩ := (mem_allRecords_descend hk _).mp hmem
    simp only [Prod.mk.injEq] at hx
    obtain ⟨hn, hzrs⟩ := hx
    have hv := (hr.tree.recs p).1
    have hbv : (baseView z.records p).1 = nd.this := by simp [baseView, hd, view]
    rw [hbv] at hv
    rw [hzrs] at hzr
    obtain ⟨e, he, h1, h2, h3⟩ := (mem_recordsAt _ _ _ _).mp ((recRepr_mem hv zr).mp hzr)
    refine ⟨e, he, h2, h3, ?_⟩
    have := hr.tree.names p nd hd
    rw [hr.root_name] at this
    rw [h1, hn]; exact this
  · rintro ⟨e, he, hw, hzr, hname⟩
    have hex := hr.tree.exist e.rel.reverse
    rw [List.reverse_reverse, existsNode_of_mem he] at hex
    obtain ⟨nd, hd⟩ := Option.isSome_iff_exists.mp hex
    have hv := (hr.tree.recs e.rel.reverse).1
    have hbv : (baseView z.records e.rel.reverse).1 = nd.this := by simp [baseView, hd, view]
    rw [hbv, List.reverse_reverse] at hv
    have hin : zr ∈ nd.this.flatMap (·.2) :=
      (recRepr_mem hv zr).mpr ((mem_recordsAt _ _ _ _).mpr ⟨e, he, rfl, hw, hzr⟩)
    have hnm := hr.tree.names e.rel.reverse nd hd
    rw [List.reverse_reverse, hr.root_name, hname] at hnm
    refine ⟨nd.this.flatMap (·.2), ?_, hin⟩
    apply (mem_allRecords_descend hk _).mpr
    exact ⟨e.rel.reverse, nd, hd, by rw [Option.some.inj hnm], fun h => by rw [h] at hin; simp at hin⟩

theorem flatWild_iff {z : Zone} {apex : Name} {soa : Option SOA} {es : List ZSpec.Entry}
    (hr : Zone.Repr z apex soa es) (hk : KeysOK z.records) (n : Name) (zr : ZoneRecord) :
    FlatWild z n zr ↔
      ∃ e ∈ es, e.wild = true ∧ e.zr = zr ∧ Name.fromLabels (e.rel ++ apex.labels) = some n := by
  unfold FlatWild Zone.allWildcardRecords
  constructor
  · rintro ⟨zrs, hmem, hzr⟩
    obtain ⟨p, nd, ws, hd, hw, hx, -⟩ := (mem_allWildcardRecords_descend hk _).mp hmem
    simp only [Prod.mk.injEq] at hx
    obtain ⟨hn, hzrs⟩ := hx
    have hv := (hr.tree.recs p).2
    have hbv : (baseView z.records p).2 = some ws := by simp [baseView, hd, view, hw]
    rw [hbv] at hv
    rw [hzrs] at hzr
    obtain ⟨e, he, h1, h2, h3⟩ := (mem_recordsAt _ _ _ _).mp ((recRepr_mem hv.2 zr).mp hzr)
    refine ⟨e, he, h2, h3, ?_⟩
    have := hr.tree.names p nd hd
    rw [hr.root_name] at this
    rw [h1, hn]; exact this
  · rintro ⟨e, he, hw, hzr, hname⟩
    have hex := hr.tree.exist e.rel.reverse
    rw [List.reverse_reverse, existsNode_of_mem he] at hex
    obtain ⟨nd, hd⟩ := Option.isSome_iff_exists.mp hex
    have hv := (hr.tree.recs e.rel.reverse).2
    have hbv : (baseView z.records e.rel.reverse).2 = nd.wildcards := by simp [baseView, hd, view]
    rw [hbv, List.reverse_reverse] at hv
    have hrec : zr ∈ recordsAt es e.rel true := (mem_recordsAt _ _ _ _).mpr ⟨e, he, rfl, hw, hzr⟩
    cases hws : nd.wildcards with
    | none =>
      rw [hws] at hv
      simp only [WildRepr] at hv
      rw [hv] at hrec; simp at hrec
    | some ws =>
      rw [hws] at hv
      have hin : zr ∈ ws.flatMap (·.2) := (recRepr_mem hv.2 zr).mpr hrec
      have hnm := hr.tree.names e.rel.reverse nd hd
      rw [List.reverse_reverse, hr.root_name, hname] at hnm
      refine ⟨ws.flatMap (·.2), ?_, hin⟩
      apply (mem_allWildcardRecords_descend hk _).mpr
      exact ⟨e.rel.reverse, nd, ws, hd, hws, by rw [Option.some.inj hnm],
        fun h => by rw [h] at hin; simp at hin⟩

/-! ## zones built through the insertion API -/

theorem keysOK_zone_new (apex : Name) (soa : Option SOA) : KeysOK (Zone.new apex soa).records := by
  cases soa with
  | none => exact keysOK_new apex
  | some s => exact keysOK_insertRev _ _ _ _ _ (keysOK_new apex) (Zone.new_records_some apex s)

theorem keysOK_applyOps (ops : List ZoneOp) :
    ∀ (z z' : Zone), KeysOK z.records → z.applyOps ops = some z' → KeysOK z'.records := by
  induction ops with
  | nil => intro z z' hk h; simp only [Zone.applyOps, Option.some.injEq] at h; subst h; exact hk
  | cons op ops ih =>
    intro z z' hk h
    simp only [Zone.applyOps] at h
    cases h1 : z.applyOp op with
    | none => simp [h1] at h
    | some z1 =>
      simp only [h1] at h
      have hk1 : KeysOK z1.records := by
        obtain ⟨-, -, hc⟩ := Zone.insert_cases z z1 _ _ _ _ _ h1
        rcases hc with ⟨-, rfl⟩ | ⟨rel, -, hi⟩
        · exact hk
        · exact keysOK_insertRev _ _ _ _ _ hk hi
      exact ih z1 z' hk1 h

/-- a zone built by `Zone::new` and insertions represents its entry list and has distinct child keys. -/
theorem built_repr (apex : Name) (soa : Option SOA) (ops : List ZoneOp) (z : Zone) (hap : NameOK apex)
    (hb : Zone.build apex soa ops = some z) :
    Zone.Repr z apex soa (entriesOf apex soa ops) ∧ KeysOK z.records :=
  ⟨Zone.repr_build apex soa ops z hap hb, keysOK_applyOps ops _ z (keysOK_zone_new apex soa) hb⟩

/-- the owners `all_records` lists are the valid names of their nodes: one entry per owner. -/
theorem allRecords_functional {z : Zone} {apex : Name} {soa : Option SOA} {es : List ZSpec.Entry}
    (hr : Zone.Repr z apex soa es) (hk : KeysOK z.records) {n : Name} {zrs1 zrs2 : List ZoneRecord}
    (h1 : (n, zrs1) ∈ z.allRecords) (h2 : (n, zrs2) ∈ z.allRecords) : zrs1 = zrs2 := by
  obtain ⟨p1, n1, hd1, hx1, -⟩ := (mem_allRecords_descend hk _).mp h1
  obtain ⟨p2, n2, hd2, hx2, -⟩ := (mem_allRecords_descend hk _).mp h2
  simp only [Prod.mk.injEq] at hx1 hx2
  have e1 := fromLabels_labels (hr.tree.names p1 n1 hd1)
  have e2 := fromLabels_labels (hr.tree.names p2 n2 hd2)
  rw [← hx1.1] at e1
  rw [← hx2.1] at e2
  have : p1.reverse = p2.reverse := List.append_cancel_right (e1.symm.trans e2)
  have hp : p1 = p2 := by simpa using congrArg List.reverse this
  subst hp
  rw [hd1] at hd2
  cases hd2
  rw [hx1.2, hx2.2]

theorem allWildcardRecords_functional {z : Zone} {apex : Name} {soa : Option SOA} {es : List ZSpec.Entry}
    (hr : Zone.Repr z apex soa es) (hk : KeysOK z.records) {n : Name} {zrs1 zrs2 : List ZoneRecord}
    (h1 : (n, zrs1) ∈ z.allWildcardRecords) (h2 : (n, zrs2) ∈ z.allWildcardRecords) : zrs1 = zrs2 := by
  obtain ⟨p1, n1, ws1, hd1, hw1, hx1, -⟩ := (mem_allWildcardRecords_descend hk _).mp h1
  obtain ⟨p2, n2, ws2, hd2, hw2, hx2, -⟩ := (mem_allWildcardRecords_descend hk _).mp h2
  simp only [Prod.mk.injEq] at hx1 hx2
  have e1 := fromLabels_labels (hr.tree.names p1 n1 hd1)
  have e2 := fromLabels_labels (hr.tree.names p2 n2 hd2)
  rw [← hx1.1] at e1
  rw [← hx2.1] at e2
  have : p1.reverse = p2.reverse := List.append_cancel_right (e1.symm.trans e2)
  have hp : p1 = p2 := by simpa using congrArg List.reverse this
  subst hp
  rw [hd1] at hd2
  cases hd2
  rw [hw1] at hw2
  cases hw2
  rw [hx1.2, hx2.2]

/-! ## what `Zone::serialise` lists -/

theorem lookupOwner_isSome_of_mem {m : List (Name × List ZoneRecord)} {d : Name} {zrs : List ZoneRecord}
    (h : (d, zrs) ∈ m) : ∃ zrs', lookupOwner m d = some zrs' := by
  induction m with
  | nil => simp at h
  | cons p ps ih =>
    obtain ⟨k, v⟩ := p
    simp only [lookupOwner]
    split
    · exact ⟨v, rfl⟩
    · rename_i hk
      simp only [List.mem_cons, Prod.mk.injEq] at h
      rcases h with ⟨h1, -⟩ | h
      · exact absurd h1.symm hk
      · exact ih h

/-- with one entry per owner, `recordsOf m d` is that entry. -/
theorem mem_recordsOf {m : List (Name × List ZoneRecord)}
    (hf : ∀ n a b, (n, a) ∈ m → (n, b) ∈ m → a = b) (d : Name) (zr : ZoneRecord) :
    zr ∈ recordsOf m d ↔ ∃ zrs, (d, zrs) ∈ m ∧ zr ∈ zrs := by
  unfold recordsOf
  constructor
  · intro h
    cases hl : lookupOwner m d with
    | none => rw [hl] at h; simp at h
    | some zrs => rw [hl] at h; exact ⟨zrs, lookupOwner_mem hl, by simpa using h⟩
  · rintro ⟨zrs, hm, hzr⟩
    obtain ⟨zrs', hl⟩ := lookupOwner_isSome_of_mem hm
    have := hf d zrs' zrs (lookupOwner_mem hl) hm
    rw [hl, this]; simpa using hzr

theorem mem_insertSorted (n x : Name) (l : List Name) : x ∈ insertSorted n l ↔ x = n ∨ x ∈ l := by
  induction l with
  | nil => simp [insertSorted]
  | cons m ms ih =>
    simp only [insertSorted]
    split
    · simp only [List.mem_cons, ih]
      constructor
      · rintro (h | h | h) <;> simp [h]
      · rintro (h | h | h) <;> simp [h]
    · simp

theorem mem_sortNames (x : Name) (l : List Name) : x ∈ sortNames l ↔ x ∈ l := by
  unfold sortNames
  induction l with
  | nil => simp
  | cons n ns ih => simp [List.foldr_cons, mem_insertSorted, ih]

theorem mem_sortedDomains (z : Zone) (d : Name) :
    d ∈ sortedDomains z ↔ (∃ zrs, (d, zrs) ∈ z.allRecords) ∨ (∃ zrs, (d, zrs) ∈ z.allWildcardRecords) := by
  unfold sortedDomains
  simp only [mem_sortNames, List.mem_eraseDups, List.mem_append, List.mem_map]
  constructor
  · rintro (⟨p, hp, rfl⟩ | ⟨p, hp, rfl⟩)
    · exact Or.inl ⟨p.2, hp⟩
    · exact Or.inr ⟨p.2, hp⟩
  · rintro (⟨zrs, h⟩ | ⟨zrs, h⟩)
    · exact Or.inl ⟨(d, zrs), h, rfl⟩
    · exact Or.inr ⟨(d, zrs), h, rfl⟩

theorem itemsRRs_append (a b : List Item) : itemsRRs (a ++ b) = itemsRRs a ++ itemsRRs b := by
  induction a with
  | nil => rfl
  | cons i is ih => cases i <;> simp [itemsRRs, ih]

theorem itemsWildRRs_append (a b : List Item) : itemsWildRRs (a ++ b) = itemsWildRRs a ++ itemsWildRRs b := by
  induction a with
  | nil => rfl
  | cons i is ih => cases i <;> simp [itemsWildRRs, ih]

theorem mem_itemsRRs_flatMap {α} (f : α → List Item) (l : List α) (rr : RR) :
    rr ∈ itemsRRs (l.flatMap f) ↔ ∃ a ∈ l, rr ∈ itemsRRs (f a) := by
  induction l with
  | nil => simp [itemsRRs]
  | cons x xs ih => simp [List.flatMap_cons, itemsRRs_append, ih]

theorem mem_itemsWildRRs_flatMap {α} (f : α → List Item) (l : List α) (rr : RR) :
    rr ∈ itemsWildRRs (l.flatMap f) ↔ ∃ a ∈ l, rr ∈ itemsWildRRs (f a) := by
  induction l with
  | nil => simp [itemsWildRRs]
  | cons x xs ih => simp [List.flatMap_cons, itemsWildRRs_append, ih]

theorem block_itemsRRs (z : Zone) (d : Name) :
    itemsRRs (blockItems z d)
      = ((recordsOf z.allRecords d).filter (fun zr => zr.rtype != RT_SOA)).map (fun zr => zr.toRR d) ∧
    itemsWildRRs (blockItems z d) = (recordsOf z.allWildcardRecords d).map (fun zr => zr.toRR d) := by
  have h1 : ∀ (l : List ZoneRecord) (hw : Bool), itemsRRs (l.map (Item.recLine d hw)) = l.map (fun zr => zr.toRR d) := by
    intro l hw; induction l with
    | nil => rfl
    | cons x xs ih => simp [itemsRRs, ih]
  have h2 : ∀ (l : List ZoneRecord), itemsRRs (l.map (Item.wildLine d)) = [] := by
    intro l; induction l with
    | nil => rfl
    | cons x xs ih => simp [itemsRRs, ih]
  have h3 : ∀ (l : List ZoneRecord) (hw : Bool), itemsWildRRs (l.map (Item.recLine d hw)) = [] := by
    intro l hw; induction l with
    | nil => rfl
    | cons x xs ih => simp [itemsWildRRs, ih]
  have h4 : ∀ (l : List ZoneRecord), itemsWildRRs (l.map (Item.wildLine d)) = l.map (fun zr => zr.toRR d) := by
    intro l; induction l with
    | nil => rfl
    | cons x xs ih => simp [itemsWildRRs, ih]
  unfold blockItems
  constructor
  · rw [itemsRRs_append, itemsRRs_append, h1, h2]; simp [itemsRRs]
  · rw [itemsWildRRs_append, itemsWildRRs_append, h3, h4]; simp [itemsWildRRs]

/-- **the ordinary records `Zone::serialise` writes** are the listed records that are not SOA-typed. -/
theorem mem_bodyRRs {z : Zone} (hf : ∀ n a b, (n, a) ∈ z.allRecords → (n, b) ∈ z.allRecords → a = b) (rr : RR) :
    rr ∈ itemsRRs (bodyItems z) ↔ ∃ n zr, FlatRec z n zr ∧ zr.rtype ≠ RT_SOA ∧ rr = zr.toRR n := by
  unfold bodyItems
  rw [mem_itemsRRs_flatMap]
  constructor
  · rintro ⟨d, -, h⟩
    rw [(block_itemsRRs z d).1] at h
    simp only [List.mem_map, List.mem_filter, bne_iff_ne, ne_eq] at h
    obtain ⟨zr, ⟨hzr, hns⟩, rfl⟩ := h
    exact ⟨d, zr, (mem_recordsOf hf d zr).mp hzr, hns, rfl⟩
  · rintro ⟨n, zr, hfl, hns, rfl⟩
    refine ⟨n, ?_, ?_⟩
    · obtain ⟨zrs, hm, -⟩ := hfl
      exact (mem_sortedDomains z n).mpr (Or.inl ⟨zrs, hm⟩)
    · rw [(block_itemsRRs z n).1]
      simp only [List.mem_map, List.mem_filter, bne_iff_ne, ne_eq]
      exact ⟨zr, ⟨(mem_recordsOf hf n zr).mpr hfl, hns⟩, rfl⟩

/-- **the wildcard records `Zone::serialise` writes** are all the listed wildcard records. -/
theorem mem_bodyWildRRs {z : Zone}
    (hf : ∀ n a b, (n, a) ∈ z.allWildcardRecords → (n, b) ∈ z.allWildcardRecords → a = b) (rr : RR) :
    rr ∈ itemsWildRRs (bodyItems z) ↔ ∃ n zr, FlatWild z n zr ∧ rr = zr.toRR n := by
  unfold bodyItems
  rw [mem_itemsWildRRs_flatMap]
  constructor
  · rintro ⟨d, -, h⟩
    rw [(block_itemsRRs z d).2] at h
    simp only [List.mem_map] at h
    obtain ⟨zr, hzr, rfl⟩ := h
    exact ⟨d, zr, (mem_recordsOf hf d zr).mp hzr, rfl⟩
  · rintro ⟨n, zr, hfl, rfl⟩
    refine ⟨n, ?_, ?_⟩
    · obtain ⟨zrs, hm, -⟩ := hfl
      exact (mem_sortedDomains z n).mpr (Or.inr ⟨zrs, hm⟩)
    · rw [(block_itemsRRs z n).2]
      simp only [List.mem_map]
      exact ⟨zr, (mem_recordsOf hf n zr).mpr hfl, rfl⟩

/-! ## the insertion loops of `Zone::deserialise` as `applyOps` -/

def toOp (wild : Bool) (rr : RR) : ZoneOp := ⟨rr.name, rr.rtype, rr.fields, rr.ttl, wild⟩

def resultOf : Option Zone → DResult
  | some z => .ok z
  | none => .panic

theorem insertAll_eq_applyOps (wild : Bool) (rrs : List RR) :
    ∀ z : Zone, (∀ rr ∈ rrs, rr.name.isSubdomainOf z.apex = true) →
      insertAll wild z rrs = resultOf (z.applyOps (rrs.map (toOp wild))) := by
  induction rrs with
  | nil => intro z _; rfl
  | cons rr rest ih =>
    intro z h
    have hsub := h rr (by simp)
    simp only [insertAll, hsub, Bool.not_true, Bool.false_eq_true, if_false, List.map_cons, Zone.applyOps]
    have : z.applyOp (toOp wild rr) = z.insert rr.name rr.rtype rr.fields rr.ttl wild := rfl
    rw [this]
    cases hi : z.insert rr.name rr.rtype rr.fields rr.ttl wild with
    | none => rfl
    | some z1 =>
      simp only
      exact ih z1 (fun x hx => by rw [Zone.insert_apex hi]; exact h x (by simp [hx]))

theorem insertBoth_eq_applyOps (z0 : Zone) (R W : List RR)
    (hR : ∀ rr ∈ R, rr.name.isSubdomainOf z0.apex = true) (hW : ∀ rr ∈ W, rr.name.isSubdomainOf z0.apex = true) :
    insertBoth z0 R W = resultOf (z0.applyOps (R.map (toOp false) ++ W.map (toOp true))) := by
  unfold insertBoth
  rw [insertAll_eq_applyOps false R z0 hR, Zone.applyOps_append]
  cases h1 : z0.applyOps (R.map (toOp false)) with
  | none => rfl
  | some z1 =>
    simp only [resultOf, Option.bind_some]
    have ha := (Zone.applyOps_apex_soa _ _ _ h1).1
    exact insertAll_eq_applyOps true W z1 (fun x hx => by rw [ha]; exact hW x hx)

/-! ## the entries of the re-inserted zone -/

/-- the flat entry list has an entry for `(n, zr)` with wildcard flag `w`. -/
def EntryAt (es : List ZSpec.Entry) (apex : Name) (w : Bool) (n : Name) (zr : ZoneRecord) : Prop :=
  ∃ e ∈ es, e.wild = w ∧ e.zr = zr ∧ Name.fromLabels (e.rel ++ apex.labels) = some n

theorem entriesOf_ttl (apex : Name) (soa : Option SOA) (ops : List ZoneOp) :
    ∀ e ∈ entriesOf apex soa ops, ∀ s, soa = some s → s.minimum ≤ e.zr.ttl := by
  intro e he s hs
  subst hs
  unfold entriesOf at he
  simp only [List.mem_append, List.mem_singleton, List.mem_filterMap] at he
  rcases he with rfl | ⟨op, -, hop⟩
  · exact Nat.le_refl _
  · unfold opEntry at hop
    split at hop
    · cases hop
      simp only [Zone.actualTtl, (Zone.new_apex_soa apex (some s)).2]
      exact Nat.le_max_left _ _
    · cases hop

/-- the entry an insertion of a listed record contributes is the entry it came from. -/
theorem opEntry_listed (apex : Name) (soa : Option SOA) (e : ZSpec.Entry) (n : Name)
    (hname : Name.fromLabels (e.rel ++ apex.labels) = some n)
    (httl : ∀ s, soa = some s → s.minimum ≤ e.zr.ttl) :
    opEntry (Zone.new apex soa) (toOp e.wild (e.zr.toRR n)) = some e := by
  obtain ⟨ha, hs⟩ := Zone.new_apex_soa apex soa
  have hlab := fromLabels_labels hname
  unfold opEntry Zone.relativeDomain
  have hsub : n.isSubdomainOf (Zone.new apex soa).apex = true := by
    unfold Name.isSubdomainOf
    rw [ha, hlab]
    simp
  rw [ha] at hsub
  simp only [toOp, ZoneRecord.toRR, hsub, if_true, ha, hlab]
  have htake : (e.rel ++ apex.labels).take ((e.rel ++ apex.labels).length - apex.labels.length) = e.rel := by
    simp
  rw [htake]
  have httl' : (Zone.new apex soa).actualTtl e.zr.ttl = e.zr.ttl := by
    unfold Zone.actualTtl
    rw [hs]
    cases hsoa : soa with
    | none => rfl
    | some s =>
      simp only
      exact Nat.max_eq_right (httl s hsoa)
  rw [httl']

theorem isSubdomain_of_labels {n apex : Name} {rel : List Label} (h : n.labels = rel ++ apex.labels) :
    n.isSubdomainOf apex = true := by
  unfold Name.isSubdomainOf
  rw [h]; simp

/-- no SOA-typed record besides the zone's own SOA record at the apex. -/
def OnlyOwnSoa (z : Zone) : Prop :=
  ∀ n zr, FlatRec z n zr → zr.rtype = RT_SOA → n = z.apex ∧ ∃ s, z.soa = some s ∧ zr = Zone.soaRecord s

/-- **re-inserting everything a built zone lists rebuilds the same records.**  `z` is built by
    `Zone::new(apex, soa)` and any insertions; `R` / `W` are the ordinary / wildcard records that
    `Zone::serialise` writes for it (`itemsRRs` / `itemsWildRRs` of its body); then the two insertion
    loops of `Zone::deserialise` on a fresh `Zone::new(apex, soa)` succeed and give a zone with the same
    apex, the same SOA, and exactly the same listed records and wildcard records, owner by owner. -/
theorem reinsert_same (apex : Name) (soa : Option SOA) (ops : List ZoneOp) (z : Zone) (hap : NameOK apex)
    (hb : Zone.build apex soa ops = some z) (hsoa : OnlyOwnSoa z) :
    ∃ z', insertBoth (Zone.new z.apex z.soa) (itemsRRs (bodyItems z)) (itemsWildRRs (bodyItems z)) = .ok z' ∧
      z'.apex = z.apex ∧ z'.soa = z.soa ∧
      (∀ n zr, FlatRec z' n zr ↔ FlatRec z n zr) ∧ (∀ n zr, FlatWild z' n zr ↔ FlatWild z n zr) := by
  obtain ⟨hr, hk⟩ := built_repr apex soa ops z hap hb
  have hza : z.apex = apex := hr.apex_eq
  have hzs : z.soa = soa := hr.soa_eq
  rw [hza, hzs]
  obtain ⟨hna, hns⟩ := Zone.new_apex_soa apex soa
  let es := entriesOf apex soa ops
  have hfR := fun n a b => allRecords_functional hr hk (n := n) (zrs1 := a) (zrs2 := b)
  have hfW := fun n a b => allWildcardRecords_functional hr hk (n := n) (zrs1 := a) (zrs2 := b)
  -- names of listed records lie under the apex and are acceptable names
  have hnameR : ∀ n zr, FlatRec z n zr → n.isSubdomainOf apex = true ∧ NameOK n := by
    intro n zr h
    obtain ⟨e, -, -, -, hn⟩ := (flatRec_iff hr hk n zr).mp h
    have hl := fromLabels_labels hn
    exact ⟨isSubdomain_of_labels hl, by unfold NameOK; rw [hl]; exact hn⟩
  have hnameW : ∀ n zr, FlatWild z n zr → n.isSubdomainOf apex = true ∧ NameOK n := by
    intro n zr h
    obtain ⟨e, -, -, -, hn⟩ := (flatWild_iff hr hk n zr).mp h
    have hl := fromLabels_labels hn
    exact ⟨isSubdomain_of_labels hl, by unfold NameOK; rw [hl]; exact hn⟩
  let R := itemsRRs (bodyItems z)
  let W := itemsWildRRs (bodyItems z)
  let ops' := R.map (toOp false) ++ W.map (toOp true)
  have hRsub : ∀ rr ∈ R, rr.name.isSubdomainOf (Zone.new apex soa).apex = true := by
    intro rr hrr
    obtain ⟨n, zr, hfl, -, rfl⟩ := (mem_bodyRRs hfR rr).mp hrr
    rw [hna]; exact (hnameR n zr hfl).1
  have hWsub : ∀ rr ∈ W, rr.name.isSubdomainOf (Zone.new apex soa).apex = true := by
    intro rr hrr
    obtain ⟨n, zr, hfl, rfl⟩ := (mem_bodyWildRRs hfW rr).mp hrr
    rw [hna]; exact (hnameW n zr hfl).1
  have hopsOK : ∀ op ∈ ops', NameOK op.name := by
    intro op hop
    simp only [ops', List.mem_append, List.mem_map] at hop
    rcases hop with ⟨rr, hrr, rfl⟩ | ⟨rr, hrr, rfl⟩
    · obtain ⟨n, zr, hfl, -, rfl⟩ := (mem_bodyRRs hfR rr).mp hrr
      exact (hnameR n zr hfl).2
    · obtain ⟨n, zr, hfl, rfl⟩ := (mem_bodyWildRRs hfW rr).mp hrr
      exact (hnameW n zr hfl).2
  -- the re-insertion succeeds
  have hsome := Zone.applyOps_isSome apex soa ops' hopsOK (Zone.new apex soa) _ (Zone.repr_new apex soa hap)
  obtain ⟨z', hz'⟩ := Option.isSome_iff_exists.mp hsome
  have hb' : Zone.build apex soa ops' = some z' := hz'
  obtain ⟨hr', hk'⟩ := built_repr apex soa ops' z' hap hb'
  refine ⟨z', ?_, hr'.apex_eq, hr'.soa_eq, ?_, ?_⟩
  · rw [insertBoth_eq_applyOps _ R W hRsub hWsub]
    show resultOf ((Zone.new apex soa).applyOps ops') = .ok z'
    rw [hz']; rfl
  all_goals
    -- both zones represent entry lists with the same entries
    have hEntry : ∀ (w : Bool) (n : Name) (zr : ZoneRecord),
        EntryAt (entriesOf apex soa ops') apex w n zr ↔ EntryAt es apex w n zr := by
      intro w n zr
      constructor
      · rintro ⟨e', he', hw', hzr', hn'⟩
        unfold entriesOf at he'
        simp only [List.mem_append, List.mem_filterMap] at he'
        rcases he' with he' | ⟨op, hop, hoe⟩
        · refine ⟨e', ?_, hw', hzr', hn'⟩
          unfold es entriesOf
          exact List.mem_append_left _ he'
        · simp only [ops', List.mem_append, List.mem_map] at hop
          rcases hop with ⟨rr, hrr, rfl⟩ | ⟨rr, hrr, rfl⟩
          · obtain ⟨n0, zr0, hfl, -, rfl⟩ := (mem_bodyRRs hfR rr).mp hrr
            obtain ⟨e, he, hew, hez, hen⟩ := (flatRec_iff hr hk n0 zr0).mp hfl
            have := opEntry_listed apex soa e n0 hen (fun s hs => entriesOf_ttl apex soa ops e he s hs)
            rw [hew, hez] at this
            rw [this] at hoe
            have heq : e = e' := Option.some.inj hoe
            subst heq
            exact ⟨e, he, hw', hzr', hn'⟩
          · obtain ⟨n0, zr0, hfl, rfl⟩ := (mem_bodyWildRRs hfW rr).mp hrr
            obtain ⟨e, he, hew, hez, hen⟩ := (flatWild_iff hr hk n0 zr0).mp hfl
            have := opEntry_listed apex soa e n0 hen (fun s hs => entriesOf_ttl apex soa ops e he s hs)
            rw [hew, hez] at this
            rw [this] at hoe
            have heq : e = e' := Option.some.inj hoe
            subst heq
            exact ⟨e, he, hw', hzr', hn'⟩
      · rintro ⟨e, he, hw, hzr, hn⟩
        have hop := opEntry_listed apex soa e n hn (fun s hs => entriesOf_ttl apex soa ops e he s hs)
        cases hwb : e.wild with
        | false =>
          have hfl : FlatRec z n zr := (flatRec_iff hr hk n zr).mpr ⟨e, he, hwb, hzr, hn⟩
          by_cases hs6 : zr.rtype = RT_SOA
          · obtain ⟨hna', s, hss, hzs'⟩ := hsoa n zr hfl hs6
            rw [hzs] at hss
            rw [hza] at hna'
            have hrel : e.rel = [] := by
              have hl := fromLabels_labels hn
              rw [hna'] at hl
              have : e.rel ++ apex.labels = [] ++ apex.labels := by simpa using hl.symm
              exact List.append_cancel_right this
            have he_eq : e = ⟨[], false, Zone.soaRecord s⟩ := by
              cases e
              simp only at hrel hwb hzr
              subst hrel; subst hwb; subst hzr
              rw [hzs']
            refine ⟨e, ?_, hw, hzr, hn⟩
            unfold entriesOf
            rw [hss, he_eq]
            simp
          · have hmem : zr.toRR n ∈ R := (mem_bodyRRs hfR _).mpr ⟨n, zr, hfl, hs6, rfl⟩
            refine ⟨e, ?_, hw, hzr, hn⟩
            unfold entriesOf
            apply List.mem_append_right
            simp only [List.mem_filterMap]
            refine ⟨toOp false (zr.toRR n), ?_, ?_⟩
            · simp only [ops', List.mem_append, List.mem_map]
              exact Or.inl ⟨_, hmem, rfl⟩
            · rw [← hwb, ← hzr]; exact hop
        | true =>
          have hfl : FlatWild z n zr := (flatWild_iff hr hk n zr).mpr ⟨e, he, hwb, hzr, hn⟩
          have hmem : zr.toRR n ∈ W := (mem_bodyWildRRs hfW _).mpr ⟨n, zr, hfl, rfl⟩
          refine ⟨e, ?_, hw, hzr, hn⟩
          unfold entriesOf
          apply List.mem_append_right
          simp only [List.mem_filterMap]
          refine ⟨toOp true (zr.toRR n), ?_, ?_⟩
          · simp only [ops', List.mem_append, List.mem_map]
            exact Or.inr ⟨_, hmem, rfl⟩
          · rw [← hwb, ← hzr]; exact hop
    intro n zr
  · rw [flatRec_iff hr' hk' n zr, flatRec_iff hr hk n zr]
    exact hEntry false n zr
  · rw [flatWild_iff hr' hk' n zr, flatWild_iff hr hk n zr]
    exact hEntry true n zr

end Resolved.ZoneText
