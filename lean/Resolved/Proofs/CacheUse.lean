/-
  C15 / C05 helper lemmas (all names prefixed `cu_`):
  (A) what counts as a USE of a cached name — which lookups refresh `last_read` (and the access
      queue) and which leave the cache alone; a history lemma: operations that only MISS a name
      leave its partition and its access-queue entry exactly as they were;
  (B) the records `resolve_local` hands out: each stems from the local zones or is a LIVE record of
      the cache (expiry strictly later than the clock, TTL ≥ 1 and ≤ the seconds left); the cached
      alias `resolve_local` follows is live.
-/
import Resolved.Proofs.CacheHistory
import Resolved.Proofs.ResolverLocalTyped

namespace Resolved

open PCache Gen

/-! ## (A) uses and misses -/

theorem cu_lookup_wild_iff (t : Nat) :
    lookupNat queryTypeFromU16 t = some "Wildcard" ↔ t = QTYPE_WILDCARD := by
  rw [lookupNat_qt]
  unfold QTYPE_WILDCARD
  by_cases h1 : t = 252
  · subst h1; simp
  by_cases h2 : t = 253
  · subst h2; simp
  by_cases h3 : t = 254
  · subst h3; simp
  by_cases h4 : t = 255
  · subst h4; simp
  · simp [h1, h2, h3, h4]

/-- the query-only types (`AXFR`, `MAILB`, `MAILA`, `*`); every other code is a record type -/
theorem cu_lookup_none_iff (t : Nat) :
    lookupNat queryTypeFromU16 t = none ↔ t ≠ 252 ∧ t ≠ 253 ∧ t ≠ 254 ∧ t ≠ 255 := by
  rw [lookupNat_qt]
  by_cases h1 : t = 252
  · subst h1; simp
  by_cases h2 : t = 253
  · subst h2; simp
  by_cases h3 : t = 254
  · subst h3; simp
  by_cases h4 : t = 255
  · subst h4; simp
  · simp [h1, h2, h3, h4]

/-- the state after a use of partition `k` (= `p`) at `now`: `last_read` and the access-queue
    priority are refreshed, nothing else changes -/
def cu_touch (c : PCache) (k : Name) (p : Partition) (now : Nat) : PCache :=
  { c with partitions := PCache.setPartition c.partitions k { p with lastRead := now }
           accessPriority := c.accessPriority.change k now }

/-- "`k` holds no record list under type `rk`" (no partition at all, or no such type key) -/
def cu_NoKey (c : PCache) (k : Name) (rk : Nat) : Prop :=
  ∀ p, PCache.getPartition c.partitions k = some p → PCache.getTuples p.records rk = none

theorem cu_noKey_of_absent {c : PCache} {k : Name} (h : PCache.getPartition c.partitions k = none) (rk : Nat) :
    cu_NoKey c k rk := by
  intro p hp; rw [h] at hp; cases hp

theorem cu_getTouch_miss {c : PCache} {k : Name} {rk : Nat} (now : Nat) (h : cu_NoKey c k rk) :
    c.getTouch k rk now = (c, none) := by
  unfold PCache.getTouch
  cases hp : PCache.getPartition c.partitions k with
  | none => rfl
  | some p => simp only [h p hp]

theorem cu_getTouch_hit {c : PCache} {k : Name} {rk : Nat} {p : Partition} {ts : Tuples} (now : Nat)
    (hp : PCache.getPartition c.partitions k = some p) (hts : PCache.getTuples p.records rk = some ts) :
    c.getTouch k rk now = (cu_touch c k p now, some ts) := by
  unfold PCache.getTouch
  simp only [hp, hts]
  rfl

theorem cu_getPartitionTouch_hit {c : PCache} {k : Name} {p : Partition} (now : Nat)
    (hp : PCache.getPartition c.partitions k = some p) :
    c.getPartitionTouch k now = (cu_touch c k p now, some p.records) := by
  unfold PCache.getPartitionTouch
  simp only [hp]
  rfl

theorem cu_getPartitionTouch_absent {c : PCache} {k : Name} (now : Nat)
    (hp : PCache.getPartition c.partitions k = none) :
    c.getPartitionTouch k now = (c, none) := by
  unfold PCache.getPartitionTouch
  simp only [hp]

/-- A1: a typed lookup for a type the name does not hold changes nothing and returns nothing -/
theorem cu_cacheGetUnchecked_miss {c : PCache} {name : Name} {t : Nat} (now : Nat)
    (ht : t ≠ QTYPE_WILDCARD) (h : cu_NoKey c name t) :
    cacheGetUnchecked c name t now = (c, []) := by
  unfold cacheGetUnchecked
  split
  · rename_i heq; exact absurd ((cu_lookup_wild_iff t).mp heq) ht
  · rfl
  · rw [cu_getTouch_miss now h]

theorem cu_cacheGet_miss {c : PCache} {name : Name} {t : Nat} (now : Nat)
    (ht : t ≠ QTYPE_WILDCARD) (h : cu_NoKey c name t) :
    cacheGet c name t now = (c, []) := by
  unfold cacheGet
  rw [cu_cacheGetUnchecked_miss now ht h]
  rfl

/-- the query-only types `AXFR`, `MAILB`, `MAILA` never touch the cache -/
theorem cu_cacheGetUnchecked_queryOnly {c : PCache} {name : Name} {t : Nat} (now : Nat)
    (ht : t = 252 ∨ t = 253 ∨ t = 254) : cacheGetUnchecked c name t now = (c, []) := by
  unfold cacheGetUnchecked
  rw [lookupNat_qt]
  rcases ht with rfl | rfl | rfl <;> simp

/-- A2: a typed lookup for a type key the name holds is a use -/
theorem cu_cacheGetUnchecked_hit {c : PCache} {name : Name} {t : Nat} {p : Partition} {ts : Tuples}
    (now : Nat) (hq : lookupNat queryTypeFromU16 t = none)
    (hp : PCache.getPartition c.partitions name = some p) (hts : PCache.getTuples p.records t = some ts) :
    cacheGetUnchecked c name t now = (cu_touch c name p now, toRRs name now ts) := by
  unfold cacheGetUnchecked
  simp only [hq, cu_getTouch_hit now hp hts]

theorem cu_cacheGet_hit {c : PCache} {name : Name} {t : Nat} {p : Partition} {ts : Tuples}
    (now : Nat) (hq : lookupNat queryTypeFromU16 t = none)
    (hp : PCache.getPartition c.partitions name = some p) (hts : PCache.getTuples p.records t = some ts) :
    cacheGet c name t now = (cu_touch c name p now, (toRRs name now ts).filter (fun rr => rr.ttl > 0)) := by
  unfold cacheGet
  rw [cu_cacheGetUnchecked_hit now hq hp hts]

/-- A3: the ANY path is a use whenever the partition exists -/
theorem cu_cacheGetUnchecked_any_hit {c : PCache} {name : Name} {p : Partition} (now : Nat)
    (hp : PCache.getPartition c.partitions name = some p) :
    cacheGetUnchecked c name QTYPE_WILDCARD now =
      (cu_touch c name p now, p.records.flatMap (fun r => toRRs name now r.2)) := by
  unfold cacheGetUnchecked
  simp only [(cu_lookup_wild_iff QTYPE_WILDCARD).mpr rfl, cu_getPartitionTouch_hit now hp]

theorem cu_cacheGetUnchecked_any_absent {c : PCache} {name : Name} (now : Nat)
    (hp : PCache.getPartition c.partitions name = none) :
    cacheGetUnchecked c name QTYPE_WILDCARD now = (c, []) := by
  unfold cacheGetUnchecked
  simp only [(cu_lookup_wild_iff QTYPE_WILDCARD).mpr rfl, cu_getPartitionTouch_absent now hp]

theorem cu_cacheGet_fst (c : PCache) (name : Name) (t now : Nat) :
    (cacheGet c name t now).1 = (cacheGetUnchecked c name t now).1 := rfl

/-! ### what a use changes -/

theorem cu_touch_get (c : PCache) (k : Name) (p : Partition) (now : Nat) (k' : Name) :
    PCache.getPartition (cu_touch c k p now).partitions k' =
      if k' = k then some { p with lastRead := now } else PCache.getPartition c.partitions k' := by
  simp only [cu_touch, getPartition_eq, setPartition_eq, AL.get_set]

theorem cu_touch_queue (c : PCache) (k : Name) (p : Partition) (now : Nat) (k' : Name) :
    AL.get (cu_touch c k p now).accessPriority k' =
      if k' = k ∧ (AL.get c.accessPriority k).isSome then some now else AL.get c.accessPriority k' := by
  simp only [cu_touch, PQ_change_eq, AL.get_change]

/-! ### misses along a history -/

/-- the operations that do not use name `k`, given its partition `po` (if any): lookups of other
    names, typed lookups of `k` for a type key it does not hold, insertions under other names. -/
def cu_MissesPart (po : Option Partition) (k : Name) : CacheOp → Prop
  | .get name qtype _ => name ≠ k ∨ (qtype ≠ QTYPE_WILDCARD ∧ ∀ p, po = some p → PCache.getTuples p.records qtype = none)
  | .getUnchecked name qtype _ =>
    name ≠ k ∨ (qtype ≠ QTYPE_WILDCARD ∧ ∀ p, po = some p → PCache.getTuples p.records qtype = none)
  | .insert rr _ => rr.name ≠ k
  | .insertAll rrs _ => ∀ rr ∈ rrs, rr.name ≠ k
  | .prune _ => False

/-- `op` does not use name `k` in state `c` -/
def cu_Misses (c : PCache) (k : Name) (op : CacheOp) : Prop :=
  cu_MissesPart (PCache.getPartition c.partitions k) k op

/-- the partition of `k` and its access-queue entry -/
def cu_view (c : PCache) (k : Name) : Option Partition × Option Nat :=
  (PCache.getPartition c.partitions k, AL.get c.accessPriority k)

theorem cu_touched_other {c c' : PCache} {name k : Name} {now : Nat} (h : Touched c c' name now)
    (hne : name ≠ k) : cu_view c' k = cu_view c k := by
  rcases h with rfl | ⟨p, _, rfl⟩
  · rfl
  · have hk : ¬ k = name := fun e => hne e.symm
    simp only [cu_view, getPartition_eq, AL.get_set, AL.get_change, hk, if_false, false_and]

theorem cu_upsert_other (c : PCache) (k' : Name) (rk : Nat) (v : CRec) (ttl now : Nat) {k : Name}
    (hne : k' ≠ k) : cu_view (c.upsert k' rk v ttl now) k = cu_view c k := by
  have hk : ¬ k = k' := fun e => hne e.symm
  cases hp : AL.get c.partitions k' with
  | none =>
    rw [upsert_new rk v ttl now hp]
    simp only [cu_view, getPartition_eq, AL.get_set, hk, if_false]
  | some p =>
    cases hg : AL.get p.records rk with
    | none =>
      rw [upsert_fresh_none rk v ttl now hp hg]
      simp only [cu_view, getPartition_eq, AL.get_set, AL.get_change, hk, if_false, false_and]
    | some ts =>
      cases hd : findDup ts v with
      | none =>
        rw [upsert_fresh_some rk v ttl now hp hg hd]
        simp only [cu_view, getPartition_eq, AL.get_set, AL.get_change, hk, if_false, false_and]
      | some id =>
        obtain ⟨i, d⟩ := id
        rw [upsert_dup rk v ttl now hp hg hd]
        simp only [cu_view, getPartition_eq, AL.get_set, AL.get_change, hk, if_false, false_and]

theorem cu_sharedInsert_other (c : PCache) (rr : RR) (now : Nat) {k : Name} (hne : rr.name ≠ k) :
    cu_view (sharedInsert c rr now) k = cu_view c k := by
  unfold sharedInsert
  split
  · exact cu_upsert_other c rr.name _ _ _ now hne
  · rfl

theorem cu_sharedInsertAll_other (rrs : List RR) (now : Nat) {k : Name} :
    ∀ (c : PCache), (∀ rr ∈ rrs, rr.name ≠ k) → cu_view (sharedInsertAll c rrs now) k = cu_view c k := by
  induction rrs with
  | nil => intro c _; rfl
  | cons rr rrs ih =>
    intro c h
    have h1 := cu_sharedInsert_other c rr now (h rr (by simp))
    have h2 := ih (sharedInsert c rr now) (fun r hr => h r (by simp [hr]))
    unfold sharedInsertAll at h2 ⊢
    simp only [List.foldl_cons]
    rw [h2, h1]

/-- one missing operation leaves the partition of `k` and its queue entry alone -/
theorem cu_apply_miss {c : PCache} {k : Name} {op : CacheOp} (h : cu_Misses c k op) :
    cu_view (op.apply c) k = cu_view c k := by
  cases op with
  | insert rr now => exact cu_sharedInsert_other c rr now h
  | insertAll rrs now => exact cu_sharedInsertAll_other rrs now c h
  | get name qtype now =>
    simp only [CacheOp.apply, cu_cacheGet_fst]
    rcases h with h | ⟨hq, h⟩
    · exact cu_touched_other (cacheGetUnchecked_touched c name qtype now) h
    · by_cases hn : name = k
      · subst hn
        rw [cu_cacheGetUnchecked_miss now hq (fun p hp => h p hp)]
      · exact cu_touched_other (cacheGetUnchecked_touched c name qtype now) hn
  | getUnchecked name qtype now =>
    simp only [CacheOp.apply]
    rcases h with h | ⟨hq, h⟩
    · exact cu_touched_other (cacheGetUnchecked_touched c name qtype now) h
    · by_cases hn : name = k
      · subst hn
        rw [cu_cacheGetUnchecked_miss now hq (fun p hp => h p hp)]
      · exact cu_touched_other (cacheGetUnchecked_touched c name qtype now) hn
  | prune now => exact absurd h (by simp [cu_Misses, cu_MissesPart])

/-- A4: a history of operations that only miss `k` (judged against `k`'s partition at the start —
    it never changes) leaves `k`'s partition (`last_read` included) and its access-queue entry
    exactly as they were. -/
theorem cu_run_misses (k : Name) (ops : List CacheOp) :
    ∀ (c : PCache), (∀ op ∈ ops, cu_Misses c k op) → cu_view (runFrom c ops) k = cu_view c k := by
  induction ops with
  | nil => intro c _; rfl
  | cons op ops ih =>
    intro c h
    have h1 := cu_apply_miss (h op (by simp))
    have hp : PCache.getPartition (op.apply c).partitions k = PCache.getPartition c.partitions k :=
      congrArg Prod.fst h1
    have h2 := ih (op.apply c) (fun o ho => by
      have := h o (by simp [ho])
      unfold cu_Misses at this ⊢
      rw [hp]; exact this)
    unfold runFrom at h2 ⊢
    simp only [List.foldl_cons]
    rw [h2, h1]

/-! ## (B) where the records of `resolve_local` come from -/

/-! ### zone side -/

/-- `r` is a record stored in the tree `node`: a zone record `zr` of the exact-name map or of the
    wildcard map of one of its nodes, reported under an owner name (the query name — exact match
    or wildcard synthesis — or the node's own name for a referral). -/
def cu_NodeStored (node : ZNode) (r : RR) : Prop :=
  ∃ p n recs kv zr owner, node.descend p = some n ∧ (recs = n.this ∨ n.wildcards = some recs) ∧
    kv ∈ recs ∧ zr ∈ kv.2 ∧ r = zr.toRR owner

/-- `r` stems from the local zones: it is the SOA record of a configured zone, or a stored record
    of a configured zone. -/
def cu_FromZones (zs : Zones) (r : RR) : Prop :=
  ∃ k z, Zones.lookup zs.zones k = some z ∧ (z.soaRR = some r ∨ cu_NodeStored z.records r)

/-- the records a zone verdict carries -/
def cu_zrRrs : ZoneResult → List RR
  | .answer rrs => rrs
  | .cname _ rr => [rr]
  | .delegation rrs => rrs
  | .nameError => []
  | .panic => []

theorem cu_helper_src (name : Name) (qtype : Nat) (recs : RecMap) (nsd : Name) (cd : Bool) :
    ∀ rr ∈ cu_zrRrs (zoneResultHelper name qtype recs nsd cd),
      ∃ kv ∈ recs, ∃ zr ∈ kv.2, ∃ owner, rr = zr.toRR owner := by
  intro rr hrr
  cases h : zoneResultHelper name qtype recs nsd cd with
  | answer rrs =>
    rw [h] at hrr
    obtain ⟨k, zrs, zr, h1, h2, h3, _⟩ := C02_answer_records_are_zone_records _ _ _ _ _ _ h rr hrr
    exact ⟨(k, zrs), h1, zr, h2, name, h3⟩
  | cname c r =>
    rw [h] at hrr
    simp only [cu_zrRrs, List.mem_singleton] at hrr
    subst hrr
    obtain ⟨z, zs, hg, _, he, _⟩ := C02_cname_result_is_first_cname _ _ _ _ _ _ _ h
    exact ⟨(RT_CNAME, z :: zs), RecMap.get_mem hg, z, List.mem_cons_self, name, he⟩
  | delegation rrs =>
    rw [h] at hrr
    obtain ⟨_, _, _, z, zs, hg, he⟩ := C02_delegation_result_is_ns_set _ _ _ _ _ _ h
    simp only [cu_zrRrs] at hrr
    rw [he] at hrr
    obtain ⟨zr, hzr, rfl⟩ := List.mem_map.mp hrr
    exact ⟨(RT_NS, z :: zs), RecMap.get_mem hg, zr, hzr, nsd, rfl⟩
  | nameError => rw [h] at hrr; cases hrr
  | panic => rw [h] at hrr; cases hrr

theorem cu_node_resolve_src (node : ZNode) (name : Name) (qtype : Nat) (rel : List Label) (isApex : Bool) :
    ∀ rr ∈ cu_zrRrs (node.resolve name qtype rel isApex), cu_NodeStored node rr := by
  rw [ZNode.resolve_eq_rev]
  rcases ZNode.resolveRev_source name qtype rel.reverse node isApex with
    ⟨p, n, recs, nsd, cd, hd, hr, he⟩ | h | h | ⟨z, zs, n, p, hd, hg, he⟩
  · rw [he]
    intro rr hrr
    obtain ⟨kv, hkv, zr, hzr, owner, ho⟩ := cu_helper_src name qtype recs nsd cd rr hrr
    exact ⟨p, n, recs, kv, zr, owner, hd, hr, hkv, hzr, ho⟩
  · rw [h]; intro rr hrr; cases hrr
  · rw [h]; intro rr hrr; cases hrr
  · rw [he]
    intro rr hrr
    obtain ⟨zr, hzr, rfl⟩ := List.mem_map.mp hrr
    exact ⟨p, n, n.this, (RT_NS, z :: zs), zr, n.nsdname, hd, Or.inl rfl, RecMap.get_mem hg, hzr, rfl⟩

/-- every record of a verdict of `Zones::resolve` is a stored record of the selected zone, which
    is one of the configured zones -/
theorem cu_zones_resolve_src {zs : Zones} {name : Name} {qtype : Nat} {z : Zone} {zr : ZoneResult}
    (h : zs.resolve name qtype = some (z, some zr)) :
    (∃ k, Zones.lookup zs.zones k = some z) ∧ ∀ rr ∈ cu_zrRrs zr, cu_NodeStored z.records rr := by
  obtain ⟨hg, rel, _, he⟩ := Zones.resolve_some h
  refine ⟨Zones.get_mem hg, ?_⟩
  rw [he]
  exact cu_node_resolve_src _ _ _ _ _

theorem cu_zones_resolve_fromZones {zs : Zones} {name : Name} {qtype : Nat} {z : Zone} {zr : ZoneResult}
    (h : zs.resolve name qtype = some (z, some zr)) :
    (∀ rr ∈ cu_zrRrs zr, cu_FromZones zs rr) ∧ (∀ soa, z.soaRR = some soa → cu_FromZones zs soa) := by
  obtain ⟨⟨k, hk⟩, hsrc⟩ := cu_zones_resolve_src h
  exact ⟨fun rr hrr => ⟨k, z, hk, Or.inr (hsrc rr hrr)⟩, fun soa hs => ⟨k, z, hk, Or.inl hs⟩⟩

/-! ### cache side -/

/-- `r` is a LIVE record of cache `c` at clock `now`: the partition of `r.name` holds a tuple with
    `r`'s type and data whose expiry is strictly later than `now`; `r` is reported with a TTL of at
    least one second and of no more than the time left. -/
def cu_LiveIn (c : PCache) (now : Nat) (r : RR) : Prop :=
  ∃ kv ∈ recsAt c r.name, ∃ t ∈ kv.2, t.1.rtype = r.rtype ∧ t.1.fields = r.fields ∧ now < t.2 ∧
    1 ≤ r.ttl ∧ r.ttl * NANOS ≤ t.2 - now

theorem cu_liveIn_congr {c c' : PCache} (h : ∀ k, recsAt c' k = recsAt c k) (now : Nat) (r : RR) :
    cu_LiveIn c' now r ↔ cu_LiveIn c now r := by
  unfold cu_LiveIn; rw [h]

theorem cu_mkRR_live (name : Name) (now : Nat) (t : CRec × Nat) (hpos : (mkRR name now t).ttl > 0) :
    now < t.2 ∧ (mkRR name now t).ttl * NANOS ≤ t.2 - now := by
  have hle : (mkRR name now t).ttl * NANOS ≤ t.2 - now := by
    simp only [mkRR]
    have : min ((t.2 - now) / NANOS) U32_MAX ≤ (t.2 - now) / NANOS := Nat.min_le_left _ _
    calc min ((t.2 - now) / NANOS) U32_MAX * NANOS ≤ (t.2 - now) / NANOS * NANOS := Nat.mul_le_mul_right _ this
      _ ≤ t.2 - now := Nat.div_mul_le_self _ _
  refine ⟨?_, hle⟩
  have hn : NANOS = 1000000000 := rfl
  have : 1 * NANOS ≤ (mkRR name now t).ttl * NANOS := Nat.mul_le_mul_right _ hpos
  omega

/-- what `get` returns (any cache state): live records owned by the name asked -/
theorem cu_cacheGet_live (c : PCache) (name : Name) (qtype now : Nat) :
    ∀ rr ∈ (cacheGet c name qtype now).2, cu_LiveIn c now rr ∧ rr.name = name := by
  intro rr hrr
  obtain ⟨hu, hpos⟩ := (mem_cacheGet_iff name qtype now rr).mp hrr
  have key : ∀ kv ∈ recsAt c name, rr ∈ toRRs name now kv.2 → cu_LiveIn c now rr ∧ rr.name = name := by
    intro kv hkv hr
    rw [toRRs_eq_map] at hr
    obtain ⟨t, ht, rfl⟩ := List.mem_map.mp hr
    obtain ⟨h1, h2⟩ := cu_mkRR_live name now t hpos
    exact ⟨⟨kv, hkv, t, ht, rfl, rfl, h1, hpos, h2⟩, rfl⟩
  cases hq : lookupNat Gen.queryTypeFromU16 qtype with
  | none =>
    rw [cacheGetUnchecked_snd_rec hq] at hu
    have hu' := hu
    rw [toRRs_eq_map] at hu'
    obtain ⟨t, ht, _⟩ := List.mem_map.mp hu'
    exact key (qtype, tuplesAt c name qtype) (Inv.tuplesAt_mem_recs ht) hu
  | some s =>
    by_cases hs : s = "Wildcard"
    · subst hs
      rw [cacheGetUnchecked_snd_wild hq] at hu
      obtain ⟨kv, hkv, hr⟩ := List.mem_flatMap.mp hu
      exact key kv hkv hr
    · rw [cacheGetUnchecked_snd_other hq hs] at hu
      cases hu

/-- under the structural invariant a live record is a stored key with a future expiry -/
theorem cu_liveIn_stored {c : PCache} (h : Inv c) {now : Nat} {r : RR} (hl : cu_LiveIn c now r) :
    ∃ e, storedExpiry c r.name r.rtype r.fields = some e ∧ now < e ∧ 1 ≤ r.ttl ∧ r.ttl * NANOS ≤ e - now := by
  obtain ⟨kv, hkv, t, ht, hrt, hfs, hlt, hpos, hle⟩ := hl
  have hta : tuplesAt c r.name kv.1 = kv.2 := by
    unfold tuplesAt
    rw [AL.get_of_mem (h.recsAt_nodup r.name) (show (kv.1, kv.2) ∈ recsAt c r.name from hkv)]
    rfl
  have ht' : t ∈ tuplesAt c r.name kv.1 := by rw [hta]; exact ht
  have hrk : t.1.rtype = kv.1 := h.tuplesAt_rtype r.name kv.1 t ht'
  refine ⟨t.2, ?_, hlt, hpos, hle⟩
  rw [storedExpiry_eq, ← hrt, ← hfs, hrk]
  apply lookupTuple_of_mem (h.tuplesAt_nodup r.name kv.1)
  have : ((⟨kv.1, t.1.fields⟩ : CRec), t.2) = t := by
    obtain ⟨⟨a, b⟩, e⟩ := t; simp only at hrk; subst hrk; rfl
  rw [this]; exact ht'

/-! ### local resolution only touches the cache: the stored records stay what they were -/

/-- same record maps in both caches (only `last_read` / the access queue may differ) -/
def cu_SameRecs (a b : Ctx) : Prop := ∀ k, recsAt a.cache k = recsAt b.cache k

theorem cu_sameRecs_refl (a : Ctx) : cu_SameRecs a a := fun _ => rfl
theorem cu_sameRecs_trans {a b c : Ctx} (h1 : cu_SameRecs a b) (h2 : cu_SameRecs b c) : cu_SameRecs a c :=
  fun k => (h1 k).trans (h2 k)

theorem cu_cacheGet_sameRecs (c : Ctx) (n : Name) (t : Nat) : cu_SameRecs (c.cacheGet n t).1 c := by
  intro k
  rw [Ctx.cacheGet_fst_cache, cu_cacheGet_fst]
  exact (cacheGetUnchecked_touched c.cache n t c.now).recsAt k

theorem cu_pop_push_sameRecs {c c' : Ctx} (q : Question) (h : cu_SameRecs c' (c.push q)) :
    cu_SameRecs c'.pop c := h

def cu_RecsPreserving (rec : Ctx → Question → LocalOut) : Prop := ∀ c q, cu_SameRecs (rec c q).1 c

theorem cu_zoneResultPart_sameRecs {rec : Ctx → Question → LocalOut} (hrec : cu_RecsPreserving rec) (ctx : Ctx)
    (q : Question) (zone : Zone) (zr : ZoneResult) :
    cu_SameRecs (zoneResultPart rec ctx q zone zr).1 ctx := by
  unfold zoneResultPart
  split
  · split
    · exact cu_sameRecs_refl _
    · split <;> exact cu_sameRecs_refl _
  · exact cu_pop_push_sameRecs q (hrec _ _)
  · split
    · split <;> exact cu_sameRecs_refl _
    · exact cu_sameRecs_refl _
  · split <;> exact cu_sameRecs_refl _
  · exact cu_sameRecs_refl _

theorem cu_zonePart_sameRecs {rec : Ctx → Question → LocalOut} (hrec : cu_RecsPreserving rec) (ctx : Ctx)
    (q : Question) : cu_SameRecs (zonePart rec ctx q).1 ctx := by
  unfold zonePart
  split
  · exact cu_sameRecs_refl _
  · exact cu_sameRecs_refl _
  · exact cu_zoneResultPart_sameRecs hrec _ _ _ _

theorem cu_cacheCnamePart_sameRecs {rec : Ctx → Question → LocalOut} (hrec : cu_RecsPreserving rec) (ctx3 : Ctx)
    (q : Question) (cs : List RR) : cu_SameRecs (cacheCnamePart rec ctx3 q cs).1 ctx3 := by
  unfold cacheCnamePart
  split
  · exact cu_sameRecs_refl _
  · split
    · rw [cacheCnameFinish_fst]; exact cu_pop_push_sameRecs q (hrec _ _)
    · exact cu_sameRecs_refl _

theorem cu_cachePart_sameRecs {rec : Ctx → Question → LocalOut} (hrec : cu_RecsPreserving rec) (ctx2 : Ctx)
    (q : Question) (r0 : List RR) : cu_SameRecs (cachePart rec ctx2 q r0).1 ctx2 := by
  unfold cachePart
  split
  · exact cu_sameRecs_trans (cu_cacheCnamePart_sameRecs hrec _ _ _) (cu_cacheGet_sameRecs _ _ _)
  · exact cu_sameRecs_refl _

theorem cu_cacheStage_sameRecs {rec : Ctx → Question → LocalOut} (hrec : cu_RecsPreserving rec) (ctx : Ctx)
    (q : Question) (rz : List RR) : cu_SameRecs (cacheStage rec ctx q rz).1 ctx := by
  unfold cacheStage
  simp only [finishPart_fst]
  exact cu_sameRecs_trans (cu_cachePart_sameRecs hrec _ _ _) (cu_cacheGet_sameRecs _ _ _)

theorem cu_localStep_sameRecs {rec : Ctx → Question → LocalOut} (hrec : cu_RecsPreserving rec) :
    cu_RecsPreserving (localStep rec) := by
  intro ctx q
  unfold localStep
  split
  · exact cu_sameRecs_refl _
  · split
    · exact cu_sameRecs_refl _
    · have hz := cu_zonePart_sameRecs hrec ctx q
      split
      · rename_i c r h; rw [h] at hz; exact hz
      · rename_i c r h; rw [h] at hz
        exact cu_sameRecs_trans (cu_cacheStage_sameRecs hrec _ _ _) hz

/-- Local resolution never changes what the cache stores. -/
theorem cu_resolveLocal_sameRecs (fuel : Nat) : cu_RecsPreserving (resolveLocal fuel) := by
  induction fuel with
  | zero => intro c q; rw [resolveLocal_zero]; exact cu_sameRecs_refl _
  | succ n ih => intro c q; rw [resolveLocal_succ]; exact cu_localStep_sameRecs ih c q

/-! ### every record of a local result is accounted for -/

/-- all the records of a `ResolvedRecord` (answer records and SOA alike) -/
def cu_resolvedRrs (r : ResolvedRecord) : List RR := r.rrs ++ r.soaRR.toList

/-- all the records of a local result, whatever its kind -/
def cu_localRrs : LocalResult → List RR
  | .done r => cu_resolvedRrs r
  | .partialAnswer rrs => rrs
  | .delegation rrs soa _ => rrs ++ soa.toList
  | .cname rrs _ => rrs

/-- `r` stems from the zones of `ctx` or is a live record of its cache at its clock -/
def cu_Src (ctx : Ctx) (r : RR) : Prop := cu_FromZones ctx.zones r ∨ cu_LiveIn ctx.cache ctx.now r

theorem cu_src_congr {a b : Ctx} (hz : a.zones = b.zones) (hn : a.now = b.now) (hs : cu_SameRecs a b)
    (r : RR) : cu_Src a r ↔ cu_Src b r := by
  unfold cu_Src
  rw [hz, hn, cu_liveIn_congr hs]

def cu_RecSrcOK (rec : Ctx → Question → LocalOut) : Prop :=
  ∀ c q r, (rec c q).2 = .ok r → ∀ rr ∈ cu_localRrs r, cu_Src c rr

theorem cu_zoneCnameAnswer_mem (rr0 : RR) (cq : Question) (sub : Except ResolutionError LocalResult) :
    ∀ rr ∈ cu_localRrs (zoneCnameAnswer rr0 cq sub),
      rr = rr0 ∨ ∃ r', sub = .ok r' ∧ rr ∈ cu_localRrs r' := by
  intro rr hrr
  unfold zoneCnameAnswer at hrr
  split at hrr
  · simp only [cu_localRrs, cu_resolvedRrs, ResolvedRecord.rrs, ResolvedRecord.soaRR, Option.toList_some,
      List.mem_append, List.mem_singleton] at hrr
    rcases hrr with (h | h) | h
    · exact Or.inl h
    · exact Or.inr ⟨_, rfl, by simp [cu_localRrs, cu_resolvedRrs, ResolvedRecord.rrs, h]⟩
    · exact Or.inr ⟨_, rfl, by simp [cu_localRrs, cu_resolvedRrs, ResolvedRecord.soaRR, h]⟩
  · simp only [cu_localRrs, cu_resolvedRrs, ResolvedRecord.rrs, ResolvedRecord.soaRR, Option.toList_some,
      List.mem_append, List.mem_singleton] at hrr
    rcases hrr with h | h
    · exact Or.inl h
    · exact Or.inr ⟨_, rfl, by simp [cu_localRrs, cu_resolvedRrs, ResolvedRecord.soaRR, ResolvedRecord.rrs, h]⟩
  · rename_i cnameRrs soaRR
    simp only [cu_localRrs, cu_resolvedRrs, ResolvedRecord.rrs, ResolvedRecord.soaRR,
      List.mem_append, List.mem_singleton] at hrr
    rcases hrr with (h | h) | h
    · exact Or.inl h
    · exact Or.inr ⟨_, rfl, by simp [cu_localRrs, cu_resolvedRrs, ResolvedRecord.rrs, h]⟩
    · exact Or.inr ⟨_, rfl, by simp [cu_localRrs, cu_resolvedRrs, ResolvedRecord.soaRR, h]⟩
  · simp only [cu_localRrs, List.mem_append, List.mem_singleton] at hrr
    rcases hrr with h | h
    · exact Or.inl h
    · exact Or.inr ⟨_, rfl, h⟩
  · simp only [cu_localRrs, List.mem_append, List.mem_singleton] at hrr
    rcases hrr with h | h
    · exact Or.inl h
    · exact Or.inr ⟨_, rfl, h⟩
  · simp only [cu_localRrs, List.mem_singleton] at hrr
    exact Or.inl hrr

/-- what the zone part of a level yields -/
def cu_ZonePartOK (ctx : Ctx) : Except ResolutionError LocalResult ⊕ List RR → Prop
  | .inl (.ok r) => ∀ rr ∈ cu_localRrs r, cu_Src ctx rr
  | .inl (.error _) => True
  | .inr rz => ∀ rr ∈ rz, cu_FromZones ctx.zones rr

theorem cu_zoneResultPart_src {rec : Ctx → Question → LocalOut} (hrec : cu_RecSrcOK rec) {ctx : Ctx}
    {q : Question} {zone : Zone} {zr : ZoneResult}
    (hres : ctx.zones.resolve q.name q.qtype = some (zone, some zr)) :
    cu_ZonePartOK ctx (zoneResultPart rec ctx q zone zr).2 := by
  obtain ⟨hz, hsoa⟩ := cu_zones_resolve_fromZones hres
  unfold zoneResultPart
  split
  · rename_i rrs
    have hz' : ∀ rr ∈ rrs, cu_FromZones ctx.zones rr := hz
    split
    · rename_i soaRR hs
      intro rr hrr
      simp only [cu_localRrs, cu_resolvedRrs, ResolvedRecord.rrs, ResolvedRecord.soaRR, Option.toList_some,
        List.mem_append, List.mem_singleton] at hrr
      rcases hrr with h | h
      · exact Or.inl (hz' rr h)
      · subst h; exact Or.inl (hsoa _ hs)
    · split
      · intro rr hrr
        simp only [cu_localRrs, cu_resolvedRrs, ResolvedRecord.rrs, ResolvedRecord.soaRR, Option.toList_none,
          List.append_nil] at hrr
        exact Or.inl (hz' rr hrr)
      · exact hz'
  · rename_i cname rr0
    have h0 : cu_FromZones ctx.zones rr0 := hz rr0 (by simp [cu_zrRrs])
    intro rr hrr
    rcases cu_zoneCnameAnswer_mem _ _ _ rr hrr with h | ⟨r', hsub, hmem⟩
    · subst h; exact Or.inl h0
    · exact hrec _ _ r' hsub rr hmem
  · rename_i nsRrs
    have hz' : ∀ rr ∈ nsRrs, cu_FromZones ctx.zones rr := hz
    split
    · rename_i soaRR hs
      split
      · trivial
      · intro rr hrr
        simp only [cu_localRrs, Option.toList_some, List.mem_append, List.mem_singleton] at hrr
        rcases hrr with h | h
        · exact Or.inl (hz' rr h)
        · subst h; exact Or.inl (hsoa _ hs)
    · intro rr hrr; cases hrr
  · split
    · rename_i soaRR hs
      intro rr hrr
      simp only [cu_localRrs, cu_resolvedRrs, ResolvedRecord.rrs, ResolvedRecord.soaRR, Option.toList_some,
        List.nil_append, List.mem_singleton] at hrr
      subst hrr; exact Or.inl (hsoa _ hs)
    · intro rr hrr; cases hrr
  · intro rr hrr; cases hrr

theorem cu_zonePart_src {rec : Ctx → Question → LocalOut} (hrec : cu_RecSrcOK rec) (ctx : Ctx) (q : Question) :
    cu_ZonePartOK ctx (zonePart rec ctx q).2 := by
  unfold zonePart
  split
  · intro rr hrr; cases hrr
  · intro rr hrr; cases hrr
  · rename_i zone zr hres
    exact cu_zoneResultPart_src hrec hres

theorem cu_mem_prioritisingMerge {a b : List RR} {r : RR} (h : r ∈ prioritisingMerge a b) : r ∈ a ∨ r ∈ b := by
  unfold prioritisingMerge at h
  rcases List.mem_append.mp h with h | h
  · exact Or.inl h
  · exact Or.inr (List.mem_filter.mp h).1

theorem cu_cacheCnameFinish_mem (cnameRR : RR) (cname : Name) (out : LocalOut) (rc : List RR) (fc : Option Name)
    (h : (cacheCnameFinish cnameRR cname out).2 = .ok (rc, fc)) :
    ∀ rr ∈ rc, rr = cnameRR ∨ ∃ r', out.2 = .ok r' ∧ rr ∈ cu_localRrs r' := by
  intro rr hrr
  unfold cacheCnameFinish at h
  split at h
  · rename_i resolved hout
    cases h
    simp only [List.mem_append, List.mem_singleton] at hrr
    rcases hrr with h | h
    · exact Or.inl h
    · exact Or.inr ⟨_, hout, by simp [cu_localRrs, cu_resolvedRrs, h]⟩
  · rename_i rrs hout
    cases h
    simp only [List.mem_append, List.mem_singleton] at hrr
    rcases hrr with h | h
    · exact Or.inl h
    · exact Or.inr ⟨_, hout, h⟩
  · rename_i rrs cq hout
    cases h
    simp only [List.mem_append, List.mem_singleton] at hrr
    rcases hrr with h | h
    · exact Or.inl h
    · exact Or.inr ⟨_, hout, h⟩
  · cases h
    simp only [List.mem_singleton] at hrr
    exact Or.inl hrr

theorem cu_ctx_cacheGet_live (c : Ctx) (name : Name) (qtype : Nat) :
    ∀ rr ∈ (c.cacheGet name qtype).2, cu_LiveIn c.cache c.now rr ∧ rr.name = name := by
  rw [Ctx.cacheGet_snd]; exact cu_cacheGet_live c.cache name qtype c.now

theorem cu_cachePart_src {rec : Ctx → Question → LocalOut} (hrec : cu_RecSrcOK rec) {ctx ctx2 : Ctx}
    {q : Question} {r0 : List RR} (hz : ctx2.zones = ctx.zones) (hn : ctx2.now = ctx.now)
    (hs : cu_SameRecs ctx2 ctx) (hr0 : ∀ rr ∈ r0, cu_Src ctx rr) (rc : List RR) (fc : Option Name)
    (h : (cachePart rec ctx2 q r0).2 = .ok (rc, fc)) : ∀ rr ∈ rc, cu_Src ctx rr := by
  unfold cachePart at h
  split at h
  · unfold cacheCnamePart at h
    have hlive := cu_ctx_cacheGet_live ctx2 q.name CNAME_QTYPE
    have hf3 := Ctx.cacheGet_frame ctx2 q.name CNAME_QTYPE
    have hs3 := cu_cacheGet_sameRecs ctx2 q.name CNAME_QTYPE
    generalize (ctx2.cacheGet q.name CNAME_QTYPE).2 = cs at h hlive
    generalize (ctx2.cacheGet q.name CNAME_QTYPE).1 = ctx3 at h hf3 hs3
    have h3 : ∀ rr, cu_Src ctx3 rr ↔ cu_Src ctx rr :=
      cu_src_congr (hf3.1.trans hz) (hf3.2.1.trans hn) (cu_sameRecs_trans hs3 hs)
    split at h
    · cases h; intro rr hrr; cases hrr
    · rename_i cnameRR rest
      split at h
      · rename_i cname htgt
        intro rr hrr
        rcases cu_cacheCnameFinish_mem _ _ _ rc fc h rr hrr with h1 | ⟨r', hsub, hmem⟩
        · subst h1
          exact (cu_src_congr hz hn hs rr).mp (Or.inr (hlive rr (by simp)).1)
        · exact (h3 rr).mp (hrec _ _ r' hsub rr hmem)
      · cases h
  · cases h
    exact hr0

/-- one level of `resolve_local` hands out only zone records and live cache records, given that
    the levels below do -/
theorem cu_localStep_src {rec : Ctx → Question → LocalOut} (hrec : cu_RecSrcOK rec) :
    cu_RecSrcOK (localStep rec) := by
  intro ctx q r h
  unfold localStep at h
  split at h
  · cases h
  · split at h
    · cases h
    · have hzp := cu_zonePart_src hrec ctx q
      split at h
      · rename_i c res hz
        rw [hz] at hzp
        simp only at h
        subst h
        exact hzp
      · rename_i c rz hz
        rw [hz] at hzp
        obtain ⟨hceq, _⟩ := zonePart_inr hz
        subst hceq
        unfold cacheStage at h
        obtain ⟨rc, fc, hcp, _, hcases⟩ := finishPart_ok h
        have hrc := cu_cachePart_src hrec (ctx := c) (Ctx.cacheGet_frame c q.name q.qtype).1
          (Ctx.cacheGet_frame c q.name q.qtype).2.1 (cu_cacheGet_sameRecs c q.name q.qtype)
          (fun rr hrr => Or.inr (cu_ctx_cacheGet_live c q.name q.qtype rr hrr).1) rc fc hcp
        have hall : ∀ rr ∈ prioritisingMerge rz rc, cu_Src c rr := by
          intro rr hrr
          rcases cu_mem_prioritisingMerge hrr with h1 | h1
          · exact Or.inl (hzp rr h1)
          · exact hrc rr h1
        rcases hcases with ⟨cn, _, hr⟩ | ⟨_, _, hr⟩ | ⟨_, _, hr⟩
        · subst hr; exact hall
        · subst hr; exact hall
        · subst hr
          intro rr hrr
          simp only [cu_localRrs, cu_resolvedRrs, ResolvedRecord.rrs, ResolvedRecord.soaRR, Option.toList_none,
            List.append_nil] at hrr
          exact hall rr hrr

/-- B1 (helper form): every record of every `ok` outcome of `resolve_local` stems from the zones or
    is a live record of the cache the resolution started with. -/
theorem cu_resolveLocal_src (fuel : Nat) : cu_RecSrcOK (resolveLocal fuel) := by
  induction fuel with
  | zero => intro c q r h; rw [resolveLocal_zero] at h; cases h
  | succ n ih => intro c q r h; rw [resolveLocal_succ] at h; exact cu_localStep_src ih c q r h

/-! ### the cached alias `resolve_local` follows -/

/-- `resolve_local` at `(ctx, q)` (with `fuel + 1` units) FOLLOWS THE CACHED ALIAS `cnameRR → cname`:
    the guards pass, the zones leave the question to the cache, the cache has no live record of the
    asked type, the question is not for CNAME itself, and `cnameRR` is the first record the cache
    returns for `(q.name, CNAME)`, an alias to `cname`.  `cu_follows_unfold` shows that this is
    exactly the situation in which the model makes the recursive call for a cached alias. -/
structure cu_FollowsCachedCname (fuel : Nat) (ctx : Ctx) (q : Question) (cnameRR : RR) (cname : Name) : Prop where
  notLimit : ctx.atRecursionLimit = false
  notDup : ctx.isDuplicate q = false
  zoneFalls : ∃ rz, zonePart (resolveLocal fuel) ctx q = (ctx, .inr rz)
  firstEmpty : (ctx.cacheGet q.name q.qtype).2 = []
  notCname : q.qtype ≠ CNAME_QTYPE
  head : ∃ rest, ((ctx.cacheGet q.name q.qtype).1.cacheGet q.name CNAME_QTYPE).2 = cnameRR :: rest
  target : cnameTarget cnameRR = some cname

/-- the context in which the alias target is resolved -/
def cu_aliasCtx (ctx : Ctx) (q : Question) : Ctx :=
  (((ctx.cacheGet q.name q.qtype).1.cacheGet q.name CNAME_QTYPE).1).push q

/-- … and then the level's outcome is the wrapped outcome of resolving the alias target. -/
theorem cu_follows_unfold {fuel : Nat} {ctx : Ctx} {q : Question} {cnameRR : RR} {cname : Name}
    (h : cu_FollowsCachedCname fuel ctx q cnameRR cname) :
    ∃ rz, zonePart (resolveLocal fuel) ctx q = (ctx, .inr rz) ∧
      resolveLocal (fuel + 1) ctx q =
        finishPart q rz (cacheCnameFinish cnameRR cname
          (resolveLocal fuel (cu_aliasCtx ctx q) { name := cname, qtype := q.qtype, qclass := q.qclass })) := by
  obtain ⟨rz, hz⟩ := h.zoneFalls
  obtain ⟨rest, hhead⟩ := h.head
  refine ⟨rz, hz, ?_⟩
  have h5 : (q.qtype != CNAME_QTYPE) = true := by simp [h.notCname]
  rw [resolveLocal_succ]
  unfold localStep
  simp only [h.notLimit, h.notDup, Bool.false_eq_true, if_false, hz]
  unfold cacheStage cachePart
  simp only [h.firstEmpty, List.isEmpty_nil, h5, Bool.and_self, if_true]
  unfold cacheCnamePart
  simp only [hhead, h.target]
  rfl

theorem cu_lookup_cname : lookupNat queryTypeFromU16 CNAME_QTYPE = none := by
  rw [cu_lookup_none_iff]; decide

/-- what the cache returns for `(name, CNAME)`: the live tuples filed under CNAME -/
theorem cu_cacheGet_cname_mem {c : PCache} {name : Name} {now : Nat} {rr : RR}
    (h : rr ∈ (cacheGet c name CNAME_QTYPE now).2) :
    ∃ t ∈ tuplesAt c name RT_CNAME, rr = mkRR name now t ∧ now < t.2 ∧ 1 ≤ rr.ttl ∧ rr.ttl * NANOS ≤ t.2 - now := by
  obtain ⟨hu, hpos⟩ := (mem_cacheGet_iff name CNAME_QTYPE now rr).mp h
  rw [cacheGetUnchecked_snd_rec cu_lookup_cname, toRRs_eq_map] at hu
  obtain ⟨t, ht, rfl⟩ := List.mem_map.mp hu
  obtain ⟨h1, h2⟩ := cu_mkRR_live name now t hpos
  exact ⟨t, ht, rfl, h1, hpos, h2⟩

/-- B2 (helper form): the cached alias that is followed is live — it is a tuple filed under CNAME
    for the question name whose expiry is strictly later than the clock. -/
theorem cu_followed_cname_live {fuel : Nat} {ctx : Ctx} {q : Question} {cnameRR : RR} {cname : Name}
    (h : cu_FollowsCachedCname fuel ctx q cnameRR cname) :
    ∃ t ∈ tuplesAt ctx.cache q.name RT_CNAME, cnameRR = mkRR q.name ctx.now t ∧ ctx.now < t.2 ∧
      1 ≤ cnameRR.ttl ∧ cnameRR.ttl * NANOS ≤ t.2 - ctx.now := by
  obtain ⟨rest, hhead⟩ := h.head
  have hmem : cnameRR ∈ ((ctx.cacheGet q.name q.qtype).1.cacheGet q.name CNAME_QTYPE).2 := by
    rw [hhead]; simp
  rw [Ctx.cacheGet_snd] at hmem
  obtain ⟨t, ht, he, hlt, hpos, hle⟩ := cu_cacheGet_cname_mem hmem
  have hnow : (ctx.cacheGet q.name q.qtype).1.now = ctx.now := (Ctx.cacheGet_frame ctx q.name q.qtype).2.1
  have hta : tuplesAt (ctx.cacheGet q.name q.qtype).1.cache q.name RT_CNAME = tuplesAt ctx.cache q.name RT_CNAME := by
    unfold tuplesAt; rw [cu_cacheGet_sameRecs ctx q.name q.qtype q.name]
  rw [hnow] at he hlt hle
  rw [hta] at ht
  exact ⟨t, ht, he, hlt, hpos, hle⟩

/-- under the structural invariant: the followed alias is the stored key `(q.name, CNAME, data)`,
    its stored expiry is strictly later than the clock -/
theorem cu_followed_cname_stored {fuel : Nat} {ctx : Ctx} {q : Question} {cnameRR : RR} {cname : Name}
    (hinv : Inv ctx.cache) (h : cu_FollowsCachedCname fuel ctx q cnameRR cname) :
    cnameRR.name = q.name ∧ cnameRR.rtype = RT_CNAME ∧
    ∃ e, storedExpiry ctx.cache q.name RT_CNAME cnameRR.fields = some e ∧ ctx.now < e ∧
      1 ≤ cnameRR.ttl ∧ cnameRR.ttl * NANOS ≤ e - ctx.now := by
  obtain ⟨t, ht, he, hlt, hpos, hle⟩ := cu_followed_cname_live h
  have hrk : t.1.rtype = RT_CNAME := hinv.tuplesAt_rtype q.name RT_CNAME t ht
  have hname : cnameRR.name = q.name := by rw [he]; rfl
  have hrt : cnameRR.rtype = RT_CNAME := by rw [he]; exact hrk
  have hfs : cnameRR.fields = t.1.fields := by rw [he]; rfl
  refine ⟨hname, hrt, t.2, ?_, hlt, hpos, hle⟩
  rw [storedExpiry_eq, hfs]
  apply lookupTuple_of_mem (hinv.tuplesAt_nodup q.name RT_CNAME)
  have : ((⟨RT_CNAME, t.1.fields⟩ : CRec), t.2) = t := by
    obtain ⟨⟨a, b⟩, e⟩ := t; simp only at hrk; subst hrk; rfl
  rw [this]; exact ht

/-- a list of tuples none of which has a full second left yields nothing through `get` -/
theorem cu_cacheGet_rec_stale {c : PCache} {name : Name} {qtype now : Nat}
    (hq : lookupNat queryTypeFromU16 qtype = none)
    (hst : ∀ t ∈ tuplesAt c name qtype, t.2 < now + NANOS) : (cacheGet c name qtype now).2 = [] := by
  apply List.eq_nil_iff_forall_not_mem.mpr
  intro rr hrr
  obtain ⟨hu, hpos⟩ := (mem_cacheGet_iff name qtype now rr).mp hrr
  rw [cacheGetUnchecked_snd_rec hq, toRRs_eq_map] at hu
  obtain ⟨t, ht, rfl⟩ := List.mem_map.mp hu
  have := hst t ht
  have hn : NANOS = 1000000000 := rfl
  have hz : (t.2 - now) / NANOS = 0 := by
    apply Nat.div_eq_of_lt; omega
  simp only [mkRR, hz, Nat.zero_min] at hpos
  omega

/-- conversely: when no CNAME tuple of `q.name` has a full second left, no cached alias is followed -/
theorem cu_stale_cname_not_followed {fuel : Nat} {ctx : Ctx} {q : Question}
    (hst : ∀ t ∈ tuplesAt ctx.cache q.name RT_CNAME, t.2 < ctx.now + NANOS) (cnameRR : RR) (cname : Name) :
    ¬ cu_FollowsCachedCname fuel ctx q cnameRR cname := by
  intro h
  obtain ⟨t, ht, he, _, hpos, hle⟩ := cu_followed_cname_live h
  have := hst t ht
  have hn : NANOS = 1000000000 := rfl
  have : 1 * NANOS ≤ cnameRR.ttl * NANOS := Nat.mul_le_mul_right _ hpos
  omega

/-! ### corollaries -/

theorem cu_toResolved_rrs (r : LocalResult) : cu_resolvedRrs r.toResolved = cu_localRrs r := by
  cases r with
  | done res => rfl
  | partialAnswer rrs => simp [LocalResult.toResolved, cu_resolvedRrs, cu_localRrs, ResolvedRecord.rrs, ResolvedRecord.soaRR]
  | delegation rrs soa d =>
    cases soa <;>
      simp [LocalResult.toResolved, cu_resolvedRrs, cu_localRrs, ResolvedRecord.rrs, ResolvedRecord.soaRR]
  | cname rrs cq => simp [LocalResult.toResolved, cu_resolvedRrs, cu_localRrs, ResolvedRecord.rrs, ResolvedRecord.soaRR]

/-- local resolution leaves every stored expiry alone -/
theorem cu_resolveLocal_storedExpiry (fuel : Nat) (ctx : Ctx) (q : Question) (k : Name) (rt : Nat)
    (fs : List FieldVal) :
    storedExpiry (resolveLocal fuel ctx q).1.cache k rt fs = storedExpiry ctx.cache k rt fs := by
  rw [storedExpiry_eq, storedExpiry_eq]
  unfold tuplesAt
  rw [cu_resolveLocal_sameRecs fuel ctx q k]

end Resolved

