/-
  Reading a line written by `Zone::serialise`: pieces separated by blanks, ended by a line feed.
-/
import Resolved.Proofs.ZoneTextNames
import Resolved.Proofs.ZoneTextNumbers
import Resolved.Proofs.ZoneTextShapes
import Resolved.Proofs.ZoneTextIpv4

namespace Resolved.ZoneText

open Resolved Resolved.IpText Gen

/-! ## blanks between tokens -/

theorem tokLoop_initial_space (cs : List Char) (rtoks : List Token) (lc : Bool) :
    tokLoop 0 (' ' :: cs) rtoks [] [] .initial lc = tokLoop 0 cs rtoks [] [] .initial lc := by
  simp [tokLoop, isWhitespace]

theorem tokLoop_initial_newline (cs : List Char) (rtoks : List Token) :
    tokLoop 0 ('\n' :: cs) rtoks [] [] .initial false = .ok (rtoks.reverse, cs) := by
  simp [tokLoop, pushNonEmpty]

/-! ## `Reads x tok`: between tokens, the text `x` is read as exactly the token `tok` -/

structure Reads (x : List Char) (tok : Token) : Prop where
  space : ∀ (rest : List Char) (rtoks : List Token) (lc : Bool),
    tokLoop 0 (x ++ ' ' :: rest) rtoks [] [] .initial lc = tokLoop 0 rest (tok :: rtoks) [] [] .initial lc
  newline : ∀ (rest : List Char) (rtoks : List Token),
    tokLoop 0 (x ++ '\n' :: rest) rtoks [] [] .initial false = .ok ((tok :: rtoks).reverse, rest)

/-- from an unquoted start. -/
theorem Reads.ofUnquoted {x : List Char} {chars : List Char} {octs : List UInt8} (hne : chars ≠ [])
    (h : ∀ (rest : List Char) (rtoks : List Token) (lc : Bool),
      tokLoop 0 (x ++ rest) rtoks [] [] .initial lc
        = tokLoop 0 rest rtoks chars.reverse octs.reverse .unquotedString lc) :
    Reads x (chars, octs) := by
  have hr : chars.reverse ≠ [] := by simpa using hne
  constructor
  · intro rest rtoks lc
    rw [h, tokLoop_unquoted_space ' ' (Or.inl rfl) _ _ _ _ _ hr]
    simp
  · intro rest rtoks
    rw [h, tokLoop_unquoted_newline _ _ _ _ hr]
    simp

/-- from a quoted token. -/
theorem Reads.ofQuoted {x : List Char} {tok : Token}
    (h : ∀ (rest : List Char) (rtoks : List Token) (lc : Bool),
      tokLoop 0 (x ++ rest) rtoks [] [] .initial lc = tokLoop 0 rest (tok :: rtoks) [] [] .initial lc) :
    Reads x tok := by
  constructor
  · intro rest rtoks lc
    rw [h, tokLoop_initial_space]
  · intro rest rtoks
    rw [h, tokLoop_initial_newline]

/-- more blanks after a token change nothing. -/
theorem Reads.append_space {x : List Char} {tok : Token} (h : Reads x tok) : Reads (x ++ [' ']) tok := by
  constructor
  · intro rest rtoks lc
    rw [List.append_assoc, List.singleton_append, h.space, tokLoop_initial_space]
  · intro rest rtoks
    rw [List.append_assoc, List.singleton_append, h.space, tokLoop_initial_newline]

theorem reads_serialiseOctets_unquoted (bs : List UInt8) (hne : bs ≠ []) :
    Reads (serialiseOctets bs false) (bs.map octetAsChar, bs) :=
  Reads.ofUnquoted (by simpa using hne) (fun rest rtoks lc => by
    rw [tokLoop_serialiseOctets_unquoted bs hne])

theorem reads_serialiseOctets_quoted (bs : List UInt8) :
    Reads (serialiseOctets bs true) (bs.map octetAsChar, bs) :=
  Reads.ofQuoted (fun rest rtoks lc => tokLoop_serialiseOctets_quoted bs rest rtoks lc)

/-! ## plain ASCII words (numbers, `IN`, type mnemonics, addresses) -/

theorem tokLoop_plain_chars (cs : List Char) :
    ∀ (rest : List Char) (rtoks : List Token) (rstr : List Char) (roct : List UInt8) (lc : Bool),
      (∀ c ∈ cs, plainUnq c = true) →
      tokLoop 0 (cs ++ rest) rtoks rstr roct .unquotedString lc
        = tokLoop 0 rest rtoks (cs.reverse ++ rstr) ((cs.map charAsU8).reverse ++ roct) .unquotedString lc := by
  induction cs with
  | nil => intros; rfl
  | cons c cs ih =>
    intro rest rtoks rstr roct lc h
    rw [List.cons_append, tokLoop_unq_plain (h c (by simp)), ih _ _ _ _ _ (fun d hd => h d (by simp [hd]))]
    simp

/-- a word all of whose chars are plain (the first one also at the start of a token). -/
def PlainWord (s : List Char) : Prop :=
  ∃ c cs, s = c :: cs ∧ plainInit c = true ∧ ∀ d ∈ cs, plainUnq d = true

theorem reads_plain {s : List Char} (h : PlainWord s) : Reads s (s, s.map charAsU8) := by
  obtain ⟨c, cs, rfl, hc, hcs⟩ := h
  apply Reads.ofUnquoted (by simp)
  intro rest rtoks lc
  rw [List.cons_append, tokLoop_init_plain hc, tokLoop_plain_chars cs _ _ _ _ _ hcs]
  simp

/-- ASCII digits, letters, `.` and `:` are plain everywhere. -/
def wordChar (c : Char) : Bool :=
  (48 ≤ c.toNat && c.toNat ≤ 58) || (65 ≤ c.toNat && c.toNat ≤ 90) || (97 ≤ c.toNat && c.toNat ≤ 122) || c.toNat == 46

set_option maxRecDepth 40000 in
theorem wordChar_plain_nat : ∀ n, n < 128 → wordChar (Char.ofNat n) = true →
    plainInit (Char.ofNat n) = true ∧ plainUnq (Char.ofNat n) = true := by decide

theorem wordChar_plain (c : Char) (h : wordChar c = true) : plainInit c = true ∧ plainUnq c = true := by
  have hlt : c.toNat < 128 := by
    simp only [wordChar, Bool.or_eq_true, Bool.and_eq_true, decide_eq_true_eq, beq_iff_eq] at h
    omega
  have := wordChar_plain_nat c.toNat hlt (by rw [Char.ofNat_toNat]; exact h)
  rwa [Char.ofNat_toNat] at this

theorem plainWord_of_wordChars {s : List Char} (hne : s ≠ []) (h : ∀ c ∈ s, wordChar c = true) : PlainWord s := by
  cases s with
  | nil => exact absurd rfl hne
  | cons c cs =>
    exact ⟨c, cs, rfl, (wordChar_plain c (h c (by simp))).1, fun d hd => (wordChar_plain d (h d (by simp [hd]))).2⟩

/-! ## sequences of pieces separated by one blank -/

def joinSp : List (List Char) → List Char
  | [] => []
  | [x] => x
  | x :: y :: ys => x ++ ' ' :: joinSp (y :: ys)

theorem joinSp_cons (x : List Char) (ys : List (List Char)) (h : ys ≠ []) :
    joinSp (x :: ys) = x ++ ' ' :: joinSp ys := by
  cases ys with
  | nil => exact absurd rfl h
  | cons y ys => rfl

theorem joinSp_append (xs ys : List (List Char)) (hx : xs ≠ []) (hy : ys ≠ []) :
    joinSp (xs ++ ys) = joinSp xs ++ ' ' :: joinSp ys := by
  induction xs with
  | nil => exact absurd rfl hx
  | cons x xs ih =>
    cases xs with
    | nil => simp [joinSp_cons x ys hy, joinSp]
    | cons x2 xs2 =>
      rw [List.cons_append, joinSp_cons x _ (by simp), ih (by simp), joinSp_cons x (x2 :: xs2) (by simp)]
      simp

/-- a non-empty sequence of pieces, each read as a token, ended by a line feed, is read as these
    tokens and ends the entry. -/
inductive ReadsAll : List (List Char) → List Token → Prop where
  | nil : ReadsAll [] []
  | cons {x : List Char} {tok : Token} {xs : List (List Char)} {toks : List Token} :
      Reads x tok → ReadsAll xs toks → ReadsAll (x :: xs) (tok :: toks)

theorem reads_seq (xs : List (List Char)) (toks : List Token) (h : ReadsAll xs toks)
    (hne : xs ≠ []) :
    ∀ (rest : List Char) (rtoks : List Token),
      tokLoop 0 (joinSp xs ++ '\n' :: rest) rtoks [] [] .initial false
        = .ok (rtoks.reverse ++ toks, rest) := by
  induction h with
  | nil => exact absurd rfl hne
  | cons hx hrest ih =>
    rename_i x tok xs' toks'
    intro rest rtoks
    cases xs' with
    | nil =>
      cases hrest
      simp only [joinSp]
      rw [hx.newline]
      simp
    | cons y ys =>
      rw [joinSp_cons x _ (by simp), List.append_assoc, List.cons_append, hx.space, ih (by simp)]
      simp

/-! ## record types -/

theorem rtypeFromStr_showRtype : ∀ p ∈ rtypeNames, rtypeFromStr (showRtype p.1) = some p.1 := by decide

theorem showRtype_known (code : Nat) (name : List Char) (h : lookupByCode rtypeNames code = some name) :
    showRtype code = name ∧ (code, name) ∈ rtypeNames := by
  unfold showRtype
  rw [h]
  refine ⟨rfl, ?_⟩
  have : ∀ (l : List (Nat × List Char)), lookupByCode l code = some name → (code, name) ∈ l := by
    intro l
    induction l with
    | nil => intro h; simp [lookupByCode] at h
    | cons p ps ih =>
      intro h
      obtain ⟨c, n⟩ := p
      simp only [lookupByCode] at h
      split at h
      · rename_i hc; cases h; subst hc; simp
      · simp [ih h]
  exact this _ h

theorem showRtype_words : ∀ p ∈ rtypeNames, ∀ c ∈ showRtype p.1, wordChar c = true := by decide

theorem showRtype_ne_nil : ∀ p ∈ rtypeNames, showRtype p.1 ≠ [] := by decide

/-! ## the pieces of a record line -/

/-- the text and the token of one RDATA field. -/
def fieldPiece (z : Zone) : FieldVal → List Char
  | .name n => serialiseDomain z n
  | .u16 n => showDec n
  | .u32 n => showDec n
  | .a addr => showIpv4 addr
  | .aaaa gs => showIpv6 gs
  | .opaque bs => serialiseOctets bs true

def wordToken (s : List Char) : Token := (s, s.map charAsU8)

def fieldToken (z : Zone) : FieldVal → Token
  | .name n => ((domainStr z n).map octetAsChar, domainStr z n)
  | .u16 n => wordToken (showDec n)
  | .u32 n => wordToken (showDec n)
  | .a addr => wordToken (showIpv4 addr)
  | .aaaa gs => wordToken (showIpv6 gs)
  | .opaque bs => (bs.map octetAsChar, bs)

/-- what is required of a field for its text to be read back. -/
def FieldOK : FieldVal → Prop
  | .name n => TextName n
  | .u16 n => n < 65536
  | .u32 n => n < 4294967296
  | .a addr => addr < 4294967296
  | .aaaa gs => gs.length = 8 ∧ ∀ g ∈ gs, g < 65536
  | .opaque _ => True

theorem showDec_words (n : Nat) : showDec n ≠ [] ∧ ∀ c ∈ showDec n, wordChar c = true := by
  refine ⟨(showDec_digits n).1, ?_⟩
  intro c hc
  have := (showDec_digits n).2 c hc
  simp only [isAsciiDigit, Bool.and_eq_true, decide_eq_true_eq] at this
  simp only [wordChar, Bool.or_eq_true, Bool.and_eq_true, decide_eq_true_eq, beq_iff_eq]
  omega

theorem addrByte_word {b : UInt8} (h : Ip.isAddrByte b = true) : wordChar (Char.ofNat b.toNat) = true := by
  have hc : (Char.ofNat b.toNat).toNat = b.toNat := ofNat_toNat_256 _ b.toNat_lt
  simp only [Ip.isAddrByte, Bool.or_eq_true, Bool.and_eq_true, decide_eq_true_eq, beq_iff_eq] at h
  simp only [wordChar, hc, Bool.or_eq_true, Bool.and_eq_true, decide_eq_true_eq, beq_iff_eq]
  omega

theorem addrBytes_words {bs : List UInt8} (hne : bs ≠ []) (h : ∀ b ∈ bs, Ip.isAddrByte b = true) :
    bytesAsChars bs ≠ [] ∧ ∀ c ∈ bytesAsChars bs, wordChar c = true := by
  refine ⟨by simpa [bytesAsChars] using hne, ?_⟩
  intro c hc
  simp only [bytesAsChars, List.mem_map] at hc
  obtain ⟨b, hb, rfl⟩ := hc
  exact addrByte_word (h b hb)

theorem showIpv4_words (a : Nat) : showIpv4 a ≠ [] ∧ ∀ c ∈ showIpv4 a, wordChar c = true :=
  addrBytes_words (showIpv4_bytes a).2 (showIpv4_bytes a).1

theorem showIpv6_words (gs : List Nat) (hl : gs.length = 8) (hg : ∀ g ∈ gs, g < 65536) :
    showIpv6 gs ≠ [] ∧ ∀ c ∈ showIpv6 gs, wordChar c = true := by
  have hne : gs ≠ [] := by intro h; rw [h] at hl; simp at hl
  exact addrBytes_words (showIpv6_bytes gs hg hne).2 (showIpv6_bytes gs hg hne).1

theorem reads_field (z : Zone) (ha : TextName z.apex) (f : FieldVal) (hf : FieldOK f) :
    Reads (fieldPiece z f) (fieldToken z f) := by
  cases f with
  | name n =>
    have := (domainStr_roundtrip z n hf ha).1
    exact reads_serialiseOctets_unquoted _ this
  | u16 n => exact reads_plain (plainWord_of_wordChars (showDec_words n).1 (showDec_words n).2)
  | u32 n => exact reads_plain (plainWord_of_wordChars (showDec_words n).1 (showDec_words n).2)
  | a addr => exact reads_plain (plainWord_of_wordChars (showIpv4_words addr).1 (showIpv4_words addr).2)
  | aaaa gs => exact reads_plain (plainWord_of_wordChars (showIpv6_words gs hf.1 hf.2).1 (showIpv6_words gs hf.1 hf.2).2)
  | «opaque» bs => exact reads_serialiseOctets_quoted bs

end Resolved.ZoneText
