/-
  Helper lemmas about the wire decoder model (`Resolved/Model/Wire.lean`) and the declarative
  grammar (`Resolved/Spec/Wire.lean`), used by the C03 property theorems in `Props/C03.lean`.
  Only the numeric facts `LABEL_MAX_LEN = 63` / `DOMAINNAME_MAX_LEN = 255` of the generated
  constants are used (through `lml` / `dml`).
-/
import Resolved.Spec.Wire
namespace Resolved
open Gen

theorem lml : LABEL_MAX_LEN = 63 := rfl
theorem dml : DOMAINNAME_MAX_LEN = 255 := rfl

theorem finishName_ok {id : Nat} {labels : List Label} {len pos : Nat} {n : Name} {e : Nat}
    (h : finishName id labels len pos = .ok (n, e)) :
    n = ⟨labels, len⟩ ∧ e = pos ∧ len ≤ 255 := by
  unfold finishName at h
  split at h
  · rename_i hle; rw [dml] at hle; cases h; exact ⟨rfl, rfl, hle⟩
  · cases h

theorem finishName_err {id : Nat} {labels : List Label} {len pos : Nat} {e : DErr}
    (h : finishName id labels len pos = .error e) : e = .domainTooLong id ∧ 255 < len := by
  unfold finishName at h
  split at h
  · cases h
  · rename_i hle; rw [dml] at hle; cases h; exact ⟨rfl, by omega⟩

theorem finishName_of_le {id : Nat} {labels : List Label} {len pos : Nat} (h : len ≤ 255) :
    finishName id labels len pos = .ok (⟨labels, len⟩, pos) := by
  unfold finishName; rw [dml, if_pos h]

theorem decodeNameLoop_err_id (id : Nat) (buf : List UInt8) (start pos len : Nat) (labels : List Label) :
    ∀ e, decodeNameLoop id buf start pos len labels = .error e → e.id = some id := by
  fun_induction decodeNameLoop id buf start pos len labels <;> intro e h
  case case3 ih => exact ih e h
  case case6 ih => cases h; exact ih _ (by assumption)
  all_goals first
    | (cases h; rfl)
    | (rw [(finishName_err h).1]; rfl)


theorem decodeNameLoop_sound (id : Nat) (buf : List UInt8) (start pos len : Nat) (labels : List Label) :
    ∀ n e, decodeNameLoop id buf start pos len labels = .ok (n, e) →
      ∃ ls l, WireName buf start pos ls l e ∧ n.labels = labels ++ ls ∧ n.len = len + l ∧ n.len ≤ 255 := by
  fun_induction decodeNameLoop id buf start pos len labels <;> intro n e h
  case case1 hlt size pos1 hsz len1 hz =>
    obtain ⟨rfl, rfl, hle⟩ := finishName_ok h
    refine ⟨[[]], 1, WireName.root ?_, rfl, rfl, hle⟩
    rw [List.getElem?_eq_getElem hlt]
    congr 1
    exact UInt8.toNat_inj.mp hz
  case case2 os len2 labels2 pos2 hgt =>
    have := (finishName_ok h).2.2
    rw [dml] at hgt; omega
  case case3 hlt size pos1 hsz len1 hnz hfit os len2 labels2 pos2 hle ih =>
    obtain ⟨ls, l, hw, hl, hn, hb⟩ := ih n e h
    refine ⟨_ :: ls, _, WireName.label (List.getElem?_eq_getElem hlt) (by omega) (by rw [lml] at hsz; exact hsz) hfit hw, ?_, ?_, hb⟩
    · rw [hl]; simp only [labels2, os, size, pos1, List.append_assoc, List.cons_append, List.nil_append]
    · rw [hn]; omega
  case case7 hlt size pos1 hnsz hge hlt2 hi lo ptr hptr other snd hrec ih =>
    obtain ⟨ls, l, hw, hl, hn, hb⟩ := ih other snd hrec
    obtain ⟨rfl, rfl, hle⟩ := finishName_ok h
    refine ⟨ls, l, WireName.ptr (List.getElem?_eq_getElem hlt) hge (List.getElem?_eq_getElem hlt2) (by omega) hw, ?_, ?_, hle⟩
    · simp at hl; simp [hl]
    · simp at hn; simp [hn]
  all_goals cases h

/-! ## Facts about the grammar `WireName` -/

/-- A grammatical name occupies at least one octet and stays inside the buffer. -/
theorem WireName.bounds {buf : List UInt8} {s p : Nat} {ls : List Label} {l e : Nat}
    (h : WireName buf s p ls l e) : p < e ∧ e ≤ buf.length := by
  induction h with
  | root h0 =>
    have := (List.getElem?_eq_some_iff.mp h0).1
    omega
  | label hsz h1 h63 hfit _ ih => omega
  | ptr hb h192 hlo hlt _ _ =>
    have := (List.getElem?_eq_some_iff.mp hlo).1
    omega

theorem labelsShape_cons {x : Label} {rest : List Label} (hx : x ≠ []) (h : LabelsShape rest) :
    LabelsShape (x :: rest) := by
  obtain ⟨hne, hlast, hmid⟩ := h
  cases rest with
  | nil => exact absurd rfl hne
  | cons y ys =>
    refine ⟨by simp, ?_, ?_⟩
    · rw [List.getLast?_cons_cons]; exact hlast
    · intro l hl
      rw [List.dropLast_cons_cons] at hl
      rcases List.mem_cons.mp hl with rfl | hl
      · exact hx
      · exact hmid l hl

/-- Every name of the grammar has the `from_labels` shape, lower-cased labels of 1..63 octets,
    and `len` equal to its encoded length. -/
theorem WireName.wf {buf : List UInt8} {s p : Nat} {ls : List Label} {l e : Nat}
    (h : WireName buf s p ls l e) :
    LabelsShape ls ∧ (∀ x ∈ ls, LabelOK x) ∧ l = ls.length + sumLen ls := by
  induction h with
  | root h0 =>
    refine ⟨⟨by simp, by simp, by simp⟩, ?_, by simp⟩
    intro x hx
    rw [List.mem_singleton] at hx
    subst hx
    exact ⟨Nat.zero_le _, by simp⟩
  | @label start pos sz rest rlen e hsz h1 h63 hfit _ ih =>
    obtain ⟨hshape, hok, hlen⟩ := ih
    have hlenx : (((buf.drop (pos + 1)).take sz.toNat).map lowerByte).length = sz.toNat := by
      rw [List.length_map, List.length_take, List.length_drop]; omega
    refine ⟨labelsShape_cons ?_ hshape, ?_, ?_⟩
    · intro h0; rw [h0] at hlenx; simp at hlenx; omega
    · intro x hx
      rcases List.mem_cons.mp hx with rfl | hx
      · refine ⟨by rw [hlenx, lml]; exact h63, ?_⟩
        intro b hb
        obtain ⟨a, _, rfl⟩ := List.mem_map.mp hb
        exact lowerByte_not_upper a
      · exact hok x hx
    · rw [sumLen_cons, hlenx, List.length_cons, hlen]; omega
  | ptr _ _ _ _ _ ih => exact ih

/-- Nesting depth of pointer expansion is bounded by the start offset. -/
theorem WireNameDepth.le_start {buf : List UInt8} {s p d : Nat} (h : WireNameDepth buf s p d) :
    d ≤ s := by
  induction h with
  | root _ => exact Nat.zero_le _
  | label _ _ _ _ ih => exact ih
  | ptr _ _ _ hlt _ ih => omega

theorem WireName.depth {buf : List UInt8} {s p : Nat} {ls : List Label} {l e : Nat}
    (h : WireName buf s p ls l e) : ∃ d, WireNameDepth buf s p d := by
  induction h with
  | root h0 => exact ⟨0, .root h0⟩
  | label hsz h1 h63 _ _ ih => obtain ⟨d, hd⟩ := ih; exact ⟨d, .label hsz h1 h63 hd⟩
  | ptr hb h192 hlo hlt _ ih => obtain ⟨d, hd⟩ := ih; exact ⟨d + 1, .ptr hb h192 hlo hlt hd⟩

theorem ptr_lt_16384 (b lo : UInt8) : (b.toNat % 64) * 256 + lo.toNat < 16384 := by
  have := lo.toNat_lt
  omega

/-! ## Completeness of the name decoder and determinism of the grammar -/

theorem decodeNameLoop_complete (id : Nat) {buf : List UInt8} {s p : Nat} {ls : List Label} {l e : Nat}
    (h : WireName buf s p ls l e) :
    ∀ len labels, len + l ≤ 255 →
      decodeNameLoop id buf s p len labels = .ok (⟨labels ++ ls, len + l⟩, e) := by
  induction h with
  | @root start pos h0 =>
    intro len labels hle
    obtain ⟨hlt, hv⟩ := List.getElem?_eq_some_iff.mp h0
    have h00 : (0 : UInt8).toNat = 0 := rfl
    rw [decodeNameLoop, dif_pos hlt]
    simp only [hv]
    rw [if_pos (by rw [lml, h00]; omega), if_pos h00, finishName_of_le hle]
  | @label start pos sz rest rlen e hsz h1 h63 hfit _ ih =>
    intro len labels hle
    obtain ⟨hlt, hv⟩ := List.getElem?_eq_some_iff.mp hsz
    rw [decodeNameLoop, dif_pos hlt]
    simp only [hv]
    have e1 : len + 1 + sz.toNat + rlen = len + (1 + sz.toNat + rlen) := by omega
    rw [if_pos (by rw [lml]; exact h63), if_neg (by omega), if_pos hfit, if_neg (by rw [dml]; omega),
      ih _ _ (by omega), e1, List.append_assoc]
    rfl
  | @ptr start pos b lo rest rlen e hb h192 hlo hlt _ ih =>
    intro len labels hle
    obtain ⟨hlt, hv⟩ := List.getElem?_eq_some_iff.mp hb
    obtain ⟨hlt2, hv2⟩ := List.getElem?_eq_some_iff.mp hlo
    rw [decodeNameLoop, dif_pos hlt]
    simp only [hv]
    rw [if_neg (by rw [lml]; omega), if_pos h192, dif_pos hlt2]
    simp only [hv2]
    rw [dif_neg (by omega), ih 0 [] (by omega)]
    simp only [List.nil_append, Nat.zero_add]
    rw [finishName_of_le hle]

/-- The grammar is deterministic. -/
theorem WireName.functional {buf : List UInt8} {s p : Nat} {ls : List Label} {l e : Nat}
    (h : WireName buf s p ls l e) :
    ∀ {ls' l' e'}, WireName buf s p ls' l' e' → ls = ls' ∧ l = l' ∧ e = e' := by
  induction h with
  | @root start pos h0 =>
    intro ls' l' e' h'
    cases h' with
    | root _ => exact ⟨rfl, rfl, rfl⟩
    | label hsz h1 _ _ _ =>
      rw [h0] at hsz; cases hsz
      exact absurd h1 (by decide)
    | ptr hb h192 _ _ _ =>
      rw [h0] at hb; cases hb
      exact absurd h192 (by decide)
  | @label start pos sz rest rlen e hsz h1 h63 hfit _ ih =>
    intro ls' l' e' h'
    cases h' with
    | root h0 =>
      rw [h0] at hsz; cases hsz
      exact absurd h1 (by decide)
    | label hsz' _ _ _ hrest =>
      rw [hsz] at hsz'; cases hsz'
      obtain ⟨rfl, rfl, rfl⟩ := ih hrest
      exact ⟨rfl, rfl, rfl⟩
    | ptr hb h192 _ _ _ =>
      rw [hsz] at hb; cases hb
      omega
  | @ptr start pos b lo rest rlen e hb h192 hlo hlt _ ih =>
    intro ls' l' e' h'
    cases h' with
    | root h0 =>
      rw [h0] at hb; cases hb
      exact absurd h192 (by decide)
    | label hsz' _ h63 _ _ =>
      rw [hsz'] at hb; cases hb
      omega
    | ptr hb' _ hlo' _ hrest =>
      rw [hb] at hb'; cases hb'
      rw [hlo] at hlo'; cases hlo'
      obtain ⟨rfl, rfl, _⟩ := ih hrest
      exact ⟨rfl, rfl, rfl⟩


/-! ## ConsumableBuffer primitives -/

theorem nextU8_some {buf : List UInt8} {pos v p' : Nat} (h : nextU8 buf pos = some (v, p')) :
    ∃ hlt : pos < buf.length, v = (buf[pos]'hlt).toNat ∧ p' = pos + 1 := by
  unfold nextU8 at h
  split at h
  · rename_i hlt; cases h; exact ⟨hlt, rfl, rfl⟩
  · cases h

theorem nextU16_some {buf : List UInt8} {pos v p' : Nat} (h : nextU16 buf pos = some (v, p')) :
    ∃ hlt : pos + 1 < buf.length,
      v = (buf[pos]'(by omega)).toNat * 256 + (buf[pos + 1]'hlt).toNat ∧ p' = pos + 2 := by
  unfold nextU16 at h
  split at h
  · rename_i hlt; cases h; exact ⟨hlt, rfl, rfl⟩
  · cases h

theorem nextU16_none {buf : List UInt8} {pos : Nat} (h : nextU16 buf pos = none) :
    buf.length ≤ pos + 1 := by
  unfold nextU16 at h
  split at h
  · cases h
  · omega

theorem nextU32_some {buf : List UInt8} {pos v p' : Nat} (h : nextU32 buf pos = some (v, p')) :
    pos + 4 ≤ buf.length ∧ p' = pos + 4 := by
  unfold nextU32 at h
  split at h
  · rename_i hlt; cases h; exact ⟨by omega, rfl⟩
  · cases h

theorem takeN_some {buf : List UInt8} {pos size : Nat} {bs : List UInt8} {p' : Nat}
    (h : takeN buf pos size = some (bs, p')) :
    pos + size ≤ buf.length ∧ p' = pos + size ∧ bs = (buf.drop pos).take size := by
  unfold takeN at h
  split at h
  · rename_i hle; cases h; exact ⟨hle, rfl, rfl⟩
  · cases h

theorem orRRShort_err {α : Type} {id : Nat} {o : Option α} {e : DErr}
    (h : orRRShort id o = .error e) : e = .resourceRecordTooShort id := by
  cases o with
  | none => cases h; rfl
  | some x => cases h

theorem orRRShort_ok {α : Type} {id : Nat} {o : Option α} {x : α}
    (h : orRRShort id o = .ok x) : o = some x := by
  cases o with
  | none => cases h
  | some y => cases h; rfl

theorem Except_map_err {ε α β : Type} {f : α → β} {x : Except ε α} {e : ε}
    (h : x.map f = .error e) : x = .error e := by
  cases x with
  | error e' => cases h; rfl
  | ok a => cases h

theorem Except_map_ok {ε α β : Type} {f : α → β} {x : Except ε α} {b : β}
    (h : x.map f = .ok b) : ∃ a, x = .ok a ∧ b = f a := by
  cases x with
  | error e' => cases h
  | ok a => cases h; exact ⟨a, rfl, rfl⟩

/-! ## Errors carry the header ID they were given -/

theorem decodeName_err_id {id : Nat} {buf : List UInt8} {pos : Nat} {e : DErr}
    (h : decodeName id buf pos = .error e) : e.id = some id :=
  decodeNameLoop_err_id id buf pos pos 0 [] e h

theorem decodeGroups_err_id {id : Nat} {buf : List UInt8} (k : Nat) :
    ∀ {pos : Nat} {e : DErr}, decodeGroups id buf k pos = .error e → e.id = some id := by
  induction k with
  | zero => intro pos e h; cases h
  | succ k ih =>
    intro pos e h
    unfold decodeGroups at h
    split at h
    · cases h; rfl
    · split at h
      · rename_i hrec; cases h; exact ih hrec
      · cases h

theorem decodeField_err_id {id : Nat} {buf : List UInt8} {rdlength : Nat} {f : Field} {pos : Nat}
    {e : DErr} (h : decodeField id buf rdlength f pos = .error e) : e.id = some id := by
  cases f with
  | u16 => rw [orRRShort_err (Except_map_err h)]; rfl
  | u32 => rw [orRRShort_err (Except_map_err h)]; rfl
  | a => rw [orRRShort_err (Except_map_err h)]; rfl
  | aaaa => exact decodeGroups_err_id 8 (Except_map_err h)
  | «opaque» => rw [orRRShort_err (Except_map_err h)]; rfl
  | name c => exact decodeName_err_id (Except_map_err h)

theorem decodeFields_err_id {id : Nat} {buf : List UInt8} {rdlength : Nat} (fs : List Field) :
    ∀ {pos : Nat} {e : DErr}, decodeFields id buf rdlength fs pos = .error e → e.id = some id := by
  induction fs with
  | nil => intro pos e h; cases h
  | cons f fs ih =>
    intro pos e h
    unfold decodeFields at h
    split at h
    · rename_i hf; cases h; exact decodeField_err_id hf
    · split at h
      · rename_i hrec; cases h; exact ih hrec
      · cases h

theorem decodeRR_err_id {id : Nat} {buf : List UInt8} {pos : Nat} {e : DErr}
    (h : decodeRR id buf pos = .error e) : e.id = some id := by
  unfold decodeRR at h
  split at h
  · rename_i hn; cases h; exact decodeName_err_id hn
  · split at h
    · cases h; rfl
    · split at h
      · cases h; rfl
      · split at h
        · cases h; rfl
        · split at h
          · cases h; rfl
          · split at h
            · rename_i hf; cases h; exact decodeFields_err_id _ hf
            · split at h
              · cases h
              · cases h; rfl

theorem decodeQuestion_err_id {id : Nat} {buf : List UInt8} {pos : Nat} {e : DErr}
    (h : decodeQuestion id buf pos = .error e) : e.id = some id := by
  unfold decodeQuestion at h
  split at h
  · rename_i hn; cases h; exact decodeName_err_id hn
  · split at h
    · cases h; rfl
    · split at h
      · cases h; rfl
      · cases h

theorem decodeMany_err_id {α : Type} {id : Nat} {dec : Nat → Except DErr (α × Nat)}
    (hdec : ∀ pos e, dec pos = .error e → e.id = some id) (k : Nat) :
    ∀ {pos : Nat} {e : DErr}, decodeMany dec k pos = .error e → e.id = some id := by
  induction k with
  | zero => intro pos e h; cases h
  | succ k ih =>
    intro pos e h
    unfold decodeMany at h
    split at h
    · rename_i hd; cases h; exact hdec _ _ hd
    · split at h
      · rename_i hrec; cases h; exact ih hrec
      · cases h

theorem decodeMessage_err_id_aux {buf : List UInt8} {id p1 : Nat} {e : DErr}
    (hid : nextU16 buf 0 = some (id, p1)) (h : decodeMessage buf = .error e) : e.id = some id := by
  unfold decodeMessage at h
  rw [hid] at h
  simp only at h
  have hq := @decodeMany_err_id _ id (decodeQuestion id buf) (fun _ _ => decodeQuestion_err_id)
  have hr := @decodeMany_err_id _ id (decodeRR id buf) (fun _ _ => decodeRR_err_id)
  repeat' split at h
  all_goals first
    | (cases h; rfl)
    | (cases h; exact hq _ (by assumption))
    | (cases h; exact hr _ (by assumption))
    | cases h



/-! ## Positions and inversion of successful decodes -/

theorem decodeName_sound {id : Nat} {buf : List UInt8} {pos : Nat} {n : Name} {e : Nat}
    (h : decodeName id buf pos = .ok (n, e)) :
    WireName buf pos pos n.labels n.len e ∧ n.len ≤ 255 := by
  obtain ⟨ls, l, hw, hl, hn, hb⟩ := decodeNameLoop_sound id buf pos pos 0 [] n e h
  rw [List.nil_append] at hl
  rw [Nat.zero_add] at hn
  rw [hl, hn]
  exact ⟨hw, by omega⟩

theorem decodeName_bounds {id : Nat} {buf : List UInt8} {pos : Nat} {n : Name} {e : Nat}
    (h : decodeName id buf pos = .ok (n, e)) : pos < e ∧ e ≤ buf.length :=
  (decodeName_sound h).1.bounds

theorem decodeGroups_ok {id : Nat} {buf : List UInt8} (k : Nat) :
    ∀ {pos : Nat} {gs : List Nat} {e : Nat}, decodeGroups id buf k pos = .ok (gs, e) →
      e = pos + 2 * k ∧ (0 < k → e ≤ buf.length) ∧ gs.length = k := by
  induction k with
  | zero => intro pos gs e h; cases h; exact ⟨rfl, fun h => absurd h (Nat.lt_irrefl 0), rfl⟩
  | succ k ih =>
    intro pos gs e h
    unfold decodeGroups at h
    split at h
    · cases h
    · rename_i g pos' hg
      obtain ⟨hlt, _, rfl⟩ := nextU16_some hg
      split at h
      · cases h
      · rename_i gs' pos'' hrec
        cases h
        obtain ⟨he, hle, hlen⟩ := ih hrec
        refine ⟨by omega, fun _ => ?_, by simp [hlen]⟩
        cases k with
        | zero => omega
        | succ k => exact hle (Nat.succ_pos k)

theorem decodeField_ok {id : Nat} {buf : List UInt8} {rdlength : Nat} {f : Field} {pos : Nat}
    {v : FieldVal} {e : Nat} (h : decodeField id buf rdlength f pos = .ok (v, e)) :
    pos ≤ e ∧ e ≤ buf.length := by
  cases f with
  | u16 =>
    obtain ⟨⟨n, p⟩, hx, hv⟩ := Except_map_ok h
    cases hv
    obtain ⟨hlt, _, rfl⟩ := nextU16_some (orRRShort_ok hx)
    omega
  | u32 =>
    obtain ⟨⟨n, p⟩, hx, hv⟩ := Except_map_ok h
    cases hv
    obtain ⟨hlt, rfl⟩ := nextU32_some (orRRShort_ok hx)
    omega
  | a =>
    obtain ⟨⟨n, p⟩, hx, hv⟩ := Except_map_ok h
    cases hv
    obtain ⟨hlt, rfl⟩ := nextU32_some (orRRShort_ok hx)
    omega
  | aaaa =>
    obtain ⟨⟨n, p⟩, hx, hv⟩ := Except_map_ok h
    cases hv
    obtain ⟨he, hle, _⟩ := decodeGroups_ok 8 hx
    have := hle (by decide)
    omega
  | «opaque» =>
    obtain ⟨⟨n, p⟩, hx, hv⟩ := Except_map_ok h
    cases hv
    obtain ⟨hle, rfl, _⟩ := takeN_some (orRRShort_ok hx)
    omega
  | name c =>
    obtain ⟨⟨n, p⟩, hx, hv⟩ := Except_map_ok h
    cases hv
    have := decodeName_bounds hx
    omega

theorem decodeFields_ok {id : Nat} {buf : List UInt8} {rdlength : Nat} (fs : List Field) :
    ∀ {pos : Nat} {vs : List FieldVal} {e : Nat}, decodeFields id buf rdlength fs pos = .ok (vs, e) →
      pos ≤ e ∧ (pos ≤ buf.length → e ≤ buf.length) ∧ vs.length = fs.length := by
  induction fs with
  | nil => intro pos vs e h; cases h; exact ⟨Nat.le_refl _, fun hh => hh, rfl⟩
  | cons f fs ih =>
    intro pos vs e h
    unfold decodeFields at h
    split at h
    · cases h
    · rename_i v pos' hf
      split at h
      · cases h
      · rename_i vs' pos'' hrec
        cases h
        have h1 := decodeField_ok hf
        obtain ⟨h2, h3, h4⟩ := ih hrec
        exact ⟨by omega, fun _ => h3 h1.2, by simp [h4]⟩

/-- Inversion of a successful `decodeRR`: the fixed part is NAME TYPE CLASS TTL RDLENGTH, read
    big-endian in that order, and the RDATA fields end exactly RDLENGTH octets after RDLENGTH. -/
theorem decodeRR_ok {id : Nat} {buf : List UInt8} {pos : Nat} {rr : RR} {e : Nat}
    (h : decodeRR id buf pos = .ok (rr, e)) :
    ∃ p1 rdlength,
      decodeName id buf pos = .ok (rr.name, p1) ∧
      nextU16 buf p1 = some (rr.rtype, p1 + 2) ∧
      nextU16 buf (p1 + 2) = some (rr.rclass, p1 + 4) ∧
      nextU32 buf (p1 + 4) = some (rr.ttl, p1 + 8) ∧
      nextU16 buf (p1 + 8) = some (rdlength, p1 + 10) ∧
      decodeFields id buf rdlength (decodeLayoutOf rr.rtype) (p1 + 10) = .ok (rr.fields, e) ∧
      e = p1 + 10 + rdlength := by
  unfold decodeRR at h
  split at h
  · cases h
  · rename_i name p1 hn
    split at h
    · cases h
    · rename_i rtype p2 h2
      obtain ⟨_, _, rfl⟩ := nextU16_some h2
      split at h
      · cases h
      · rename_i rclass p3 h3
        obtain ⟨_, _, rfl⟩ := nextU16_some h3
        split at h
        · cases h
        · rename_i ttl p4 h4
          obtain ⟨_, rfl⟩ := nextU32_some h4
          split at h
          · cases h
          · rename_i rdlength p5 h5
            obtain ⟨_, _, rfl⟩ := nextU16_some h5
            split at h
            · cases h
            · rename_i fields stop hf
              split at h
              · rename_i hstop
                cases h
                exact ⟨p1, rdlength, hn, h2, h3, h4, h5, hf, hstop⟩
              · cases h

theorem decodeRR_bounds {id : Nat} {buf : List UInt8} {pos : Nat} {rr : RR} {e : Nat}
    (h : decodeRR id buf pos = .ok (rr, e)) : pos < e ∧ e ≤ buf.length := by
  obtain ⟨p1, rdlength, hn, _, _, _, h5, hf, he⟩ := decodeRR_ok h
  have h1 := decodeName_bounds hn
  obtain ⟨hlt, _, _⟩ := nextU16_some h5
  have h2 := (decodeFields_ok _ hf).2.1 (by omega)
  omega

theorem decodeQuestion_ok {id : Nat} {buf : List UInt8} {pos : Nat} {q : Question} {e : Nat}
    (h : decodeQuestion id buf pos = .ok (q, e)) :
    ∃ p1, decodeName id buf pos = .ok (q.name, p1) ∧
      nextU16 buf p1 = some (q.qtype, p1 + 2) ∧
      nextU16 buf (p1 + 2) = some (q.qclass, p1 + 4) ∧ e = p1 + 4 := by
  unfold decodeQuestion at h
  split at h
  · cases h
  · rename_i name p1 hn
    split at h
    · cases h
    · rename_i qtype p2 h2
      obtain ⟨_, _, rfl⟩ := nextU16_some h2
      split at h
      · cases h
      · rename_i qclass p3 h3
        obtain ⟨_, _, rfl⟩ := nextU16_some h3
        cases h
        exact ⟨p1, hn, h2, h3, rfl⟩

theorem decodeQuestion_bounds {id : Nat} {buf : List UInt8} {pos : Nat} {q : Question} {e : Nat}
    (h : decodeQuestion id buf pos = .ok (q, e)) : pos < e ∧ e ≤ buf.length := by
  obtain ⟨p1, hn, _, h3, rfl⟩ := decodeQuestion_ok h
  have h1 := decodeName_bounds hn
  obtain ⟨hlt, _, _⟩ := nextU16_some h3
  omega

theorem decodeMany_length {α : Type} {dec : Nat → Except DErr (α × Nat)} (k : Nat) :
    ∀ {pos : Nat} {xs : List α} {e : Nat}, decodeMany dec k pos = .ok (xs, e) → xs.length = k := by
  induction k with
  | zero => intro pos xs e h; cases h; rfl
  | succ k ih =>
    intro pos xs e h
    unfold decodeMany at h
    split at h
    · cases h
    · split at h
      · cases h
      · rename_i hrec; cases h; simp [ih hrec]

/-- If each item decoder advances inside the buffer, so does the whole section, and every item of
    the result was produced by the item decoder. -/
theorem decodeMany_bounds {α : Type} {dec : Nat → Except DErr (α × Nat)} {N : Nat}
    (hdec : ∀ p x p', dec p = .ok (x, p') → p < p' ∧ p' ≤ N) (k : Nat) :
    ∀ {pos : Nat} {xs : List α} {e : Nat}, decodeMany dec k pos = .ok (xs, e) →
      pos + k ≤ e ∧ (pos ≤ N → e ≤ N) := by
  induction k with
  | zero => intro pos xs e h; cases h; exact ⟨Nat.le_refl _, fun hh => hh⟩
  | succ k ih =>
    intro pos xs e h
    unfold decodeMany at h
    split at h
    · cases h
    · rename_i x pos' hd
      split at h
      · cases h
      · rename_i hrec
        cases h
        have h1 := hdec _ _ _ hd
        have h2 := ih hrec
        exact ⟨by omega, fun _ => h2.2 h1.2⟩

theorem decodeMany_mem {α : Type} {dec : Nat → Except DErr (α × Nat)} (k : Nat) :
    ∀ {pos : Nat} {xs : List α} {e : Nat}, decodeMany dec k pos = .ok (xs, e) →
      ∀ x ∈ xs, ∃ p p', dec p = .ok (x, p') := by
  induction k with
  | zero => intro pos xs e h; cases h; intro x hx; cases hx
  | succ k ih =>
    intro pos xs e h
    unfold decodeMany at h
    split at h
    · cases h
    · rename_i x pos' hd
      split at h
      · cases h
      · rename_i hrec
        cases h
        intro y hy
        rcases List.mem_cons.mp hy with rfl | hy
        · exact ⟨_, _, hd⟩
        · exact ih hrec y hy



/-- Inversion of a successful `decodeMessage`: the 12-octet header is ID, two flag octets and the
    four big-endian counts; the four sections follow back to back with exactly those counts. -/
theorem decodeMessage_ok {buf : List UInt8} {m : Message} (h : decodeMessage buf = .ok m) :
    ∃ id f1 f2 qd an ns ar p8 p9 p10 p11,
      nextU16 buf 0 = some (id, 2) ∧ nextU8 buf 2 = some (f1, 3) ∧ nextU8 buf 3 = some (f2, 4) ∧
      nextU16 buf 4 = some (qd, 6) ∧ nextU16 buf 6 = some (an, 8) ∧
      nextU16 buf 8 = some (ns, 10) ∧ nextU16 buf 10 = some (ar, 12) ∧
      m.header = decodeFlags id f1 f2 ∧
      decodeMany (decodeQuestion id buf) qd 12 = .ok (m.questions, p8) ∧
      decodeMany (decodeRR id buf) an p8 = .ok (m.answers, p9) ∧
      decodeMany (decodeRR id buf) ns p9 = .ok (m.authority, p10) ∧
      decodeMany (decodeRR id buf) ar p10 = .ok (m.additional, p11) := by
  unfold decodeMessage at h
  split at h
  · cases h
  rename_i id p1 h1
  obtain ⟨_, _, rfl⟩ := nextU16_some h1
  split at h
  · cases h
  rename_i f1 p2 h2
  obtain ⟨_, _, rfl⟩ := nextU8_some h2
  split at h
  · cases h
  rename_i f2 p3 h3
  obtain ⟨_, _, rfl⟩ := nextU8_some h3
  simp only at h
  split at h
  · cases h
  rename_i qd p4 h4
  obtain ⟨_, _, rfl⟩ := nextU16_some h4
  split at h
  · cases h
  rename_i an p5 h5
  obtain ⟨_, _, rfl⟩ := nextU16_some h5
  split at h
  · cases h
  rename_i ns p6 h6
  obtain ⟨_, _, rfl⟩ := nextU16_some h6
  split at h
  · cases h
  rename_i ar p7 h7
  obtain ⟨_, _, rfl⟩ := nextU16_some h7
  split at h
  · cases h
  rename_i qs p8 h8
  split at h
  · cases h
  rename_i as p9 h9
  split at h
  · cases h
  rename_i au p10 h10
  split at h
  · cases h
  rename_i ad p11 h11
  cases h
  exact ⟨id, f1, f2, qd, an, ns, ar, p8, p9, p10, p11, h1, h2, h3, h4, h5, h6, h7, rfl, h8, h9, h10, h11⟩



/-! ## Converses of the inversion lemmas -/

theorem decodeQuestion_of {id : Nat} {buf : List UInt8} {pos : Nat} {q : Question} {e p1 : Nat}
    (hn : decodeName id buf pos = .ok (q.name, p1))
    (h2 : nextU16 buf p1 = some (q.qtype, p1 + 2))
    (h3 : nextU16 buf (p1 + 2) = some (q.qclass, p1 + 4)) (he : e = p1 + 4) :
    decodeQuestion id buf pos = .ok (q, e) := by
  unfold decodeQuestion
  rw [hn]; simp only
  rw [h2]; simp only
  rw [h3, he]

theorem decodeRR_of {id : Nat} {buf : List UInt8} {pos : Nat} {rr : RR} {e p1 rdlength : Nat}
    (hn : decodeName id buf pos = .ok (rr.name, p1))
    (h2 : nextU16 buf p1 = some (rr.rtype, p1 + 2))
    (h3 : nextU16 buf (p1 + 2) = some (rr.rclass, p1 + 4))
    (h4 : nextU32 buf (p1 + 4) = some (rr.ttl, p1 + 8))
    (h5 : nextU16 buf (p1 + 8) = some (rdlength, p1 + 10))
    (hf : decodeFields id buf rdlength (decodeLayoutOf rr.rtype) (p1 + 10) = .ok (rr.fields, e))
    (he : e = p1 + 10 + rdlength) :
    decodeRR id buf pos = .ok (rr, e) := by
  unfold decodeRR
  rw [hn]; simp only
  rw [h2]; simp only
  rw [h3]; simp only
  rw [h4]; simp only
  rw [h5]; simp only
  rw [hf]; simp only
  rw [if_pos he]

theorem decodeMessage_of {buf : List UInt8} {m : Message}
    {id f1 f2 qd an ns ar p8 p9 p10 p11 : Nat}
    (h1 : nextU16 buf 0 = some (id, 2)) (h2 : nextU8 buf 2 = some (f1, 3))
    (h3 : nextU8 buf 3 = some (f2, 4)) (h4 : nextU16 buf 4 = some (qd, 6))
    (h5 : nextU16 buf 6 = some (an, 8)) (h6 : nextU16 buf 8 = some (ns, 10))
    (h7 : nextU16 buf 10 = some (ar, 12)) (hh : m.header = decodeFlags id f1 f2)
    (h8 : decodeMany (decodeQuestion id buf) qd 12 = .ok (m.questions, p8))
    (h9 : decodeMany (decodeRR id buf) an p8 = .ok (m.answers, p9))
    (h10 : decodeMany (decodeRR id buf) ns p9 = .ok (m.authority, p10))
    (h11 : decodeMany (decodeRR id buf) ar p10 = .ok (m.additional, p11)) :
    decodeMessage buf = .ok m := by
  unfold decodeMessage
  rw [h1]; simp only
  rw [h2]; simp only
  rw [h3]; simp only
  rw [h4]; simp only
  rw [h5]; simp only
  rw [h6]; simp only
  rw [h7]; simp only
  rw [h8]; simp only
  rw [h9]; simp only
  rw [h10]; simp only
  rw [h11]; simp only
  rw [← hh]


end Resolved
