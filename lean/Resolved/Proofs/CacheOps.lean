/-
  C15: lookups, `remove_expired_step` and `remove_least_recently_used` keep the invariant;
  closed forms of the two steps under the invariant.
-/
import Resolved.Proofs.CacheUpsert

namespace Resolved

open PCache

/-! ## Lookups -/

theorem PInv.touch {p : Partition} (h : PInv p) (x : Nat) : PInv { p with lastRead := x } :=
  ⟨h.keysNodup, h.size_eq, h.nextExpiry_min, h.noDup, h.rtype_eq⟩

theorem AL.set_self {κ α : Type} [DecidableEq κ] {l : List (κ × α)} {k : κ} {v : α}
    (h : AL.get l k = some v) : AL.set l k v = l := by
  obtain ⟨a, b, rfl, hk⟩ := AL.get_split h
  rw [AL.set_split hk]

theorem Inv.touch {c : PCache} (h : Inv c) {k : Name} {p : Partition} (hp : AL.get c.partitions k = some p)
    (now : Nat) :
    Inv { c with partitions := AL.set c.partitions k { p with lastRead := now }
                 accessPriority := AL.change c.accessPriority k now } :=
  h.replace hp ((h.pinv_of_get hp).touch now) rfl (QUpd.change h.aqNodup (h.aq_get_of hp) now)
    (show QUpd _ _ k p.nextExpiry from QUpd.same h.eqNodup (h.eq_get_of hp)) rfl

theorem Inv.getPartitionTouch {c : PCache} (h : Inv c) (k : Name) (now : Nat) :
    Inv (c.getPartitionTouch k now).1 := by
  unfold PCache.getPartitionTouch
  simp only [getPartition_eq, setPartition_eq, PQ_change_eq]
  cases hp : AL.get c.partitions k with
  | none => exact h
  | some p => exact h.touch hp now

theorem Inv.getTouch {c : PCache} (h : Inv c) (k : Name) (rk now : Nat) :
    Inv (c.getTouch k rk now).1 := by
  unfold PCache.getTouch
  simp only [getPartition_eq, setPartition_eq, PQ_change_eq, getTuples_eq]
  cases hp : AL.get c.partitions k with
  | none => exact h
  | some p =>
    simp only
    cases hg : AL.get p.records rk with
    | none => exact h
    | some ts => exact h.touch hp now

/-! ## `retainLive` -/

/-- the record map with expired tuples dropped (keys stay, lists may become empty) -/
def liveRecs (rs : List (Nat × Tuples)) (now : Nat) : List (Nat × Tuples) :=
  rs.map (fun r => (r.1, r.2.filter (fun t => t.2 > now)))

/-- number of tuples with `expiry ≤ now` -/
def expiredIn (rs : List (Nat × Tuples)) (now : Nat) : Nat :=
  (tuplesOf rs).countP (fun t => decide (t.2 ≤ now))

@[simp] theorem liveRecs_nil (now : Nat) : liveRecs [] now = [] := rfl
@[simp] theorem liveRecs_cons (r : Nat × Tuples) (rs : List (Nat × Tuples)) (now : Nat) :
    liveRecs (r :: rs) now = (r.1, r.2.filter (fun t => t.2 > now)) :: liveRecs rs now := rfl

theorem keys_liveRecs (rs : List (Nat × Tuples)) (now : Nat) : AL.keys (liveRecs rs now) = AL.keys rs := by
  simp [liveRecs, AL.keys, Function.comp_def]

theorem tuplesOf_liveRecs (rs : List (Nat × Tuples)) (now : Nat) :
    tuplesOf (liveRecs rs now) = (tuplesOf rs).filter (fun t => t.2 > now) := by
  induction rs with
  | nil => rfl
  | cons r rs ih => simp [ih]

theorem filter_add_countP (ts : Tuples) (now : Nat) :
    (ts.filter (fun t => t.2 > now)).length + ts.countP (fun t => decide (t.2 ≤ now)) = ts.length := by
  induction ts with
  | nil => rfl
  | cons t ts ih =>
    by_cases h : t.2 > now
    · have h' : ¬ t.2 ≤ now := by omega
      rw [List.filter_cons_of_pos (by simpa using h), List.countP_cons_of_neg (by simpa using h')]
      simp only [List.length_cons]; omega
    · have h' : t.2 ≤ now := by omega
      rw [List.filter_cons_of_neg (by simpa using h), List.countP_cons_of_pos (by simpa using h')]
      simp only [List.length_cons]; omega

theorem length_sub_filter (ts : Tuples) (now : Nat) :
    ts.length - (ts.filter (fun t => t.2 > now)).length = ts.countP (fun t => decide (t.2 ≤ now)) ∧
      (ts.filter (fun t => t.2 > now)).length ≤ ts.length := by
  have := filter_add_countP ts now
  omega

theorem expiredIn_add_live (rs : List (Nat × Tuples)) (now : Nat) :
    expiredIn rs now + recCount (liveRecs rs now) = recCount rs := by
  induction rs with
  | nil => rfl
  | cons r rs ih =>
    have := length_sub_filter r.2 now
    simp only [expiredIn, tuplesOf_cons, List.countP_append, liveRecs_cons, recCount_cons] at ih ⊢
    omega

/-- `o` is the minimum expiry of `ts`, or `none` for the empty list -/
def OptMin (o : Option Nat) (ts : Tuples) : Prop :=
  match o with
  | none => ts = []
  | some n => IsMinExpiry n ts

theorem foldOptMin_some (ts : Tuples) (x : Nat) :
    ts.foldl (fun (m : Option Nat) t =>
      match m with
      | none => some t.2
      | some x => if t.2 < x then some t.2 else some x) (some x) =
    some (ts.foldl (fun m t => if t.2 < m then t.2 else m) x) := by
  induction ts generalizing x with
  | nil => rfl
  | cons t ts ih =>
    simp only [List.foldl_cons]
    split <;> exact ih _

theorem foldOptMin_optMin (ts : Tuples) :
    OptMin (ts.foldl (fun (m : Option Nat) t =>
      match m with
      | none => some t.2
      | some x => if t.2 < x then some t.2 else some x) none) ts := by
  cases ts with
  | nil => rfl
  | cons t ts =>
    simp only [List.foldl_cons, foldOptMin_some, OptMin]
    refine ⟨?_, ?_⟩
    · rcases foldMin_mem ts t.2 with h | ⟨t', ht', he⟩
      · exact ⟨t, by simp, h.symm⟩
      · exact ⟨t', List.mem_cons_of_mem _ ht', he⟩
    · intro t' ht'
      rcases List.mem_cons.mp ht' with rfl | h
      · exact foldMin_le_init _ _
      · exact foldMin_le_mem _ _ _ h

/-- how `retainLive` combines two optional minima -/
def combOpt : Option Nat → Option Nat → Option Nat
  | none, x => x
  | some a, none => some a
  | some a, some b => some (min a b)

theorem OptMin.append {a b : Option Nat} {A B : Tuples} (ha : OptMin a A) (hb : OptMin b B) :
    OptMin (combOpt a b) (A ++ B) := by
  cases a with
  | none => simp only [OptMin] at ha; subst ha; simpa [combOpt] using hb
  | some x =>
    cases b with
    | none => simp only [OptMin] at hb; subst hb; simpa [combOpt] using ha
    | some y =>
      simp only [OptMin, combOpt] at ha hb ⊢
      obtain ⟨⟨t, ht, he⟩, hle⟩ := ha
      obtain ⟨⟨t', ht', he'⟩, hle'⟩ := hb
      refine ⟨?_, ?_⟩
      · by_cases hxy : x ≤ y
        · exact ⟨t, List.mem_append_left _ ht, by rw [he, Nat.min_eq_left hxy]⟩
        · exact ⟨t', List.mem_append_right _ ht', by rw [he', Nat.min_eq_right (by omega)]⟩
      · intro u hu
        rcases List.mem_append.mp hu with hu | hu
        · have := hle u hu; exact Nat.le_trans (Nat.min_le_left _ _) this
        · have := hle' u hu; exact Nat.le_trans (Nat.min_le_right _ _) this

theorem retainLive_spec (rs : List (Nat × Tuples)) (now : Nat) :
    (retainLive rs now).1 = liveRecs rs now ∧ (retainLive rs now).2.1 = expiredIn rs now ∧
      OptMin (retainLive rs now).2.2 (tuplesOf (liveRecs rs now)) := by
  induction rs with
  | nil => exact ⟨rfl, rfl, rfl⟩
  | cons r rs ih =>
    obtain ⟨k, ts⟩ := r
    obtain ⟨ih1, ih2, ih3⟩ := ih
    simp only [retainLive]
    refine ⟨?_, ?_, ?_⟩
    · simp [ih1]
    · simp only [ih2, expiredIn, tuplesOf_cons, List.countP_append]
      rw [(length_sub_filter ts now).1]
    · simp only [liveRecs_cons, tuplesOf_cons]
      have h1 := foldOptMin_optMin (ts.filter (fun t => t.2 > now))
      revert h1
      generalize List.foldl _ none (ts.filter (fun t => t.2 > now)) = a
      intro h1
      have := OptMin.append h1 ih3
      cases a <;> cases hb : (retainLive rs now).2.2 <;> simpa [combOpt, hb] using this

theorem PInv.retain {p : Partition} (h : PInv p) (now : Nat) {n : Nat}
    (hn : IsMinExpiry n (tuplesOf (liveRecs p.records now))) :
    PInv { p with records := liveRecs p.records now, size := p.size - expiredIn p.records now, nextExpiry := n } := by
  refine ⟨?_, ?_, hn, ?_, ?_⟩
  · simp only; rw [keys_liveRecs]; exact h.keysNodup
  · have := expiredIn_add_live p.records now
    have := h.size_eq
    simp only; omega
  · intro r hr
    simp only [liveRecs, List.mem_map] at hr
    obtain ⟨r0, hr0, rfl⟩ := hr
    exact ((List.filter_sublist (l := r0.2)).map _).nodup (h.noDup r0 hr0)
  · intro r hr t ht
    simp only [liveRecs, List.mem_map] at hr
    obtain ⟨r0, hr0, rfl⟩ := hr
    exact h.rtype_eq r0 hr0 t (List.mem_filter.mp ht).1

/-! ## `remove_expired_step` -/

theorem PQ.pop_eq (q : PQ) :
    PQ.pop q = (PQ.minEntry q).map (fun kp => (kp, AL.erase q kp.1)) := by
  unfold PQ.pop
  cases PQ.minEntry q with
  | none => rfl
  | some kp => obtain ⟨k, p⟩ := kp; rfl

theorem removeExpiredStep_empty {c : PCache} (now : Nat) (h : c.expiryPriority = []) :
    c.removeExpiredStep now = (c, 0) := by
  unfold PCache.removeExpiredStep
  rw [PQ.pop_eq, PQ.minEntry_eq_none.mpr h]; rfl

theorem removeExpiredStep_live {c : PCache} {now : Nat} {k : Name} {e : Nat}
    (hm : PQ.minEntry c.expiryPriority = some (k, e)) (he : e > now) :
    c.removeExpiredStep now =
      ({ c with expiryPriority := AL.set (AL.erase c.expiryPriority k) k e }, 0) := by
  unfold PCache.removeExpiredStep
  rw [PQ.pop_eq, hm]
  simp [he]

theorem removeExpiredStep_some {c : PCache} {now : Nat} {k : Name} {e : Nat} {p : Partition} {n : Nat}
    (hm : PQ.minEntry c.expiryPriority = some (k, e)) (he : e ≤ now)
    (hp : AL.get c.partitions k = some p) (hn : (retainLive p.records now).2.2 = some n) :
    c.removeExpiredStep now =
      ({ c with partitions := AL.set c.partitions k
                  { p with records := liveRecs p.records now, size := p.size - expiredIn p.records now,
                           nextExpiry := n }
                expiryPriority := AL.set (AL.erase c.expiryPriority k) k n
                currentSize := c.currentSize - expiredIn p.records now }, expiredIn p.records now) := by
  unfold PCache.removeExpiredStep
  rw [PQ.pop_eq, hm]
  have he' : ¬ e > now := by omega
  obtain ⟨h1, h2, _⟩ := retainLive_spec p.records now
  simp only [Option.map_some, he', ↓reduceIte, getPartition_eq, hp, hn, setPartition_eq, PQ_push_eq, h1, h2]

theorem removeExpiredStep_none {c : PCache} {now : Nat} {k : Name} {e : Nat} {p : Partition}
    (hm : PQ.minEntry c.expiryPriority = some (k, e)) (he : e ≤ now)
    (hp : AL.get c.partitions k = some p) (hn : (retainLive p.records now).2.2 = none) :
    c.removeExpiredStep now =
      ({ c with partitions := AL.erase c.partitions k
                accessPriority := AL.erase c.accessPriority k
                expiryPriority := AL.erase c.expiryPriority k
                currentSize := c.currentSize - expiredIn p.records now }, expiredIn p.records now) := by
  unfold PCache.removeExpiredStep
  rw [PQ.pop_eq, hm]
  have he' : ¬ e > now := by omega
  obtain ⟨h1, h2, _⟩ := retainLive_spec p.records now
  simp only [Option.map_some, he', ↓reduceIte, getPartition_eq, hp, hn, removePartition_eq, PQ_remove_eq, h2]

/-- under `Inv`, the head of the expiry queue names a partition and carries its `next_expiry` -/
theorem Inv.minEntry_eq {c : PCache} (h : Inv c) {k : Name} {e : Nat}
    (hm : PQ.minEntry c.expiryPriority = some (k, e)) :
    ∃ p, AL.get c.partitions k = some p ∧ p.nextExpiry = e :=
  h.get_of_eq (AL.get_of_mem h.eqNodup (PQ.minEntry_mem hm))

theorem Inv.minEntry_aq {c : PCache} (h : Inv c) {k : Name} {e : Nat}
    (hm : PQ.minEntry c.accessPriority = some (k, e)) :
    ∃ p, AL.get c.partitions k = some p ∧ p.lastRead = e :=
  h.get_of_aq (AL.get_of_mem h.aqNodup (PQ.minEntry_mem hm))

theorem Inv.removeExpiredStep {c : PCache} (h : Inv c) (now : Nat) : Inv (c.removeExpiredStep now).1 := by
  cases hm : PQ.minEntry c.expiryPriority with
  | none => rw [removeExpiredStep_empty now (PQ.minEntry_eq_none.mp hm)]; exact h
  | some ke =>
    obtain ⟨k, e⟩ := ke
    obtain ⟨p, hp, hpe⟩ := h.minEntry_eq hm
    have hpi := h.pinv_of_get hp
    by_cases he : e > now
    · rw [removeExpiredStep_live hm he]
      refine h.replace hp hpi (AL.set_self hp).symm (QUpd.same h.aqNodup (h.aq_get_of hp)) ?_ rfl
      rw [hpe]; exact QUpd.erase_set h.eqNodup k e
    · have he' : e ≤ now := by omega
      obtain ⟨_, _, h3⟩ := retainLive_spec p.records now
      have hcnt := expiredIn_add_live p.records now
      have hsz := hpi.size_eq
      have hle := h.size_le hp
      cases hn : (retainLive p.records now).2.2 with
      | some n =>
        rw [removeExpiredStep_some hm he' hp hn]
        rw [hn] at h3
        refine h.replace hp (hpi.retain now h3) rfl
          (show QUpd _ _ k p.lastRead from QUpd.same h.aqNodup (h.aq_get_of hp))
          (QUpd.erase_set h.eqNodup k n) ?_
        simp only; omega
      | none =>
        rw [removeExpiredStep_none hm he' hp hn]
        rw [hn] at h3
        simp only [OptMin] at h3
        have h0 : recCount (liveRecs p.records now) = 0 := by rw [← length_tuplesOf, h3]; rfl
        refine h.remove hp rfl rfl rfl ?_
        simp only; omega

/-! ## `remove_least_recently_used` -/

theorem removeLRU_empty {c : PCache} (h : c.accessPriority = []) : c.removeLRU = (c, 0) := by
  unfold PCache.removeLRU
  rw [PQ.pop_eq, PQ.minEntry_eq_none.mpr h]; rfl

theorem removeLRU_some {c : PCache} {k : Name} {x : Nat} {p : Partition}
    (hm : PQ.minEntry c.accessPriority = some (k, x)) (hp : AL.get c.partitions k = some p) :
    c.removeLRU =
      ({ c with partitions := AL.erase c.partitions k
                accessPriority := AL.erase c.accessPriority k
                expiryPriority := AL.erase c.expiryPriority k
                currentSize := c.currentSize - p.size }, p.size) := by
  unfold PCache.removeLRU
  rw [PQ.pop_eq, hm]
  simp only [Option.map_some, getPartition_eq, hp, removePartition_eq, PQ_remove_eq]

theorem Inv.removeLRU {c : PCache} (h : Inv c) : Inv c.removeLRU.1 := by
  cases hm : PQ.minEntry c.accessPriority with
  | none => rw [removeLRU_empty (PQ.minEntry_eq_none.mp hm)]; exact h
  | some kx =>
    obtain ⟨k, x⟩ := kx
    obtain ⟨p, hp, _⟩ := h.minEntry_aq hm
    rw [removeLRU_some hm hp]
    have := h.size_le hp
    exact h.remove hp rfl rfl rfl (by simp only; omega)

end Resolved
