/-
  C05: what is stored — `storedExpiry`, the tuples under a (name, type) key, how `upsert` and the
  lookups act on them, and what lookups return.
-/
import Resolved.Proofs.CacheRun

namespace Resolved

open PCache

/-! ## Stored tuples and stored expiry -/

/-- the expiry stored for value `v` in a tuple list (first match) -/
def lookupTuple (ts : Tuples) (v : CRec) : Option Nat :=
  (ts.find? (fun t => decide (t.1 = v))).map (·.2)

/-- the expiry the cache stores for `(name, rtype, fields)`, if any -/
def storedExpiry (c : PCache) (name : Name) (rtype : Nat) (fields : List FieldVal) : Option Nat :=
  match PCache.getPartition c.partitions name with
  | none => none
  | some p =>
    match PCache.getTuples p.records rtype with
    | none => none
    | some ts => lookupTuple ts ⟨rtype, fields⟩

/-- the record map of partition `k` (empty when there is none) -/
def recsAt (c : PCache) (k : Name) : List (Nat × Tuples) :=
  ((AL.get c.partitions k).map (·.records)).getD []

/-- the tuple list under `(k, rk)` (empty when there is none) -/
def tuplesAt (c : PCache) (k : Name) (rk : Nat) : Tuples := (AL.get (recsAt c k) rk).getD []

theorem storedExpiry_eq (c : PCache) (name : Name) (rtype : Nat) (fields : List FieldVal) :
    storedExpiry c name rtype fields = lookupTuple (tuplesAt c name rtype) ⟨rtype, fields⟩ := by
  unfold storedExpiry tuplesAt recsAt
  simp only [getPartition_eq, getTuples_eq]
  cases AL.get c.partitions name with
  | none => rfl
  | some p =>
    simp only [Option.map_some, Option.getD_some]
    cases AL.get p.records rtype <;> rfl

theorem lookupTuple_some_mem {ts : Tuples} {v : CRec} {e : Nat} (h : lookupTuple ts v = some e) :
    (v, e) ∈ ts := by
  unfold lookupTuple at h
  simp only [Option.map_eq_some_iff] at h
  obtain ⟨t, ht, rfl⟩ := h
  have h1 := List.mem_of_find?_eq_some ht
  have h2 := List.find?_some ht
  simp only [decide_eq_true_eq] at h2
  subst h2; exact h1

theorem lookupTuple_of_mem {ts : Tuples} {v : CRec} {e : Nat} (hnd : (ts.map (·.1)).Nodup)
    (h : (v, e) ∈ ts) : lookupTuple ts v = some e := by
  induction ts with
  | nil => simp at h
  | cons t ts ih =>
    simp only [List.map_cons, List.nodup_cons] at hnd
    unfold lookupTuple
    rcases List.mem_cons.mp h with rfl | h'
    · simp
    · have hne : t.1 ≠ v := by
        intro e'; subst e'
        exact hnd.1 (List.mem_map.mpr ⟨_, h', rfl⟩)
      rw [List.find?_cons_of_neg (by simpa using hne)]
      exact ih hnd.2 h'

theorem lookupTuple_none_iff {ts : Tuples} {v : CRec} : lookupTuple ts v = none ↔ v ∉ ts.map (·.1) := by
  unfold lookupTuple
  simp [List.find?_eq_none]
  constructor
  · intro h e he; exact h _ _ he rfl
  · intro h a b hab e; subst e; exact h b hab

/-- with distinct values, the lookup only depends on the set of tuples -/
theorem lookupTuple_congr {ts ts' : Tuples} {v : CRec} (hnd : (ts.map (·.1)).Nodup)
    (hnd' : (ts'.map (·.1)).Nodup) (h : ∀ e, (v, e) ∈ ts ↔ (v, e) ∈ ts') :
    lookupTuple ts v = lookupTuple ts' v := by
  cases h1 : lookupTuple ts v with
  | some e => exact (lookupTuple_of_mem hnd' ((h e).mp (lookupTuple_some_mem h1))).symm
  | none =>
    cases h2 : lookupTuple ts' v with
    | none => rfl
    | some e =>
      have := lookupTuple_of_mem hnd ((h e).mpr (lookupTuple_some_mem h2))
      rw [h1] at this; cases this

theorem tuplesAt_of_get {c : PCache} {k : Name} {p : Partition} (hp : AL.get c.partitions k = some p)
    (rk : Nat) : tuplesAt c k rk = (AL.get p.records rk).getD [] := by
  simp [tuplesAt, recsAt, hp]

theorem tuplesAt_of_none {c : PCache} {k : Name} (hp : AL.get c.partitions k = none)
    (rk : Nat) : tuplesAt c k rk = [] := by
  simp [tuplesAt, recsAt, hp]

theorem recsAt_of_get {c : PCache} {k : Name} {p : Partition} (hp : AL.get c.partitions k = some p) :
    recsAt c k = p.records := by
  simp [recsAt, hp]

theorem Inv.recsAt_nodup {c : PCache} (h : Inv c) (k : Name) : (AL.keys (recsAt c k)).Nodup := by
  cases hp : AL.get c.partitions k with
  | none => simp [recsAt, hp]
  | some p => rw [recsAt_of_get hp]; exact (h.pinv_of_get hp).keysNodup

theorem Inv.tuplesAt_mem_recs {c : PCache} {k : Name} {rk : Nat} {t : CRec × Nat}
    (ht : t ∈ tuplesAt c k rk) : (rk, tuplesAt c k rk) ∈ recsAt c k := by
  unfold tuplesAt at ht ⊢
  cases hg : AL.get (recsAt c k) rk with
  | none => rw [hg] at ht; simp at ht
  | some ts => exact AL.mem_of_get hg

theorem Inv.tuplesAt_nodup {c : PCache} (h : Inv c) (k : Name) (rk : Nat) :
    ((tuplesAt c k rk).map (·.1)).Nodup := by
  cases hp : AL.get c.partitions k with
  | none => rw [tuplesAt_of_none hp]; simp
  | some p =>
    rw [tuplesAt_of_get hp]
    cases hg : AL.get p.records rk with
    | none => simp
    | some ts => exact (h.pinv_of_get hp).noDup _ (AL.mem_of_get hg)

theorem Inv.tuplesAt_rtype {c : PCache} (h : Inv c) (k : Name) (rk : Nat) :
    ∀ t ∈ tuplesAt c k rk, t.1.rtype = rk := by
  cases hp : AL.get c.partitions k with
  | none => rw [tuplesAt_of_none hp]; simp
  | some p =>
    rw [tuplesAt_of_get hp]
    cases hg : AL.get p.records rk with
    | none => simp
    | some ts => exact (h.pinv_of_get hp).rtype_eq _ (AL.mem_of_get hg)

/-! ## `upsert` on the stored tuples -/

/-- the shape of `upsert`'s result: partition `k` is replaced (or created) and in it only the
    list under `rk` changes; that list loses the old tuple of `v` (if any) and gains `(v, now+ttl)`. -/
theorem upsert_shape {c : PCache} (h : Inv c) (k : Name) {rk : Nat} {v : CRec} (ttl now : Nat) :
    ∃ p' ts', (c.upsert k rk v ttl now).partitions = AL.set c.partitions k p' ∧
      p'.records = AL.set (recsAt c k) rk ts' ∧
      ∀ w e, (w, e) ∈ ts' ↔ (w = v ∧ e = now + ttl) ∨ (w ≠ v ∧ (w, e) ∈ tuplesAt c k rk) := by
  cases hp : AL.get c.partitions k with
  | none =>
    rw [upsert_new rk v ttl now hp]
    refine ⟨_, [(v, now + ttl)], rfl, ?_, ?_⟩
    · simp [recsAt, hp, AL.set]
    · intro w e; simp [tuplesAt_of_none hp]
  | some p =>
    have hpi := h.pinv_of_get hp
    cases hg : AL.get p.records rk with
    | none =>
      rw [upsert_fresh_none rk v ttl now hp hg]
      refine ⟨_, [(v, now + ttl)], rfl, ?_, ?_⟩
      · simp [recsAt_of_get hp]
      · intro w e; simp [tuplesAt_of_get hp, hg]
    | some ts =>
      cases hd : findDup ts v with
      | none =>
        rw [upsert_fresh_some rk v ttl now hp hg hd]
        refine ⟨_, ts ++ [(v, now + ttl)], rfl, ?_, ?_⟩
        · simp [recsAt_of_get hp]
        · intro w e
          have hv := findDup_none.mp hd
          simp only [tuplesAt_of_get hp, hg, Option.getD_some, List.mem_append, List.mem_singleton,
            Prod.mk.injEq]
          constructor
          · rintro (h1 | h1)
            · refine Or.inr ⟨?_, h1⟩
              intro e'; subst e'
              exact hv (List.mem_map.mpr ⟨_, h1, rfl⟩)
            · exact Or.inl h1
          · rintro (h1 | h1)
            · exact Or.inr h1
            · exact Or.inl h1.2
      | some id =>
        obtain ⟨i, d⟩ := id
        rw [upsert_dup rk v ttl now hp hg hd]
        refine ⟨_, swapRemove ts i ++ [(v, now + ttl)], rfl, ?_, ?_⟩
        · simp [recsAt_of_get hp]
        · intro w e
          have hperm := swapRemove_perm (findDup_some hd)
          have hnd : (((v, d) :: swapRemove ts i).map (·.1)).Nodup :=
            (hperm.map _).nodup_iff.mp (hpi.noDup _ (AL.mem_of_get hg))
          simp only [List.map_cons, List.nodup_cons] at hnd
          simp only [tuplesAt_of_get hp, hg, Option.getD_some, List.mem_append,
            Prod.mk.injEq, hperm.mem_iff, List.mem_cons, List.not_mem_nil, or_false]
          constructor
          · rintro (h1 | h1)
            · refine Or.inr ⟨?_, Or.inr h1⟩
              intro e'; subst e'
              exact hnd.1 (List.mem_map.mpr ⟨_, h1, rfl⟩)
            · exact Or.inl h1
          · rintro (h1 | ⟨h1, h2 | h2⟩)
            · exact Or.inr h1
            · exact absurd h2.1 h1
            · exact Or.inl h2

theorem tuplesAt_upsert_other {c : PCache} (h : Inv c) (k : Name) {rk : Nat} {v : CRec} (ttl now : Nat)
    (k' : Name) (rk' : Nat) (hne : k' ≠ k ∨ rk' ≠ rk) :
    tuplesAt (c.upsert k rk v ttl now) k' rk' = tuplesAt c k' rk' := by
  obtain ⟨p', ts', hps, hrecs, _⟩ := upsert_shape h k (rk := rk) (v := v) ttl now
  unfold tuplesAt recsAt
  rw [hps, AL.get_set]
  by_cases hk : k' = k
  · subst hk
    have hr : rk' ≠ rk := by rcases hne with h1 | h1; exact absurd rfl h1; exact h1
    simp only [↓reduceIte, Option.map_some, Option.getD_some, hrecs, AL.get_set, hr]
    rfl
  · simp [hk]

theorem mem_tuplesAt_upsert {c : PCache} (h : Inv c) (k : Name) {rk : Nat} {v : CRec} (ttl now : Nat)
    (w : CRec) (e : Nat) :
    (w, e) ∈ tuplesAt (c.upsert k rk v ttl now) k rk ↔
      (w = v ∧ e = now + ttl) ∨ (w ≠ v ∧ (w, e) ∈ tuplesAt c k rk) := by
  obtain ⟨p', ts', hps, hrecs, hmem⟩ := upsert_shape h k (rk := rk) (v := v) ttl now
  have : tuplesAt (c.upsert k rk v ttl now) k rk = ts' := by
    unfold tuplesAt recsAt
    rw [hps, AL.get_set]
    simp [hrecs, AL.get_set]
  rw [this]; exact hmem w e

/-- `upsert` (re)starts the lifetime of exactly one key. -/
theorem storedExpiry_upsert {c : PCache} (h : Inv c) (k : Name) {rk : Nat} {v : CRec} (ttl now : Nat)
    (hrt : v.rtype = rk) (k' : Name) (rt : Nat) (fs : List FieldVal) :
    storedExpiry (c.upsert k rk v ttl now) k' rt fs =
      if k' = k ∧ (⟨rt, fs⟩ : CRec) = v then some (now + ttl) else storedExpiry c k' rt fs := by
  have h' := h.upsert k ttl now hrt
  rw [storedExpiry_eq, storedExpiry_eq]
  by_cases hkr : k' = k ∧ rt = rk
  · obtain ⟨rfl, rfl⟩ := hkr
    by_cases hv : (⟨rt, fs⟩ : CRec) = v
    · simp only [hv, and_self, ↓reduceIte]
      exact lookupTuple_of_mem (h'.tuplesAt_nodup _ _)
        ((mem_tuplesAt_upsert h k' ttl now v _).mpr (Or.inl ⟨rfl, rfl⟩))
    · simp only [hv, and_false, ↓reduceIte]
      refine lookupTuple_congr (h'.tuplesAt_nodup _ _) (h.tuplesAt_nodup _ _) ?_
      intro e
      rw [mem_tuplesAt_upsert h k' ttl now]
      simp [hv]
  · have hne : k' ≠ k ∨ rt ≠ rk := by
      by_cases hk : k' = k
      · exact Or.inr (fun hr => hkr ⟨hk, hr⟩)
      · exact Or.inl hk
    rw [tuplesAt_upsert_other h k ttl now k' rt hne]
    have : ¬ (k' = k ∧ (⟨rt, fs⟩ : CRec) = v) := by
      rintro ⟨hk, hv⟩
      apply hkr
      refine ⟨hk, ?_⟩
      rw [← hrt, ← hv]
    simp [this]

/-! ## Lookups -/

/-- the record `to_rrs` makes of one tuple -/
def mkRR (name : Name) (now : Nat) (t : CRec × Nat) : RR :=
  { name, rtype := t.1.rtype, fields := t.1.fields, rclass := 1, ttl := min ((t.2 - now) / NANOS) U32_MAX }

theorem toRRs_eq_map (name : Name) (now : Nat) (ts : Tuples) : toRRs name now ts = ts.map (mkRR name now) := rfl

theorem getPartitionTouch_snd (c : PCache) (k : Name) (now : Nat) :
    (c.getPartitionTouch k now).2 = (AL.get c.partitions k).map (·.records) := by
  unfold PCache.getPartitionTouch
  simp only [getPartition_eq]
  cases AL.get c.partitions k <;> rfl

theorem getTouch_snd (c : PCache) (k : Name) (rk now : Nat) :
    (c.getTouch k rk now).2 = (AL.get c.partitions k).bind (fun p => AL.get p.records rk) := by
  unfold PCache.getTouch
  simp only [getPartition_eq, getTuples_eq]
  cases AL.get c.partitions k with
  | none => rfl
  | some p => simp only [Option.bind_some]; cases AL.get p.records rk <;> rfl

/-- a lookup either leaves the state alone or only touches `last_read` of the partition and its
    access-queue priority -/
def Touched (c c' : PCache) (k : Name) (now : Nat) : Prop :=
  c' = c ∨ ∃ p, AL.get c.partitions k = some p ∧
    c' = { c with partitions := AL.set c.partitions k { p with lastRead := now }
                  accessPriority := AL.change c.accessPriority k now }

theorem getPartitionTouch_touched (c : PCache) (k : Name) (now : Nat) :
    Touched c (c.getPartitionTouch k now).1 k now := by
  unfold PCache.getPartitionTouch
  simp only [getPartition_eq, setPartition_eq, PQ_change_eq]
  cases hp : AL.get c.partitions k with
  | none => exact Or.inl rfl
  | some p => exact Or.inr ⟨p, hp, rfl⟩

theorem getTouch_touched (c : PCache) (k : Name) (rk now : Nat) :
    Touched c (c.getTouch k rk now).1 k now := by
  unfold PCache.getTouch
  simp only [getPartition_eq, setPartition_eq, PQ_change_eq, getTuples_eq]
  cases hp : AL.get c.partitions k with
  | none => exact Or.inl rfl
  | some p =>
    simp only
    cases AL.get p.records rk with
    | none => exact Or.inl rfl
    | some ts => exact Or.inr ⟨p, hp, rfl⟩

theorem cacheGetUnchecked_touched (c : PCache) (name : Name) (qtype now : Nat) :
    Touched c (cacheGetUnchecked c name qtype now).1 name now := by
  unfold cacheGetUnchecked
  split
  · have := getPartitionTouch_touched c name now
    split <;> rename_i heq <;> rw [heq] at this <;> exact this
  · exact Or.inl rfl
  · have := getTouch_touched c name qtype now
    split <;> rename_i heq <;> rw [heq] at this <;> exact this

theorem cacheGetUnchecked_snd_wild {c : PCache} {name : Name} {qtype now : Nat}
    (hq : lookupNat Gen.queryTypeFromU16 qtype = some "Wildcard") :
    (cacheGetUnchecked c name qtype now).2 = (recsAt c name).flatMap (fun r => toRRs name now r.2) := by
  unfold cacheGetUnchecked
  simp only [hq]
  have := getPartitionTouch_snd c name now
  unfold recsAt
  split <;> rename_i heq <;> rw [heq] at this <;> simp only at this <;> rw [← this] <;> rfl

theorem cacheGetUnchecked_snd_rec {c : PCache} {name : Name} {qtype now : Nat}
    (hq : lookupNat Gen.queryTypeFromU16 qtype = none) :
    (cacheGetUnchecked c name qtype now).2 = toRRs name now (tuplesAt c name qtype) := by
  unfold cacheGetUnchecked
  simp only [hq]
  have := getTouch_snd c name qtype now
  have ht : tuplesAt c name qtype = ((AL.get c.partitions name).bind (fun p => AL.get p.records qtype)).getD [] := by
    unfold tuplesAt recsAt
    cases AL.get c.partitions name <;> rfl
  rw [ht]
  split <;> rename_i heq <;> rw [heq] at this <;> simp only at this <;> rw [← this] <;> rfl

theorem cacheGetUnchecked_snd_other {c : PCache} {name : Name} {qtype now : Nat} {s : String}
    (hq : lookupNat Gen.queryTypeFromU16 qtype = some s) (hs : s ≠ "Wildcard") :
    (cacheGetUnchecked c name qtype now).2 = [] := by
  unfold cacheGetUnchecked
  split
  · rename_i heq; rw [hq] at heq; cases heq; exact absurd rfl hs
  · rfl
  · rename_i heq; rw [hq] at heq; cases heq

theorem rtypeMatches_wild {rt qtype : Nat} (hq : lookupNat Gen.queryTypeFromU16 qtype = some "Wildcard") :
    rtypeMatches rt qtype = true := by
  unfold rtypeMatches
  split
  · rfl
  · rename_i hne heq; rw [hq] at heq; cases heq; exact absurd rfl hne
  · rename_i heq; rw [hq] at heq; cases heq

theorem rtypeMatches_rec {rt qtype : Nat} (hq : lookupNat Gen.queryTypeFromU16 qtype = none) :
    rtypeMatches rt qtype = (rt == qtype) := by
  unfold rtypeMatches
  split
  · rename_i heq; rw [hq] at heq; cases heq
  · rename_i heq; rw [hq] at heq; cases heq
  · rfl

theorem rtypeMatches_other {rt qtype : Nat} {s : String}
    (hq : lookupNat Gen.queryTypeFromU16 qtype = some s) (hs : s ≠ "Wildcard") :
    rtypeMatches rt qtype = false := by
  unfold rtypeMatches
  split
  · rename_i heq; rw [hq] at heq; cases heq; exact absurd rfl hs
  · rfl
  · rename_i heq; rw [hq] at heq; cases heq

/-- What an unchecked lookup returns: the `to_rrs` image of the tuple lists filed under the record
    types matching the query type. -/
theorem mem_cacheGetUnchecked_iff {c : PCache} (h : Inv c) (name : Name) (qtype now : Nat) (rr : RR) :
    rr ∈ (cacheGetUnchecked c name qtype now).2 ↔
      ∃ rk, rtypeMatches rk qtype = true ∧ rr ∈ toRRs name now (tuplesAt c name rk) := by
  cases hq : lookupNat Gen.queryTypeFromU16 qtype with
  | none =>
    rw [cacheGetUnchecked_snd_rec hq]
    constructor
    · intro hr; exact ⟨qtype, by rw [rtypeMatches_rec hq]; simp, hr⟩
    · rintro ⟨rk, hm, hr⟩
      rw [rtypeMatches_rec hq] at hm
      simp only [beq_iff_eq] at hm
      subst hm; exact hr
  | some s =>
    by_cases hs : s = "Wildcard"
    · subst hs
      rw [cacheGetUnchecked_snd_wild hq]
      simp only [List.mem_flatMap]
      constructor
      · rintro ⟨r, hr, hrr⟩
        refine ⟨r.1, rtypeMatches_wild hq, ?_⟩
        have : tuplesAt c name r.1 = r.2 := by
          unfold tuplesAt
          rw [AL.get_of_mem (h.recsAt_nodup name) (show (r.1, r.2) ∈ recsAt c name from hr)]
          rfl
        rw [this]; exact hrr
      · rintro ⟨rk, _, hr⟩
        rw [toRRs_eq_map] at hr
        obtain ⟨t, ht, _⟩ := List.mem_map.mp hr
        exact ⟨(rk, tuplesAt c name rk), Inv.tuplesAt_mem_recs ht, hr⟩
    · rw [cacheGetUnchecked_snd_other hq hs]
      simp only [List.not_mem_nil, false_iff]
      rintro ⟨rk, hm, _⟩
      rw [rtypeMatches_other hq hs] at hm
      cases hm

/-- the "is returned" half needs no invariant -/
theorem mem_cacheGetUnchecked_of {c : PCache} {name : Name} {qtype now : Nat} {rr : RR} {rk : Nat}
    (hm : rtypeMatches rk qtype = true) (hr : rr ∈ toRRs name now (tuplesAt c name rk)) :
    rr ∈ (cacheGetUnchecked c name qtype now).2 := by
  cases hq : lookupNat Gen.queryTypeFromU16 qtype with
  | none =>
    rw [cacheGetUnchecked_snd_rec hq]
    rw [rtypeMatches_rec hq] at hm
    simp only [beq_iff_eq] at hm
    subst hm; exact hr
  | some s =>
    by_cases hs : s = "Wildcard"
    · subst hs
      rw [cacheGetUnchecked_snd_wild hq]
      simp only [List.mem_flatMap]
      have hr' := hr
      rw [toRRs_eq_map] at hr'
      obtain ⟨t, ht, _⟩ := List.mem_map.mp hr'
      exact ⟨(rk, tuplesAt c name rk), Inv.tuplesAt_mem_recs ht, hr⟩
    · rw [rtypeMatches_other hq hs] at hm
      cases hm

theorem mem_cacheGet_iff {c : PCache} (name : Name) (qtype now : Nat) (rr : RR) :
    rr ∈ (cacheGet c name qtype now).2 ↔ rr ∈ (cacheGetUnchecked c name qtype now).2 ∧ rr.ttl > 0 := by
  unfold cacheGet
  simp [List.mem_filter]

/-! ## Lookups do not change what is stored -/

theorem Touched.recsAt {c c' : PCache} {k : Name} {now : Nat} (h : Touched c c' k now) (k' : Name) :
    recsAt c' k' = recsAt c k' := by
  rcases h with rfl | ⟨p, hp, rfl⟩
  · rfl
  · unfold Resolved.recsAt
    simp only [AL.get_set]
    by_cases hk : k' = k
    · subst hk; simp [hp]
    · simp [hk]

theorem Touched.tuplesAt {c c' : PCache} {k : Name} {now : Nat} (h : Touched c c' k now) (k' : Name)
    (rk : Nat) : tuplesAt c' k' rk = tuplesAt c k' rk := by
  unfold Resolved.tuplesAt; rw [h.recsAt]

theorem Touched.storedExpiry {c c' : PCache} {k : Name} {now : Nat} (h : Touched c c' k now) (k' : Name)
    (rt : Nat) (fs : List FieldVal) : storedExpiry c' k' rt fs = storedExpiry c k' rt fs := by
  rw [storedExpiry_eq, storedExpiry_eq, h.tuplesAt]

theorem Touched.rest {c c' : PCache} {k : Name} {now : Nat} (h : Touched c c' k now) :
    c'.expiryPriority = c.expiryPriority ∧ c'.currentSize = c.currentSize ∧ c'.desiredSize = c.desiredSize ∧
      AL.keys c'.partitions = AL.keys c.partitions := by
  rcases h with rfl | ⟨p, hp, rfl⟩
  · exact ⟨rfl, rfl, rfl, rfl⟩
  · exact ⟨rfl, rfl, rfl, AL.keys_set_of_get_some hp _⟩

/-! ## Lookups return no duplicates -/

theorem nodup_map_of_inj {α β : Type} {f : α → β} (hf : ∀ a b, f a = f b → a = b) {l : List α}
    (h : l.Nodup) : (l.map f).Nodup := by
  induction l with
  | nil => simp
  | cons x l ih =>
    simp only [List.nodup_cons, List.map_cons] at h ⊢
    refine ⟨?_, ih h.2⟩
    intro hm
    obtain ⟨y, hy, hxy⟩ := List.mem_map.mp hm
    have := hf _ _ hxy
    subst this
    exact h.1 hy

theorem nodup_toRRs_keys (name : Name) (now : Nat) {ts : Tuples} (h : (ts.map (·.1)).Nodup) :
    ((toRRs name now ts).map (fun rr => (rr.rtype, rr.fields))).Nodup := by
  have : (toRRs name now ts).map (fun rr => (rr.rtype, rr.fields)) =
      (ts.map (·.1)).map (fun v : CRec => (v.rtype, v.fields)) := by
    rw [toRRs_eq_map]; simp [mkRR, Function.comp_def]
  rw [this]
  apply nodup_map_of_inj _ h
  intro a b hab
  obtain ⟨a1, a2⟩ := a; obtain ⟨b1, b2⟩ := b
  simp only [Prod.mk.injEq] at hab
  obtain ⟨rfl, rfl⟩ := hab; rfl

theorem nodup_flatMap_toRRs (name : Name) (now : Nat) {rs : List (Nat × Tuples)}
    (hk : (AL.keys rs).Nodup) (hnd : ∀ r ∈ rs, (r.2.map (·.1)).Nodup)
    (hrt : ∀ r ∈ rs, ∀ t ∈ r.2, t.1.rtype = r.1) :
    ((rs.flatMap (fun r => toRRs name now r.2)).map (fun rr => (rr.rtype, rr.fields))).Nodup := by
  induction rs with
  | nil => simp
  | cons r rs ih =>
    simp only [AL.keys_cons, List.nodup_cons] at hk
    rw [List.flatMap_cons, List.map_append, List.nodup_append]
    refine ⟨nodup_toRRs_keys name now (hnd r (by simp)),
      ih hk.2 (fun r' hr' => hnd r' (List.mem_cons_of_mem _ hr')) (fun r' hr' => hrt r' (List.mem_cons_of_mem _ hr')), ?_⟩
    intro a ha b hb hab
    subst hab
    obtain ⟨rr, hrr, rfl⟩ := List.mem_map.mp ha
    obtain ⟨rr', hrr', he⟩ := List.mem_map.mp hb
    rw [toRRs_eq_map] at hrr
    obtain ⟨t, ht, rfl⟩ := List.mem_map.mp hrr
    obtain ⟨r', hr', hrr''⟩ := List.mem_flatMap.mp hrr'
    rw [toRRs_eq_map] at hrr''
    obtain ⟨t', ht', rfl⟩ := List.mem_map.mp hrr''
    simp only [mkRR, Prod.mk.injEq] at he
    have h1 := hrt r (by simp) t ht
    have h2 := hrt r' (List.mem_cons_of_mem _ hr') t' ht'
    have : r'.1 = r.1 := by rw [← h1, ← h2]; exact he.1
    apply hk.1
    rw [← this]
    exact List.mem_map.mpr ⟨r', hr', rfl⟩

/-- no (type, data) is returned twice by a lookup -/
theorem Inv.cacheGetUnchecked_nodup {c : PCache} (h : Inv c) (name : Name) (qtype now : Nat) :
    ((Resolved.cacheGetUnchecked c name qtype now).2.map (fun rr => (rr.rtype, rr.fields))).Nodup := by
  cases hq : lookupNat Gen.queryTypeFromU16 qtype with
  | none =>
    rw [cacheGetUnchecked_snd_rec hq]
    exact nodup_toRRs_keys name now (h.tuplesAt_nodup name qtype)
  | some s =>
    by_cases hs : s = "Wildcard"
    · subst hs
      rw [cacheGetUnchecked_snd_wild hq]
      cases hp : AL.get c.partitions name with
      | none => simp [recsAt, hp]
      | some p =>
        rw [recsAt_of_get hp]
        have hpi := h.pinv_of_get hp
        exact nodup_flatMap_toRRs name now hpi.keysNodup hpi.noDup hpi.rtype_eq
    · rw [cacheGetUnchecked_snd_other hq hs]; simp

theorem Inv.cacheGet_nodup {c : PCache} (h : Inv c) (name : Name) (qtype now : Nat) :
    ((Resolved.cacheGet c name qtype now).2.map (fun rr => (rr.rtype, rr.fields))).Nodup := by
  unfold Resolved.cacheGet
  exact ((List.filter_sublist).map _).nodup (h.cacheGetUnchecked_nodup name qtype now)

end Resolved
