/-
  C05/C15: operation histories of the shared cache — an operation type, `run`, and the invariant
  along any history.
-/
import Resolved.Proofs.CachePrune

namespace Resolved

open PCache

/-- the operations of `SharedCache` (each with the clock reading it observes) -/
inductive CacheOp where
  /-- `SharedCache::insert` -/
  | insert (rr : RR) (now : Nat)
  /-- `SharedCache::insert_all` -/
  | insertAll (rrs : List RR) (now : Nat)
  /-- `SharedCache::get` -/
  | get (name : Name) (qtype : Nat) (now : Nat)
  /-- `SharedCache::get_without_checking_expiration` -/
  | getUnchecked (name : Name) (qtype : Nat) (now : Nat)
  /-- `SharedCache::prune` -/
  | prune (now : Nat)
deriving Repr

/-- the state after one operation (a `prune` that would not terminate leaves the state alone;
    `C15_prune_terminates` shows this never happens on a state satisfying `Inv`) -/
def CacheOp.apply (c : PCache) : CacheOp → PCache
  | .insert rr now => sharedInsert c rr now
  | .insertAll rrs now => sharedInsertAll c rrs now
  | .get name qtype now => (cacheGet c name qtype now).1
  | .getUnchecked name qtype now => (cacheGetUnchecked c name qtype now).1
  | .prune now =>
    match c.prune now with
    | some (c', _) => c'
    | none => c

/-- the state after a history, starting from `c` -/
def runFrom (c : PCache) (ops : List CacheOp) : PCache := ops.foldl CacheOp.apply c

/-- the state after a history, starting from the empty cache of desired size `d` -/
def run (d : Nat) (ops : List CacheOp) : PCache := runFrom (PCache.new d) ops

theorem Inv.new (d : Nat) : Inv (PCache.new d) := by
  refine ⟨by simp [PCache.new], by simp [PCache.new], rfl, by simp [PCache.new], ?_, by simp [PCache.new], ?_⟩
  · intro k; rfl
  · intro k; rfl

theorem Inv.cacheInsert {c : PCache} (h : Inv c) (rr : RR) (now : Nat) : Inv (cacheInsert c rr now) :=
  h.upsert rr.name (rr.ttl * NANOS) now rfl

theorem Inv.sharedInsert {c : PCache} (h : Inv c) (rr : RR) (now : Nat) : Inv (sharedInsert c rr now) := by
  unfold Resolved.sharedInsert
  split
  · exact h.cacheInsert rr now
  · exact h

theorem Inv.sharedInsertAll {c : PCache} (h : Inv c) (rrs : List RR) (now : Nat) :
    Inv (sharedInsertAll c rrs now) := by
  unfold Resolved.sharedInsertAll
  induction rrs generalizing c with
  | nil => exact h
  | cons rr rrs ih => exact ih (h.sharedInsert rr now)

theorem Inv.cacheGetUnchecked {c : PCache} (h : Inv c) (name : Name) (qtype now : Nat) :
    Inv (cacheGetUnchecked c name qtype now).1 := by
  unfold Resolved.cacheGetUnchecked
  split
  · have := h.getPartitionTouch name now
    split <;> rename_i heq <;> rw [heq] at this <;> exact this
  · exact h
  · have := h.getTouch name qtype now
    split <;> rename_i heq <;> rw [heq] at this <;> exact this

theorem Inv.cacheGet {c : PCache} (h : Inv c) (name : Name) (qtype now : Nat) :
    Inv (cacheGet c name qtype now).1 :=
  h.cacheGetUnchecked name qtype now

theorem Inv.apply {c : PCache} (h : Inv c) (op : CacheOp) : Inv (op.apply c) := by
  cases op with
  | insert rr now => exact h.sharedInsert rr now
  | insertAll rrs now => exact h.sharedInsertAll rrs now
  | get name qtype now => exact h.cacheGet name qtype now
  | getUnchecked name qtype now => exact h.cacheGetUnchecked name qtype now
  | prune now =>
    simp only [CacheOp.apply]
    split
    · rename_i c' r hp; exact h.prune hp
    · exact h

theorem Inv.runFrom {c : PCache} (h : Inv c) (ops : List CacheOp) : Inv (runFrom c ops) := by
  unfold Resolved.runFrom
  induction ops generalizing c with
  | nil => exact h
  | cons op ops ih => exact ih (h.apply op)

end Resolved
