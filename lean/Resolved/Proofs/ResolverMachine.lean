/-
  The recursive / forwarding machines as state transformers: every state they return is reachable
  from the one they were given by the primitive, guarded steps of `Reach` (a local lookup, a guarded
  push, a pop, a cache insertion of records taken from a logged reply, one `queryNameserver` at an
  address of an allowed family on the configured port).  All the log / time / context invariants
  of C08, C18, C10 are then inductions over `Reach`.
-/
import Resolved.Proofs.ResolverMachineLocal
import Resolved.Props.C06

namespace Resolved

open Gen

/-- the address family a mode allows. -/
def FamOK (mode : ProtocolMode) (addr : FieldVal) : Prop :=
  (mode = .onlyV4 → ∃ x, addr = .a x) ∧ (mode = .onlyV6 → ∃ x, addr = .aaaa x)

/-- all the records of a message. -/
def Message.allRrs (m : Message) : List RR := m.answers ++ m.authority ++ m.additional

/-- `r` occurs in a reply the oracle gives for an exchange of the log. -/
def FromLog (oracle : Oracle) (log : List Exchange) (r : RR) : Prop :=
  ∃ ex ∈ log, ∃ m, (oracle ex).reply = some m ∧ r ∈ m.allRrs

theorem FromLog.mono {oracle : Oracle} {l1 l2 : List Exchange} {r : RR} (h : l1 <+: l2)
    (hr : FromLog oracle l1 r) : FromLog oracle l2 r := by
  obtain ⟨ex, hex, m, hm, hin⟩ := hr
  exact ⟨ex, h.subset hex, m, hm, hin⟩

/-! ## One transport attempt, one `queryNameserver` -/

/-- (= `C08_attempt_time`) one transport attempt costs at most its 5 s timeout and never pushes
    the clock past the 60 s budget. -/
theorem attempt_time (oracle : Oracle) (run : Run) (ex : Exchange)
    (h : run.elapsedMs ≤ RESOLVE_TIMEOUT_MS) :
    (attempt oracle run ex).1.elapsedMs ≤ RESOLVE_TIMEOUT_MS ∧
    (attempt oracle run ex).1.elapsedMs ≤ run.elapsedMs + EXCHANGE_TIMEOUT_MS ∧
    run.elapsedMs ≤ (attempt oracle run ex).1.elapsedMs := by
  unfold attempt
  split
  · simp only; exact ⟨h, by omega, by omega⟩
  · simp only
    split
    · simp only; refine ⟨Nat.le_refl _, ?_, h⟩
      rename_i hge
      have : min (oracle ex).delayMs EXCHANGE_TIMEOUT_MS ≤ EXCHANGE_TIMEOUT_MS := Nat.min_le_right _ _
      omega
    · rename_i hlt
      have hm : min (oracle ex).delayMs EXCHANGE_TIMEOUT_MS ≤ EXCHANGE_TIMEOUT_MS := Nat.min_le_right _ _
      split <;> simp only <;> refine ⟨by omega, by omega, by omega⟩

/-- (= `C18_getIp_family`) `get_ip` for type A yields only IPv4 addresses and for AAAA only IPv6. -/
theorem getIp_family (rrs : List RR) (target : Name) (rtype : Nat) (addr : FieldVal)
    (h : getIp rrs target rtype = some addr) :
    (rtype = RT_A → ∃ x, addr = .a x) ∧ (rtype = RT_AAAA → ∃ x, addr = .aaaa x) := by
  unfold getIp at h
  split at h
  · split at h
    · rename_i rr hrec
      have hrt : rr.rtype = rtype := by
        unfold getRecord at hrec
        have := List.find?_some hrec
        simp at this
        exact this.1
      split at h
      · split at h
        · cases h; constructor
          · intro _; exact ⟨_, rfl⟩
          · intro h2; rename_i h3; rw [hrt, h2] at h3; simp [RT_A, RT_AAAA] at h3
        · cases h
      · split at h
        · cases h; constructor
          · intro h2; rename_i h3; rw [hrt, h2] at h3; simp [RT_A, RT_AAAA] at h3
          · intro _; exact ⟨_, rfl⟩
        · cases h
      · cases h
    · cases h
  · cases h

theorem attempt_log (oracle : Oracle) (run : Run) (ex : Exchange) :
    (attempt oracle run ex).1.log = run.log ∨
    (run.timedOut = false ∧ (attempt oracle run ex).1.log = run.log ++ [ex]) := by
  unfold attempt
  split
  · exact Or.inl rfl
  · rename_i h
    simp only
    split
    · exact Or.inr ⟨eq_false_of_ne_true h, rfl⟩
    · split <;> exact Or.inr ⟨eq_false_of_ne_true h, rfl⟩

theorem attempt_reply {oracle : Oracle} {run : Run} {ex : Exchange} {m : Message}
    (h : (attempt oracle run ex).2 = some m) :
    ex ∈ (attempt oracle run ex).1.log ∧ (oracle ex).reply = some m := by
  unfold attempt at h ⊢
  split at h
  · cases h
  · simp only at h ⊢
    split at h
    · cases h
    · rename_i h1 h2
      rw [if_neg h2]
      split at h
      · cases h
      · rename_i h3
        rw [if_neg h3, if_neg h1]
        exact ⟨by simp, h⟩

theorem attempt_timedOut_mono (oracle : Oracle) (run : Run) (ex : Exchange) (h : run.timedOut = true) :
    attempt oracle run ex = (run, none) := by
  simp [attempt, h]

/-- the exchanges `queryNameserver` may add to the log. -/
def QExchange (addr : FieldVal) (port : Nat) (q : Question) (rd : Bool) (e : Exchange) : Prop :=
  e.addr = addr ∧ e.port = port ∧ e.question = q ∧ e.recursionDesired = rd

def matchFilter (q : Question) (rd : Bool) (r : Message) : Option Message :=
  if responseMatchesRequest (requestFor q rd) r then some r else none

def fitsUdp (q : Question) (rd : Bool) : Bool :=
  match encodeMessage (requestFor q rd) with
  | .ok bs => decide (bs.length ≤ UDP_MAX)
  | .error _ => false

/-- first stage of `queryNameserver`: the UDP attempt (if the request fits). -/
def qnFirst (oracle : Oracle) (run : Run) (addr : FieldVal) (port : Nat) (q : Question) (rd : Bool) :
    Run × Option Message :=
  if fitsUdp q rd = true
  then attempt oracle run { addr, port, tcp := false, question := q, recursionDesired := rd }
  else (run, none)

/-- second stage: use the matching UDP reply, else the TCP attempt. -/
def qnSecond (oracle : Oracle) (addr : FieldVal) (port : Nat) (q : Question) (rd : Bool)
    (p : Run × Option Message) : Run × Option Message :=
  match p.2.bind (matchFilter q rd) with
  | some r => (p.1, some r)
  | none =>
    ((attempt oracle p.1 { addr, port, tcp := true, question := q, recursionDesired := rd }).1,
     (attempt oracle p.1 { addr, port, tcp := true, question := q, recursionDesired := rd }).2.bind (matchFilter q rd))

theorem queryNameserver_eq (oracle : Oracle) (run : Run) (addr : FieldVal) (port : Nat) (q : Question)
    (rd : Bool) :
    queryNameserver oracle run addr port q rd = qnSecond oracle addr port q rd (qnFirst oracle run addr port q rd) := by
  unfold queryNameserver qnSecond qnFirst matchFilter fitsUdp
  rfl

/-- what one stage does to the run: appends at most one exchange of the expected shape, never
    after a time-out. -/
def RunExt (addr : FieldVal) (port : Nat) (q : Question) (rd : Bool) (run run' : Run) : Prop :=
  ∃ l, run'.log = run.log ++ l ∧ (∀ e ∈ l, QExchange addr port q rd e) ∧ (run.timedOut = true → run' = run)

theorem RunExt.refl {addr port q rd} (run : Run) : RunExt addr port q rd run run :=
  ⟨[], by simp, by simp, fun _ => rfl⟩

theorem RunExt.trans {addr port q rd} {a b c : Run} (h1 : RunExt addr port q rd a b)
    (h2 : RunExt addr port q rd b c) : RunExt addr port q rd a c := by
  obtain ⟨l1, e1, q1, t1⟩ := h1
  obtain ⟨l2, e2, q2, t2⟩ := h2
  refine ⟨l1 ++ l2, by rw [e2, e1, List.append_assoc], ?_, ?_⟩
  · intro e he
    rcases List.mem_append.mp he with he | he
    · exact q1 e he
    · exact q2 e he
  · intro h
    have hb := t1 h
    subst hb
    exact t2 h

theorem attempt_ext (oracle : Oracle) (run : Run) (ex : Exchange) :
    RunExt ex.addr ex.port ex.question ex.recursionDesired run (attempt oracle run ex).1 := by
  by_cases ht : run.timedOut = true
  · rw [attempt_timedOut_mono _ _ _ ht]; exact RunExt.refl _
  · rcases attempt_log oracle run ex with h | ⟨_, h⟩
    · exact ⟨[], by simpa using h, by simp, fun hh => absurd hh ht⟩
    · refine ⟨[ex], h, ?_, fun hh => absurd hh ht⟩
      intro e he; simp only [List.mem_singleton] at he; subst he; exact ⟨rfl, rfl, rfl, rfl⟩

theorem queryNameserver_ext (oracle : Oracle) (run : Run) (addr : FieldVal) (port : Nat) (q : Question)
    (rd : Bool) : RunExt addr port q rd run (queryNameserver oracle run addr port q rd).1 := by
  rw [queryNameserver_eq]
  have h1 : RunExt addr port q rd run (qnFirst oracle run addr port q rd).1 := by
    unfold qnFirst
    split
    · exact attempt_ext oracle run { addr, port, tcp := false, question := q, recursionDesired := rd }
    · exact RunExt.refl _
  refine h1.trans ?_
  unfold qnSecond
  split
  · exact RunExt.refl _
  · exact attempt_ext oracle _ { addr, port, tcp := true, question := q, recursionDesired := rd }

/-- a reply `queryNameserver` hands back is the oracle's reply to one of the exchanges it logged,
    and it matches the request. -/
theorem queryNameserver_reply {oracle : Oracle} {run : Run} {addr : FieldVal} {port : Nat} {q : Question}
    {rd : Bool} {m : Message} (h : (queryNameserver oracle run addr port q rd).2 = some m) :
    (∃ ex ∈ (queryNameserver oracle run addr port q rd).1.log, (oracle ex).reply = some m) ∧
    responseMatchesRequest (requestFor q rd) m = true := by
  rw [queryNameserver_eq] at h ⊢
  have hf : ∀ {x : Option Message} {m : Message}, x.bind (matchFilter q rd) = some m →
      x = some m ∧ responseMatchesRequest (requestFor q rd) m = true := by
    intro x m hx
    cases x with
    | none => cases hx
    | some y =>
      simp only [Option.bind_some, matchFilter] at hx
      split at hx
      · cases hx; exact ⟨rfl, by assumption⟩
      · cases hx
  cases hb : (qnFirst oracle run addr port q rd).2.bind (matchFilter q rd) with
  | some r =>
    simp only [qnSecond, hb] at h ⊢
    cases h
    obtain ⟨h1, h2⟩ := hf hb
    refine ⟨?_, h2⟩
    unfold qnFirst at h1 ⊢
    split at h1
    · rename_i hfit
      rw [if_pos hfit]
      obtain ⟨h3, h4⟩ := attempt_reply h1
      exact ⟨_, h3, h4⟩
    · cases h1
  | none =>
    simp only [qnSecond, hb] at h ⊢
    obtain ⟨h1, h2⟩ := hf h
    obtain ⟨h3, h4⟩ := attempt_reply h1
    exact ⟨⟨_, h3, h4⟩, h2⟩

/-- time accounting of one `queryNameserver` started within the budget: the clock only advances,
    by at most two exchange time-outs, and stays within the budget. -/
theorem queryNameserver_time (oracle : Oracle) (run : Run) (addr : FieldVal) (port : Nat) (q : Question)
    (rd : Bool) (h : run.elapsedMs ≤ RESOLVE_TIMEOUT_MS) :
    (queryNameserver oracle run addr port q rd).1.elapsedMs ≤ RESOLVE_TIMEOUT_MS ∧
    (queryNameserver oracle run addr port q rd).1.elapsedMs ≤ run.elapsedMs + 2 * EXCHANGE_TIMEOUT_MS ∧
    run.elapsedMs ≤ (queryNameserver oracle run addr port q rd).1.elapsedMs := by
  rw [queryNameserver_eq]
  have h1 : (qnFirst oracle run addr port q rd).1.elapsedMs ≤ RESOLVE_TIMEOUT_MS ∧
      (qnFirst oracle run addr port q rd).1.elapsedMs ≤ run.elapsedMs + EXCHANGE_TIMEOUT_MS ∧
      run.elapsedMs ≤ (qnFirst oracle run addr port q rd).1.elapsedMs := by
    unfold qnFirst
    split
    · exact attempt_time oracle run _ h
    · exact ⟨h, by simp only; omega, Nat.le_refl _⟩
  obtain ⟨a1, a2, a3⟩ := h1
  unfold qnSecond
  split
  · exact ⟨a1, by simp only; omega, a3⟩
  · simp only
    obtain ⟨b1, b2, b3⟩ := attempt_time oracle (qnFirst oracle run addr port q rd).1
      { addr, port, tcp := true, question := q, recursionDesired := rd } a1
    exact ⟨b1, by omega, by omega⟩

/-- the clock and the time-out flag agree: timed out exactly at the 60 s mark, live strictly
    before it. -/
def Deadline (run : Run) : Prop :=
  (run.timedOut = true → run.elapsedMs = RESOLVE_TIMEOUT_MS) ∧
  (run.timedOut = false → run.elapsedMs < RESOLVE_TIMEOUT_MS)

theorem attempt_deadline (oracle : Oracle) (run : Run) (ex : Exchange) (h : Deadline run) :
    Deadline (attempt oracle run ex).1 := by
  unfold attempt
  split
  · exact h
  · rename_i ht
    simp only
    split
    · exact ⟨fun _ => rfl, fun hh => by cases hh⟩
    · rename_i hlt
      have hf := eq_false_of_ne_true ht
      split
      · refine ⟨fun hh => ?_, fun _ => ?_⟩
        · exact absurd hh ht
        · show run.elapsedMs + _ < _; omega
      · refine ⟨fun hh => ?_, fun _ => ?_⟩
        · exact absurd hh ht
        · show run.elapsedMs + _ < _; omega

theorem queryNameserver_deadline (oracle : Oracle) (run : Run) (addr : FieldVal) (port : Nat) (q : Question)
    (rd : Bool) (h : Deadline run) : Deadline (queryNameserver oracle run addr port q rd).1 := by
  rw [queryNameserver_eq]
  have h1 : Deadline (qnFirst oracle run addr port q rd).1 := by
    unfold qnFirst
    split
    · exact attempt_deadline _ _ _ h
    · exact h
  unfold qnSecond
  split
  · exact h1
  · exact attempt_deadline _ _ _ h1

/-- each logged transport attempt accounts for at most one exchange time-out (5 s) of clock. -/
def CostLe (run run' : Run) : Prop :=
  run'.elapsedMs + EXCHANGE_TIMEOUT_MS * run.log.length ≤ run.elapsedMs + EXCHANGE_TIMEOUT_MS * run'.log.length

theorem CostLe.refl (run : Run) : CostLe run run := Nat.le_refl _

theorem CostLe.trans {a b c : Run} (h1 : CostLe a b) (h2 : CostLe b c) : CostLe a c := by
  unfold CostLe at *; omega

theorem attempt_cost (oracle : Oracle) (run : Run) (ex : Exchange) : CostLe run (attempt oracle run ex).1 := by
  unfold attempt CostLe
  split
  · exact Nat.le_refl _
  · simp only
    have hm : min (oracle ex).delayMs EXCHANGE_TIMEOUT_MS ≤ EXCHANGE_TIMEOUT_MS := Nat.min_le_right _ _
    split
    · simp only [List.length_append, List.length_singleton, Nat.mul_add, Nat.mul_one]; omega
    · split <;> (simp only [List.length_append, List.length_singleton, Nat.mul_add, Nat.mul_one]; omega)

theorem queryNameserver_cost (oracle : Oracle) (run : Run) (addr : FieldVal) (port : Nat) (q : Question)
    (rd : Bool) : CostLe run (queryNameserver oracle run addr port q rd).1 := by
  rw [queryNameserver_eq]
  have h1 : CostLe run (qnFirst oracle run addr port q rd).1 := by
    unfold qnFirst
    split
    · exact attempt_cost _ _ _
    · exact CostLe.refl _
  unfold qnSecond
  split
  · exact h1
  · exact h1.trans (attempt_cost _ _ _)

/-- the records a validated reply carries. -/
def NameserverResponse.rrs : NameserverResponse → List RR
  | .answer rrs _ => rrs
  | .cname rrs _ => rrs
  | .delegation rrs _ _ => rrs

/-- the filter never invents a record: whatever it passes on occurs in the reply. -/
theorem validate_rrs_from_reply {q : Question} {m : Message} {mc : Nat} {resp : NameserverResponse}
    (h : validateNameserverResponse q m mc = some resp) : ∀ r ∈ resp.rrs, r ∈ m.allRrs := by
  intro r hr
  unfold Message.allRrs
  cases resp with
  | answer rrs soa =>
    have := (C06_answer_records_from_answer_section q m mc).1 rrs soa h r hr
    simp [this]
  | cname rrs c =>
    have := (C06_answer_records_from_answer_section q m mc).2 rrs c h r hr
    simp [this]
  | delegation rrs hs name =>
    rcases C06_delegation_records_allowed q m mc rrs hs name h r hr with ⟨_, _, _, _, h1⟩ | ⟨_, _, h1⟩
    · rcases List.mem_append.mp h1 with h2 | h2 <;> simp [h2]
    · rcases List.mem_append.mp h1 with h2 | h2 <;> simp [h2]

/-- a validated reply of `queryNameserver` only carries records of a logged reply. -/
theorem query_validated_fromLog {oracle : Oracle} {run : Run} {addr : FieldVal} {port : Nat} {q : Question}
    {rd : Bool} {mc : Nat} {resp : NameserverResponse}
    (h : (queryNameserver oracle run addr port q rd).2.bind (fun res => validateNameserverResponse q res mc)
      = some resp) :
    ∀ r ∈ resp.rrs, FromLog oracle (queryNameserver oracle run addr port q rd).1.log r := by
  intro r hr
  cases hm : (queryNameserver oracle run addr port q rd).2 with
  | none => rw [hm] at h; cases h
  | some m =>
    rw [hm] at h
    simp only [Option.bind_some] at h
    obtain ⟨⟨ex, hex, ho⟩, _⟩ := queryNameserver_reply hm
    exact ⟨ex, hex, m, ho, validate_rrs_from_reply h r hr⟩

end Resolved
