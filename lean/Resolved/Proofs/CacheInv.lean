/-
  C15: the structural invariant `Inv` of the partitioned cache and the three generic ways an
  operation changes a state while keeping it (replace one partition, add one, remove one).
-/
import Resolved.Proofs.CacheLemmas

namespace Resolved

open PCache

/-- the per-partition part of the invariant -/
structure PInv (p : Partition) : Prop where
  /-- I1: record keys are distinct -/
  keysNodup : (AL.keys p.records).Nodup
  /-- I2: `size` is the number of tuples -/
  size_eq : p.size = recCount p.records
  /-- I3 (and I1: the partition holds at least one tuple): `nextExpiry` is the least expiry -/
  nextExpiry_min : IsMinExpiry p.nextExpiry (tuplesOf p.records)
  /-- I5: no value occurs twice in one tuple list -/
  noDup : ∀ r ∈ p.records, (r.2.map (·.1)).Nodup
  /-- I6: tuples are filed under their own record type -/
  rtype_eq : ∀ r ∈ p.records, ∀ t ∈ r.2, t.1.rtype = r.1

/-- sum of the partitions' `size` fields -/
def sizeSum (ps : List (Name × Partition)) : Nat := (ps.map (·.2.size)).sum

@[simp] theorem sizeSum_nil : sizeSum [] = 0 := rfl
@[simp] theorem sizeSum_cons (x : Name × Partition) (ps : List (Name × Partition)) :
    sizeSum (x :: ps) = x.2.size + sizeSum ps := by simp [sizeSum]
@[simp] theorem sizeSum_append (a b : List (Name × Partition)) :
    sizeSum (a ++ b) = sizeSum a + sizeSum b := by simp [sizeSum]

/-- C15: the structural invariant of `PartitionedCache`. -/
structure Inv (c : PCache) : Prop where
  /-- I1: partition keys are distinct -/
  keysNodup : (AL.keys c.partitions).Nodup
  /-- I1, I2, I3, I5, I6 for every partition -/
  parts : ∀ kp ∈ c.partitions, PInv kp.2
  /-- I2: `current_size` is the sum of the partition sizes -/
  size_eq : c.currentSize = sizeSum c.partitions
  /-- I4: the access queue has each key once … -/
  aqNodup : (AL.keys c.accessPriority).Nodup
  /-- … exactly the partition keys, with priority `last_read` -/
  aq_get : ∀ k, AL.get c.accessPriority k = (AL.get c.partitions k).map (·.lastRead)
  /-- I4: the expiry queue has each key once … -/
  eqNodup : (AL.keys c.expiryPriority).Nodup
  /-- … exactly the partition keys, with priority `next_expiry` -/
  eq_get : ∀ k, AL.get c.expiryPriority k = (AL.get c.partitions k).map (·.nextExpiry)

theorem PInv.one_le_count {p : Partition} (h : PInv p) : 1 ≤ recCount p.records := by
  obtain ⟨⟨t, ht, _⟩, _⟩ := h.nextExpiry_min
  rw [← length_tuplesOf]
  exact List.length_pos_of_mem ht

theorem PInv.one_le_size {p : Partition} (h : PInv p) : 1 ≤ p.size := by
  rw [h.size_eq]; exact h.one_le_count

theorem Inv.pinv_of_get {c : PCache} (h : Inv c) {k : Name} {p : Partition}
    (hp : AL.get c.partitions k = some p) : PInv p :=
  h.parts _ (AL.mem_of_get hp)

/-! ## Queue updates -/

/-- `q'` has distinct keys and is `q` with `k ↦ x` as a lookup function -/
def QUpd (q q' : PQ) (k : Name) (x : Nat) : Prop :=
  (AL.keys q').Nodup ∧ ∀ k', AL.get q' k' = if k' = k then some x else AL.get q k'

theorem QUpd.set {q : PQ} (hn : (AL.keys q).Nodup) (k : Name) (x : Nat) : QUpd q (AL.set q k x) k x :=
  ⟨AL.nodup_keys_set hn k x, fun k' => AL.get_set q k k' x⟩

theorem QUpd.change {q : PQ} (hn : (AL.keys q).Nodup) {k : Name} {y : Nat} (hy : AL.get q k = some y)
    (x : Nat) : QUpd q (AL.change q k x) k x := by
  rw [AL.change_eq_set hy]; exact QUpd.set hn k x

theorem QUpd.same {q : PQ} (hn : (AL.keys q).Nodup) {k : Name} {x : Nat} (hx : AL.get q k = some x) :
    QUpd q q k x := by
  refine ⟨hn, fun k' => ?_⟩
  by_cases h : k' = k
  · simp [h, hx]
  · simp [h]

theorem QUpd.trans {q q' q'' : PQ} {k : Name} {x y : Nat} (h : QUpd q q' k x) (h' : QUpd q' q'' k y) :
    QUpd q q'' k y := by
  refine ⟨h'.1, fun k' => ?_⟩
  rw [h'.2 k']
  by_cases hk : k' = k
  · simp [hk]
  · simp [hk, h.2 k']

theorem QUpd.erase_set {q : PQ} (hn : (AL.keys q).Nodup) (k : Name) (x : Nat) :
    QUpd q (AL.set (AL.erase q k) k x) k x := by
  refine ⟨AL.nodup_keys_set (AL.nodup_keys_erase hn k) k x, fun k' => ?_⟩
  rw [AL.get_set, AL.get_erase]
  by_cases hk : k' = k <;> simp [hk]

theorem QUpd.get_self {q q' : PQ} {k : Name} {x : Nat} (h : QUpd q q' k x) : AL.get q' k = some x := by
  rw [h.2 k]; simp

/-! ## Replace / add / remove one partition -/

/-- replacing partition `k` by `p'` (queues updated accordingly, counter adjusted) keeps `Inv` -/
theorem Inv.replace {c c' : PCache} (h : Inv c) {k : Name} {p p' : Partition}
    (hp : AL.get c.partitions k = some p) (hp' : PInv p')
    (hps : c'.partitions = AL.set c.partitions k p')
    (haq : QUpd c.accessPriority c'.accessPriority k p'.lastRead)
    (heq : QUpd c.expiryPriority c'.expiryPriority k p'.nextExpiry)
    (hcs : c'.currentSize + p.size = c.currentSize + p'.size) : Inv c' := by
  obtain ⟨a, b, hab, hka⟩ := AL.get_split hp
  have hset : c'.partitions = a ++ (k, p') :: b := by rw [hps, hab, AL.set_split hka]
  refine ⟨?_, ?_, ?_, haq.1, ?_, heq.1, ?_⟩
  · rw [hps, AL.keys_set_of_get_some hp]; exact h.keysNodup
  · intro kp hkp
    rw [hset] at hkp
    have hparts := h.parts
    rw [hab] at hparts
    simp only [List.mem_append, List.mem_cons] at hkp hparts
    rcases hkp with hkp | rfl | hkp
    · exact hparts _ (Or.inl hkp)
    · exact hp'
    · exact hparts _ (Or.inr (Or.inr hkp))
  · have := h.size_eq
    rw [hab] at this
    rw [hset]
    simp only [sizeSum_append, sizeSum_cons] at this ⊢
    omega
  · intro k'
    rw [haq.2 k', hps, AL.get_set]
    by_cases hk : k' = k
    · simp [hk]
    · simp [hk, h.aq_get k']
  · intro k'
    rw [heq.2 k', hps, AL.get_set]
    by_cases hk : k' = k
    · simp [hk]
    · simp [hk, h.eq_get k']

/-- adding a new partition `k ↦ p'` keeps `Inv` -/
theorem Inv.add {c c' : PCache} (h : Inv c) {k : Name} {p' : Partition}
    (hp : AL.get c.partitions k = none) (hp' : PInv p')
    (hps : c'.partitions = AL.set c.partitions k p')
    (haq : c'.accessPriority = AL.set c.accessPriority k p'.lastRead)
    (heq : c'.expiryPriority = AL.set c.expiryPriority k p'.nextExpiry)
    (hcs : c'.currentSize = c.currentSize + p'.size) : Inv c' := by
  refine ⟨?_, ?_, ?_, ?_, ?_, ?_, ?_⟩
  · rw [hps]; exact AL.nodup_keys_set h.keysNodup _ _
  · intro kp hkp
    rw [hps, AL.set_of_get_none hp] at hkp
    simp only [List.mem_append, List.mem_singleton] at hkp
    rcases hkp with hkp | rfl
    · exact h.parts _ hkp
    · exact hp'
  · rw [hcs, hps, AL.set_of_get_none hp, h.size_eq]; simp
  · rw [haq]; exact AL.nodup_keys_set h.aqNodup _ _
  · intro k'
    rw [haq, hps, AL.get_set, AL.get_set]
    by_cases hk : k' = k
    · simp [hk]
    · simp [hk, h.aq_get k']
  · rw [heq]; exact AL.nodup_keys_set h.eqNodup _ _
  · intro k'
    rw [heq, hps, AL.get_set, AL.get_set]
    by_cases hk : k' = k
    · simp [hk]
    · simp [hk, h.eq_get k']

/-- removing partition `k` (from the map and both queues) keeps `Inv` -/
theorem Inv.remove {c c' : PCache} (h : Inv c) {k : Name} {p : Partition}
    (hp : AL.get c.partitions k = some p)
    (hps : c'.partitions = AL.erase c.partitions k)
    (haq : c'.accessPriority = AL.erase c.accessPriority k)
    (heq : c'.expiryPriority = AL.erase c.expiryPriority k)
    (hcs : c'.currentSize + p.size = c.currentSize) : Inv c' := by
  obtain ⟨a, b, hab, hka, hkb⟩ := AL.get_split_nodup h.keysNodup hp
  have hers : c'.partitions = a ++ b := by rw [hps, hab, AL.erase_split hka hkb]
  refine ⟨?_, ?_, ?_, ?_, ?_, ?_, ?_⟩
  · rw [hps]; exact AL.nodup_keys_erase h.keysNodup _
  · intro kp hkp
    rw [hps] at hkp
    exact h.parts _ (AL.mem_erase.mp hkp).1
  · have := h.size_eq
    rw [hab] at this
    rw [hers]
    simp only [sizeSum_append, sizeSum_cons] at this ⊢
    omega
  · rw [haq]; exact AL.nodup_keys_erase h.aqNodup _
  · intro k'
    rw [haq, hps, AL.get_erase, AL.get_erase]
    by_cases hk : k' = k
    · simp [hk]
    · simp [hk, h.aq_get k']
  · rw [heq]; exact AL.nodup_keys_erase h.eqNodup _
  · intro k'
    rw [heq, hps, AL.get_erase, AL.get_erase]
    by_cases hk : k' = k
    · simp [hk]
    · simp [hk, h.eq_get k']

theorem Inv.aq_get_of {c : PCache} (h : Inv c) {k : Name} {p : Partition}
    (hp : AL.get c.partitions k = some p) : AL.get c.accessPriority k = some p.lastRead := by
  rw [h.aq_get, hp]; rfl

theorem Inv.eq_get_of {c : PCache} (h : Inv c) {k : Name} {p : Partition}
    (hp : AL.get c.partitions k = some p) : AL.get c.expiryPriority k = some p.nextExpiry := by
  rw [h.eq_get, hp]; rfl

theorem Inv.size_le {c : PCache} (h : Inv c) {k : Name} {p : Partition}
    (hp : AL.get c.partitions k = some p) : p.size ≤ c.currentSize := by
  obtain ⟨a, b, hab, _⟩ := AL.get_split hp
  rw [h.size_eq, hab]; simp; omega

/-- a key of a queue is a key of the partition map, and conversely -/
theorem Inv.get_of_aq {c : PCache} (h : Inv c) {k : Name} {x : Nat}
    (hq : AL.get c.accessPriority k = some x) : ∃ p, AL.get c.partitions k = some p ∧ p.lastRead = x := by
  rw [h.aq_get] at hq
  cases hp : AL.get c.partitions k with
  | none => simp [hp] at hq
  | some p => simp [hp] at hq; exact ⟨p, rfl, hq⟩

theorem Inv.get_of_eq {c : PCache} (h : Inv c) {k : Name} {x : Nat}
    (hq : AL.get c.expiryPriority k = some x) : ∃ p, AL.get c.partitions k = some p ∧ p.nextExpiry = x := by
  rw [h.eq_get] at hq
  cases hp : AL.get c.partitions k with
  | none => simp [hp] at hq
  | some p => simp [hp] at hq; exact ⟨p, rfl, hq⟩

/-! ## The queue clauses in membership form -/

/-- "`q` has exactly the partition keys, each once, with priority `f partition`", as a statement
    about list membership, is the lookup form used in `Inv` -/
theorem queue_get_iff_mem {q : PQ} {ps : List (Name × Partition)} (f : Partition → Nat)
    (hq : (AL.keys q).Nodup) (hps : (AL.keys ps).Nodup) :
    (∀ k, AL.get q k = (AL.get ps k).map f) ↔
      (∀ k x, (k, x) ∈ q ↔ ∃ p, (k, p) ∈ ps ∧ f p = x) := by
  constructor
  · intro h k x
    rw [AL.mem_iff_get hq, h k]
    constructor
    · intro hm
      obtain ⟨p, hp, hf⟩ := Option.map_eq_some_iff.mp hm
      exact ⟨p, AL.mem_of_get hp, hf⟩
    · rintro ⟨p, hp, hf⟩
      rw [AL.get_of_mem hps hp]; simp [hf]
  · intro h k
    apply Option.ext
    intro x
    rw [← AL.mem_iff_get hq, h k x]
    constructor
    · rintro ⟨p, hp, hf⟩
      rw [AL.get_of_mem hps hp]; simp [hf]
    · intro hm
      obtain ⟨p, hp, hf⟩ := Option.map_eq_some_iff.mp hm
      exact ⟨p, AL.mem_of_get hp, hf⟩

end Resolved
