import Resolved.Proofs.MiscResolver
namespace Resolved
open Gen

/-- what one `attempt` does to the log: nothing (the resolution had already timed out) or one entry -/
theorem c08_attempt_log (oracle : Oracle) (run : Run) (ex : Exchange) :
    (attempt oracle run ex).1.log = run.log ∨ (attempt oracle run ex).1.log = run.log ++ [ex] := by
  unfold attempt
  split
  · exact Or.inl rfl
  · simp only
    split
    · exact Or.inr rfl
    · split <;> exact Or.inr rfl

/-- **One attempt per transport in one exchange**: `query_nameserver` adds to the log at most one UDP
    attempt followed by at most one TCP attempt (never two on the same transport). -/
theorem c08_query_attempts (oracle : Oracle) (run : Run) (addr : FieldVal) (port : Nat)
    (q : Question) (rd : Bool) :
    ∃ l, (queryNameserver oracle run addr port q rd).1.log = run.log ++ l ∧
      (l = [] ∨ l = [mx_udpEx addr port q rd] ∨ l = [mx_tcpEx addr port q rd] ∨
       l = [mx_udpEx addr port q rd, mx_tcpEx addr port q rd]) := by
  rcases mx_queryNameserver_cases oracle run addr port q rd with ⟨_, m, _, _, h⟩ | ⟨_, _, h⟩ | ⟨_, h⟩
  · rw [h]
    rcases c08_attempt_log oracle run (mx_udpEx addr port q rd) with h1 | h1
    · exact ⟨[], by simp [h1], Or.inl rfl⟩
    · exact ⟨[_], h1, Or.inr (Or.inl rfl)⟩
  · rw [h]
    rcases c08_attempt_log oracle run (mx_udpEx addr port q rd) with h1 | h1 <;>
    rcases c08_attempt_log oracle (attempt oracle run (mx_udpEx addr port q rd)).1 (mx_tcpEx addr port q rd) with h2 | h2
    · exact ⟨[], by simp [h2, h1], Or.inl rfl⟩
    · exact ⟨[_], by rw [h2, h1], Or.inr (Or.inr (Or.inl rfl))⟩
    · exact ⟨[_], by rw [h2, h1], Or.inr (Or.inl rfl)⟩
    · exact ⟨[_, _], by rw [h2, h1]; simp, Or.inr (Or.inr (Or.inr rfl))⟩
  · rw [h]
    rcases c08_attempt_log oracle run (mx_tcpEx addr port q rd) with h1 | h1
    · exact ⟨[], by simp [h1], Or.inl rfl⟩
    · exact ⟨[_], h1, Or.inr (Or.inr (Or.inl rfl))⟩
end Resolved
