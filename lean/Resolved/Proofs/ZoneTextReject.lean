/-
  C11: the entry loop of `Zone::deserialise` as a step relation, "anywhere in the file" contexts,
  and the rejections.
-/
import Resolved.Proofs.ZoneTextShapes

namespace Resolved.ZoneText

open Resolved Resolved.IpText Gen

/-! ## the loop as steps -/

/-- outcome of one iteration of the `while let Some(entry) = parse_entry(..)?` loop. -/
inductive Step where
  | stop (r : Except Error DState)          -- the loop ends: an error, or the end of the stream
  | cont (st : DState) (rest : List Char)   -- an entry was consumed
deriving Repr

/-- the body of the loop for one parsed entry. -/
def entryStep (st : DState) (entry : Entry) (rest : List Char) : Step :=
  match entry with
  | .origin name => .cont { st with origin := some name } rest
  | .include _ _ => .stop (.error .includeNotSupported)
  | .rr rr =>
    let st := { st with previousDomain := some (.normal rr.name), previousTtl := some rr.ttl }
    match soaOfRR rr with
    | some soa =>
      if st.apexAndSoa.isSome then .stop (.error .multipleSOA)
      else .cont { st with apexAndSoa := some (rr.name, soa) } rest
    | none => .cont { st with rrs := rr :: st.rrs } rest
  | .wildcardRR rr =>
    let st := { st with previousDomain := some (.wildcard rr.name), previousTtl := some rr.ttl }
    if rr.rtype == RT_SOA then .stop (.error .wildcardSOA)
    else .cont { st with wildcardRrs := rr :: st.wildcardRrs } rest

/-- one iteration (`none` only if `parseEntry` ran out of fuel, which it does not). -/
def loopStep (st : DState) (stream : List Char) : Option Step :=
  match parseEntry (stream.length + 1) st.origin st.previousDomain st.previousTtl stream with
  | .outOfFuel => none
  | .err e => some (.stop (.error e))
  | .ok none _ => some (.stop (.ok st))
  | .ok (some entry) rest => some (entryStep st entry rest)

theorem deserialiseLoop_succ (fuel : Nat) (st : DState) (stream : List Char) :
    deserialiseLoop (fuel + 1) st stream =
      match loopStep st stream with
      | none => none
      | some (.stop r) => some r
      | some (.cont st' rest) => deserialiseLoop fuel st' rest := by
  simp only [deserialiseLoop, loopStep]
  cases hp : parseEntry (stream.length + 1) st.origin st.previousDomain st.previousTtl stream with
  | outOfFuel => rfl
  | err e => rfl
  | ok e rest =>
    cases e with
    | none => rfl
    | some entry =>
      simp only [entryStep]
      cases entry with
      | origin name => rfl
      | «include» p oo => rfl
      | rr rr =>
        simp only
        cases soaOfRR rr with
        | none => rfl
        | some soa =>
          simp only
          by_cases h : st.apexAndSoa.isSome = true
          · simp [h]
          · simp [h]
      | wildcardRR rr =>
        simp only
        by_cases h : (rr.rtype == RT_SOA) = true
        · simp [h]
        · simp [h]

theorem loopStep_ne_none (st : DState) (stream : List Char) : loopStep st stream ≠ none := by
  unfold loopStep
  split
  · rename_i h
    exact absurd h (parseEntry_fuel_suffices _ _ _ _ _ (by omega))
  all_goals simp

/-- a continuing step consumes at least one char. -/
theorem loopStep_cont_lt {st st' : DState} {stream rest : List Char}
    (h : loopStep st stream = some (.cont st' rest)) : rest.length < stream.length := by
  unfold loopStep at h
  split at h
  · cases h
  · cases h
  · cases h
  · rename_i entry rest' hp
    have hlt := (parseEntry_rest _ _ _ _ _ _ _ hp).2 rfl
    have : rest = rest' := by
      simp only [Option.some.injEq] at h
      unfold entryStep at h
      cases entry with
      | origin name => simp only at h; cases h; rfl
      | «include» p oo => simp only at h; cases h
      | rr rr =>
        simp only at h
        split at h
        · split at h
          · cases h
          · cases h; rfl
        · cases h; rfl
      | wildcardRR rr =>
        simp only at h
        split at h
        · cases h
        · cases h; rfl
    rw [this]; exact hlt

/-- the result of the loop does not depend on the fuel once there is enough of it. -/
theorem deserialiseLoop_fuel_irrelevant (f : Nat) :
    ∀ (g : Nat) (st : DState) (s : List Char), s.length < f → s.length < g →
      deserialiseLoop f st s = deserialiseLoop g st s := by
  induction f with
  | zero => intro g st s h; omega
  | succ f ih =>
    intro g st s hf hg
    cases g with
    | zero => omega
    | succ g =>
      rw [deserialiseLoop_succ, deserialiseLoop_succ]
      cases hs : loopStep st s with
      | none => rfl
      | some step =>
        cases step with
        | stop r => rfl
        | cont st' rest =>
          have := loopStep_cont_lt hs
          exact ih g st' rest (by omega) (by omega)

/-! ## contexts: any position of the file -/

/-- `Reach data st s`: reading `data` from the start, the loop arrives with local state `st` in front
    of the remaining stream `s` — "anywhere in the file, after anything". -/
inductive Reach (data : List Char) : DState → List Char → Prop where
  | start : Reach data {} data
  | next {st st' : DState} {s rest : List Char} :
      Reach data st s → loopStep st s = some (.cont st' rest) → Reach data st' rest

theorem reach_loop {data : List Char} {st : DState} {s : List Char} (h : Reach data st s) :
    ∀ f, s.length < f → deserialiseLoop (data.length + 1) {} data = deserialiseLoop f st s := by
  induction h with
  | start => intro f hf; exact deserialiseLoop_fuel_irrelevant _ _ _ _ (by omega) hf
  | next hr hstep ih =>
    rename_i st st' s rest
    intro f hf
    rw [ih (s.length + 1) (by omega), deserialiseLoop_succ, hstep]
    exact deserialiseLoop_fuel_irrelevant _ _ _ _ (loopStep_cont_lt hstep) hf

/-- **an error anywhere is the result of the whole file**: nothing is loaded in part. -/
theorem reach_error {data : List Char} {st : DState} {s : List Char} (h : Reach data st s) {e : Error}
    (hstep : loopStep st s = some (.stop (.error e))) : ∃ e', deserialise data = .err e' ∧ e' = e := by
  refine ⟨e, ?_, rfl⟩
  unfold deserialise
  rw [reach_loop h (s.length + 1) (by omega), deserialiseLoop_succ, hstep]

theorem reach_end {data : List Char} {st : DState} {s : List Char} (h : Reach data st s)
    (hstep : loopStep st s = some (.stop (.ok st))) : deserialise data = buildZone st := by
  unfold deserialise
  rw [reach_loop h (s.length + 1) (by omega), deserialiseLoop_succ, hstep]

/-! ## the rejections -/

theorem sINCLUDE_ne_sORIGIN : sINCLUDE ≠ sORIGIN := by decide

theorem parseInclude_shape (o : Option Name) (tokens : List Token) :
    (∃ e, parseInclude o tokens = .error e) ∨ ∃ p oo, parseInclude o tokens = .ok (.include p oo) := by
  unfold parseInclude
  split
  · split
    · exact Or.inl ⟨_, rfl⟩
    · exact Or.inr ⟨_, _, rfl⟩
  · split
    · exact Or.inl ⟨_, rfl⟩
    · split
      · exact Or.inr ⟨_, _, rfl⟩
      · exact Or.inl ⟨_, rfl⟩
  · exact Or.inl ⟨_, rfl⟩

/-- **`$INCLUDE` anywhere ⇒ error**: an entry whose first token is `$INCLUDE` stops the loop with an
    error (`IncludeNotSupported`, or the error of a malformed directive). -/
theorem loopStep_include (st : DState) (s : List Char) (t0 : Token) (ts : List Token) (rest : List Char)
    (htok : tokeniseEntry s = .ok (t0 :: ts, rest)) (h0 : t0.1 = sINCLUDE) :
    ∃ e, loopStep st s = some (.stop (.error e)) := by
  unfold loopStep
  simp only [parseEntry, htok, h0, sINCLUDE_ne_sORIGIN, if_false, if_true]
  rcases parseInclude_shape st.origin (t0 :: ts) with ⟨e, he⟩ | ⟨p, oo, he⟩
  · rw [he]; exact ⟨e, rfl⟩
  · rw [he]; exact ⟨_, rfl⟩

/-- **a second SOA ⇒ `MultipleSOA`**. -/
theorem loopStep_second_soa (st : DState) (s rest : List Char) (rr : RR) (soa : SOA)
    (hp : parseEntry (s.length + 1) st.origin st.previousDomain st.previousTtl s = .ok (some (.rr rr)) rest)
    (hsoa : soaOfRR rr = some soa) (hhave : st.apexAndSoa.isSome = true) :
    loopStep st s = some (.stop (.error .multipleSOA)) := by
  unfold loopStep
  rw [hp]
  simp [entryStep, hsoa, hhave]

/-- **a wildcard SOA ⇒ `WildcardSOA`**. -/
theorem loopStep_wildcard_soa (st : DState) (s rest : List Char) (rr : RR)
    (hp : parseEntry (s.length + 1) st.origin st.previousDomain st.previousTtl s = .ok (some (.wildcardRR rr)) rest)
    (hsoa : rr.rtype = RT_SOA) :
    loopStep st s = some (.stop (.error .wildcardSOA)) := by
  unfold loopStep
  rw [hp]
  simp [entryStep, hsoa]

/-- `Zone::insert` keeps the apex. -/
theorem Zone.insert_apex {z z' : Zone} {name : Name} {rtype : Nat} {fields : List FieldVal} {ttl : Nat}
    {wild : Bool} (h : z.insert name rtype fields ttl wild = some z') : z'.apex = z.apex := by
  unfold Zone.insert at h
  split at h
  · split at h
    · cases h; rfl
    · cases h
  · cases h; rfl

/-- a record outside the apex makes the insertion loop fail: it never returns a zone. -/
theorem insertAll_outside (wild : Bool) (rrs : List RR) :
    ∀ (z : Zone), (∃ rr ∈ rrs, rr.name.isSubdomainOf z.apex = false) →
      ∀ z', insertAll wild z rrs ≠ .ok z' := by
  induction rrs with
  | nil => intro z ⟨rr, hrr, _⟩; simp at hrr
  | cons r rest ih =>
    intro z ⟨rr, hrr, hout⟩ z' hres
    simp only [insertAll] at hres
    by_cases hsub : r.name.isSubdomainOf z.apex = true
    · simp only [hsub, Bool.not_true, Bool.false_eq_true, if_false] at hres
      cases hins : z.insert r.name r.rtype r.fields r.ttl wild with
      | none => rw [hins] at hres; cases hres
      | some zz =>
        rw [hins] at hres
        have hapex := Zone.insert_apex hins
        simp only [List.mem_cons] at hrr
        rcases hrr with h | h
        · subst h; rw [hsub] at hout; cases hout
        · exact ih zz ⟨rr, h, by rw [hapex]; exact hout⟩ z' hres
    · have : r.name.isSubdomainOf z.apex = false := by simpa using hsub
      simp [this] at hres

/-- precisely: the first record outside the apex gives `NotSubdomainOfApex` (records before it are
    inserted, but the partly built zone is dropped). -/
theorem insertAll_first_outside (wild : Bool) (z : Zone) (rr : RR) (rest : List RR)
    (h : rr.name.isSubdomainOf z.apex = false) :
    (match insertAll wild z (rr :: rest) with | .err .notSubdomainOfApex => True | _ => False) := by
  simp [insertAll, h]

theorem insertAll_apex (wild : Bool) (rrs : List RR) :
    ∀ (z z' : Zone), insertAll wild z rrs = .ok z' → z'.apex = z.apex := by
  induction rrs with
  | nil => intro z z' h; simp only [insertAll] at h; cases h; rfl
  | cons r rest ih =>
    intro z z' h
    simp only [insertAll] at h
    split at h
    · cases h
    · cases hins : z.insert r.name r.rtype r.fields r.ttl wild with
      | none => rw [hins] at h; cases h
      | some zz =>
        rw [hins] at h
        rw [ih zz z' h, Zone.insert_apex hins]

/-- the apex `Zone::deserialise` settles on: the owner of the SOA, or the root. -/
def DState.apex (st : DState) : Name :=
  match st.apexAndSoa with
  | some (apex, _) => apex
  | none => Name.root

theorem Zone.new_apex (apex : Name) (soa : Option SOA) : (Zone.new apex soa).apex = apex := by
  unfold Zone.new
  cases soa with
  | none => rfl
  | some s => simp only; split <;> rfl

/-- the two insertion loops after the entry loop. -/
def insertBoth (z0 : Zone) (rrs wrrs : List RR) : DResult :=
  match insertAll false z0 rrs with
  | .ok zone => insertAll true zone wrrs
  | r => r

theorem buildZone_eq (st : DState) :
    buildZone st = insertBoth (match st.apexAndSoa with
      | some (apex, soa) => Zone.new apex (some soa)
      | none => Zone.default) st.rrs.reverse st.wildcardRrs.reverse := by
  unfold buildZone insertBoth
  cases st.apexAndSoa with
  | none => rfl
  | some p => rfl

theorem insertBoth_outside (z0 : Zone) (rrs wrrs : List RR)
    (h : ∃ rr, (rr ∈ rrs ∨ rr ∈ wrrs) ∧ rr.name.isSubdomainOf z0.apex = false) :
    ∀ z, insertBoth z0 rrs wrrs ≠ .ok z := by
  intro z hres
  obtain ⟨rr, hmem, hout⟩ := h
  unfold insertBoth at hres
  split at hres
  · rename_i z1 h1
    have ha1 := insertAll_apex _ _ _ _ h1
    rcases hmem with hm | hm
    · exact insertAll_outside false _ _ ⟨rr, hm, hout⟩ _ h1
    · exact insertAll_outside true _ _ ⟨rr, hm, by rw [ha1]; exact hout⟩ _ hres
  · rename_i r hne
    exact hne _ hres

/-- **a record (ordinary or wildcard) outside the apex ⇒ no zone**: `Zone::deserialise` ends in an
    error (`NotSubdomainOfApex`, see `insertAll_first_outside`), never in a partly loaded zone. -/
theorem buildZone_outside (st : DState)
    (h : ∃ rr, (rr ∈ st.rrs ∨ rr ∈ st.wildcardRrs) ∧ rr.name.isSubdomainOf st.apex = false) :
    ∀ z, buildZone st ≠ .ok z := by
  rw [buildZone_eq]
  apply insertBoth_outside
  obtain ⟨rr, hmem, hout⟩ := h
  refine ⟨rr, by simpa using hmem, ?_⟩
  unfold DState.apex at hout
  cases hst : st.apexAndSoa with
  | none => rw [hst] at hout; exact hout
  | some p =>
    rw [hst] at hout
    simp only [Zone.new_apex]
    exact hout

/-- **a relative name with no origin ⇒ `ExpectedOrigin`**: `@`, and any non-empty ASCII name that
    does not end with a dot. -/
theorem parseDomain_no_origin (s : List Char) (hne : s ≠ []) (hascii : s.all isAscii = true)
    (hrel : s.getLast? ≠ some '.') : parseDomain none s = .error .expectedOrigin := by
  unfold parseDomain
  have h1 : s.isEmpty = false := by cases s <;> simp_all
  simp only [h1, hascii, Bool.false_eq_true, if_false, Bool.not_true]
  split
  · rfl
  · split
    · rename_i h; simp at h; exact absurd h hne
    · rename_i last hl
      have : last ≠ '.' := by intro he; subst he; exact hrel hl
      simp [this]

theorem parseDomainOrWildcard_star_no_origin : parseDomainOrWildcard none ['*'] = .error .expectedOrigin := rfl

/-- **no TTL to inherit, not a SOA ⇒ `MissingTTL`**. -/
theorem withInheritedTtl_none (w : MaybeWildcard) (rd : RData) (h : rd.isSOA = false) :
    withInheritedTtl w rd none = .error .missingTTL := by
  simp [withInheritedTtl, h]

/-- a SOA needs no TTL (its TTL is its MINIMUM). -/
theorem withInheritedTtl_soa (w : MaybeWildcard) (rd : RData) (h : rd.isSOA = true) :
    withInheritedTtl w rd none = .ok (toRr w rd 0) := by
  simp [withInheritedTtl, h]

/-- **a class other than `IN` in an explicit class position ⇒ error** — between TTL and type, in
    either order (`<domain> <ttl> <class> <type>`, `<domain> <class> <ttl> <type>`) … -/
theorem class_not_IN_four (o : Option Name) (pd : Option MaybeWildcard) (pt : Option Nat)
    (d a b ty : Token) (rd : List Token) (rdat : RData)
    (hty : tryParseRtypeWithData o (ty :: rd) = some rdat) (ha : a.1 ≠ sIN) (hb : b.1 ≠ sIN) :
    ∃ e, parseRr o pd pt (d :: a :: b :: ty :: rd) = .error e := by
  simp only [parseRr, List.isEmpty_cons, Bool.false_eq_true, if_false, parseRr4, hty, ha, hb]
  split <;> exact ⟨_, rfl⟩

/-- … and directly after the owner (`<domain> <class> <type>`): the class token is then read as a
    TTL and is not a number. -/
theorem class_not_IN_three (o : Option Name) (pd : Option MaybeWildcard) (pt : Option Nat)
    (d c ty : Token) (rd : List Token) (rdat : RData)
    (hty : tryParseRtypeWithData o (ty :: rd) = some rdat) (hrd : NoType rd)
    (hc : c.1 ≠ sIN) (hcnum : parseU32 c.1 = none) (hd : d.1 ≠ sIN) :
    ∃ e, parseRr o pd pt (d :: c :: ty :: rd) = .error e := by
  have h4 : parseRr4 o (d :: c :: ty :: rd) = none := by
    cases rd with
    | nil => rfl
    | cons r rs => simp [parseRr4, tryParse_noType o _ hrd]
  simp only [parseRr, List.isEmpty_cons, Bool.false_eq_true, if_false, h4, parseRr3, hty, hc, hd,
    parseU32E, hcnum]
  split <;> exact ⟨_, rfl⟩

end Resolved.ZoneText
