/-
  Hosts ↔ Zone conversion (`impl From<Hosts> for Zone`, `impl TryFrom<Zone> for Hosts`):
  conversion never panics on well-formed names, the zone holds exactly the mappings, converting
  back gives the same maps, and every mapping resolves to its address.

  Architecture
    * `insR` / `nodeAtR`: structural versions of `ZNode.insert` / tree descent over the REVERSED
      relative name (label closest to the apex first); `ZNode.insert_eq_insR`, `resolve_nodeAtR`
      connect them with the well-founded `getLast?`/`dropLast` recursions of the model.
    * `TreeOK`: tree invariant (names of children extend the parent's name, no wildcards, distinct
      child keys, distinct record-type keys).
    * `recsAt node p`: the record map stored at reversed path `p` (`[]` when absent), characterised
      after an insert; `recCount`: number of records in a tree = length of the flattened
      `allRecords`.
    * `ZInv m4 m6 z`: "zone `z` is what the mappings `m4`, `m6` build"; preserved by the two folds
      of `Hosts.toZone`.
-/
import Resolved.Props.C16
import Resolved.Spec.HostsSpec

namespace Resolved

open Gen

/-! ## association lists -/

theorem RecMap.get_set (m : RecMap) (k k' : Nat) (v : List ZoneRecord) :
    (m.set k v).get k' = if k' = k then some v else m.get k' := by
  induction m with
  | nil =>
    simp only [RecMap.set, RecMap.get]
    by_cases h : k' = k
    · simp [h]
    · have : ¬ k = k' := fun e => h e.symm
      simp [h, this]
  | cons kv rest ih =>
    obtain ⟨k0, v0⟩ := kv
    simp only [RecMap.set]
    by_cases h0 : k0 = k
    · subst h0
      simp only [if_true, RecMap.get]
      by_cases h : k0 = k'
      · simp [h]
      · have : ¬ k' = k0 := fun e => h e.symm
        simp [h, this]
    · simp only [h0, if_false, RecMap.get]
      by_cases h : k0 = k'
      · subst h; simp [h0]
      · simp only [h, if_false]; exact ih

/-- number of records in a record map -/
def rcount (m : RecMap) : Nat := (m.flatMap (·.2)).length

@[simp] theorem rcount_nil : rcount [] = 0 := rfl
@[simp] theorem rcount_cons (kv : Nat × List ZoneRecord) (m : RecMap) :
    rcount (kv :: m) = kv.2.length + rcount m := by
  simp [rcount]

theorem rcount_set_none (m : RecMap) (k : Nat) (v : List ZoneRecord) (h : m.get k = none) :
    rcount (m.set k v) = rcount m + v.length := by
  induction m with
  | nil => simp [RecMap.set]
  | cons kv rest ih =>
    obtain ⟨k0, v0⟩ := kv
    simp only [RecMap.get] at h
    by_cases h0 : k0 = k
    · simp [h0] at h
    · simp only [h0, if_false] at h
      simp only [RecMap.set, h0, if_false, rcount_cons, ih h]
      omega

theorem rcount_set_some (m : RecMap) (k : Nat) (v v' : List ZoneRecord) (h : m.get k = some v') :
    rcount (m.set k v) + v'.length = rcount m + v.length := by
  induction m with
  | nil => simp [RecMap.get] at h
  | cons kv rest ih =>
    obtain ⟨k0, v0⟩ := kv
    simp only [RecMap.get] at h
    by_cases h0 : k0 = k
    · simp only [h0, if_true, Option.some.injEq] at h
      subst h
      simp only [RecMap.set, h0, if_true, rcount_cons]
      omega
    · simp only [h0, if_false] at h
      simp only [RecMap.set, h0, if_false, rcount_cons]
      have := ih h
      omega

/-- the keys of a record map are distinct -/
def RecMapOK (m : RecMap) : Prop := (m.map (·.1)).Nodup

theorem RecMap.get_of_mem (m : RecMap) (hm : RecMapOK m) (k : Nat) (v : List ZoneRecord)
    (h : (k, v) ∈ m) : m.get k = some v := by
  induction m with
  | nil => cases h
  | cons kv rest ih =>
    obtain ⟨k0, v0⟩ := kv
    simp only [RecMapOK, List.map_cons, List.nodup_cons] at hm
    simp only [List.mem_cons, Prod.mk.injEq] at h
    simp only [RecMap.get]
    rcases h with ⟨rfl, rfl⟩ | h
    · simp
    · have : k0 ≠ k := by
        intro e; subst e
        exact hm.1 (List.mem_map.mpr ⟨(k0, v), h, rfl⟩)
      simp only [this, if_false]
      exact ih hm.2 h

theorem RecMap.keys_set (m : RecMap) (k : Nat) (v : List ZoneRecord) :
    (m.set k v).map (·.1) = if (m.get k).isSome then m.map (·.1) else m.map (·.1) ++ [k] := by
  induction m with
  | nil => simp [RecMap.set, RecMap.get]
  | cons kv rest ih =>
    obtain ⟨k0, v0⟩ := kv
    by_cases h0 : k0 = k
    · simp [RecMap.set, RecMap.get, h0]
    · simp only [RecMap.set, h0, if_false, List.map_cons, ih, RecMap.get]
      split <;> simp

theorem RecMap.get_none_not_mem (m : RecMap) (k : Nat) (h : m.get k = none) :
    k ∉ m.map (·.1) := by
  induction m with
  | nil => simp
  | cons kv rest ih =>
    obtain ⟨k0, v0⟩ := kv
    simp only [RecMap.get] at h
    by_cases h0 : k0 = k
    · simp [h0] at h
    · simp only [h0, if_false] at h
      simp only [List.map_cons, List.mem_cons, not_or]
      exact ⟨fun e => h0 e.symm, ih h⟩

theorem RecMapOK_set (m : RecMap) (hm : RecMapOK m) (k : Nat) (v : List ZoneRecord) :
    RecMapOK (m.set k v) := by
  unfold RecMapOK at *
  rw [RecMap.keys_set]
  cases hg : m.get k with
  | some x => simpa using hm
  | none =>
    simp only [Option.isSome_none, Bool.false_eq_true, if_false]
    rw [List.nodup_append]
    refine ⟨hm, by simp, ?_⟩
    intro a ha b hb
    simp at hb; subst hb
    intro e; subst e
    exact RecMap.get_none_not_mem m a hg ha

theorem RecMapOK_insertRecord (m : RecMap) (hm : RecMapOK m) (zr : ZoneRecord) :
    RecMapOK (m.insertRecord zr) := by
  unfold RecMap.insertRecord
  split
  · split
    · exact hm
    · exact RecMapOK_set _ hm _ _
  · exact RecMapOK_set _ hm _ _

theorem RecMap.get_insertRecord_fresh (m : RecMap) (zr : ZoneRecord) (h : m.get zr.rtype = none)
    (k : Nat) : (m.insertRecord zr).get k = if k = zr.rtype then some [zr] else m.get k := by
  unfold RecMap.insertRecord
  rw [h]
  exact RecMap.get_set _ _ _ _

theorem rcount_insertRecord_fresh (m : RecMap) (zr : ZoneRecord) (h : m.get zr.rtype = none) :
    rcount (m.insertRecord zr) = rcount m + 1 := by
  unfold RecMap.insertRecord
  rw [h]
  simpa using rcount_set_none m zr.rtype [zr] h

/-! ## children lists -/

theorem childGet_childSet (cs : List (Label × ZNode)) (l l' : Label) (c : ZNode) :
    ZNode.childGet (ZNode.childSet cs l c) l' = if l' = l then some c else ZNode.childGet cs l' := by
  induction cs with
  | nil =>
    simp only [ZNode.childSet, ZNode.childGet]
    by_cases h : l' = l
    · simp [h]
    · have : ¬ l = l' := fun e => h e.symm
      simp [h, this]
  | cons kv rest ih =>
    obtain ⟨k0, v0⟩ := kv
    simp only [ZNode.childSet]
    by_cases h0 : k0 = l
    · subst h0
      simp only [if_true, ZNode.childGet]
      by_cases h : k0 = l'
      · simp [h]
      · have : ¬ l' = k0 := fun e => h e.symm
        simp [h, this]
    · simp only [h0, if_false, ZNode.childGet]
      by_cases h : k0 = l'
      · subst h; simp [h0]
      · simp only [h, if_false]; exact ih

theorem childGet_mem (cs : List (Label × ZNode)) (l : Label) (c : ZNode)
    (h : ZNode.childGet cs l = some c) : (l, c) ∈ cs := by
  induction cs with
  | nil => simp [ZNode.childGet] at h
  | cons kv rest ih =>
    obtain ⟨k0, v0⟩ := kv
    simp only [ZNode.childGet] at h
    by_cases h0 : k0 = l
    · simp only [h0, if_true, Option.some.injEq] at h
      simp [h0, h]
    · simp only [h0, if_false] at h
      exact List.mem_cons_of_mem _ (ih h)

theorem childGet_of_mem (cs : List (Label × ZNode)) (hn : (cs.map (·.1)).Nodup) (l : Label)
    (c : ZNode) (h : (l, c) ∈ cs) : ZNode.childGet cs l = some c := by
  induction cs with
  | nil => cases h
  | cons kv rest ih =>
    obtain ⟨k0, v0⟩ := kv
    simp only [List.map_cons, List.nodup_cons] at hn
    simp only [List.mem_cons, Prod.mk.injEq] at h
    simp only [ZNode.childGet]
    rcases h with ⟨rfl, rfl⟩ | h
    · simp
    · have : k0 ≠ l := by
        intro e; subst e
        exact hn.1 (List.mem_map.mpr ⟨(k0, c), h, rfl⟩)
      simp only [this, if_false]
      exact ih hn.2 h

theorem childGet_none_not_mem (cs : List (Label × ZNode)) (l : Label)
    (h : ZNode.childGet cs l = none) : l ∉ cs.map (·.1) := by
  induction cs with
  | nil => simp
  | cons kv rest ih =>
    obtain ⟨k0, v0⟩ := kv
    simp only [ZNode.childGet] at h
    by_cases h0 : k0 = l
    · simp [h0] at h
    · simp only [h0, if_false] at h
      simp only [List.map_cons, List.mem_cons, not_or]
      exact ⟨fun e => h0 e.symm, ih h⟩

theorem childSet_keys (cs : List (Label × ZNode)) (l : Label) (c : ZNode) :
    (ZNode.childSet cs l c).map (·.1) =
      if (ZNode.childGet cs l).isSome then cs.map (·.1) else cs.map (·.1) ++ [l] := by
  induction cs with
  | nil => simp [ZNode.childSet, ZNode.childGet]
  | cons kv rest ih =>
    obtain ⟨k0, v0⟩ := kv
    by_cases h0 : k0 = l
    · simp [ZNode.childSet, ZNode.childGet, h0]
    · simp only [ZNode.childSet, h0, if_false, List.map_cons, ih, ZNode.childGet]
      split <;> simp

theorem childSet_keys_nodup (cs : List (Label × ZNode)) (hn : (cs.map (·.1)).Nodup) (l : Label)
    (c : ZNode) : ((ZNode.childSet cs l c).map (·.1)).Nodup := by
  rw [childSet_keys]
  cases hg : ZNode.childGet cs l with
  | some x => simpa using hn
  | none =>
    simp only [Option.isSome_none, Bool.false_eq_true, if_false]
    rw [List.nodup_append]
    refine ⟨hn, by simp, ?_⟩
    intro a ha b hb
    simp at hb; subst hb
    intro e; subst e
    exact childGet_none_not_mem cs a hg ha

theorem mem_childSet (cs : List (Label × ZNode)) (l : Label) (c : ZNode) (x : Label × ZNode)
    (h : x ∈ ZNode.childSet cs l c) : x = (l, c) ∨ x ∈ cs := by
  induction cs with
  | nil => simp [ZNode.childSet] at h; exact Or.inl h
  | cons kv rest ih =>
    obtain ⟨k0, v0⟩ := kv
    simp only [ZNode.childSet] at h
    by_cases h0 : k0 = l
    · simp only [h0, if_true, List.mem_cons] at h
      rcases h with h | h
      · exact Or.inl h
      · exact Or.inr (List.mem_cons_of_mem _ h)
    · simp only [h0, if_false, List.mem_cons] at h
      rcases h with h | h
      · exact Or.inr (by simp [h])
      · rcases ih h with h | h
        · exact Or.inl h
        · exact Or.inr (List.mem_cons_of_mem _ h)

/-! ## structural insert / descent over the reversed relative name -/

/-- `ZoneRecords::insert` (non-wildcard) by structural recursion on the reversed relative name. -/
def insR (zr : ZoneRecord) : List Label → ZNode → Option ZNode
  | [], node => some (.mk node.nsdname (node.this.insertRecord zr) node.wildcards node.children)
  | l :: rest, node =>
    match ZNode.childGet node.children l with
    | some child =>
      match insR zr rest child with
      | some child' =>
        some (.mk node.nsdname node.this node.wildcards (ZNode.childSet node.children l child'))
      | none => none
    | none =>
      match Name.fromLabels (l :: node.nsdname.labels) with
      | none => none
      | some nsd =>
        match insR zr rest (ZNode.new nsd) with
        | some child' =>
          some (.mk node.nsdname node.this node.wildcards (ZNode.childSet node.children l child'))
        | none => none

/-- the node reached by descending along the reversed relative name. -/
def nodeAtR : List Label → ZNode → Option ZNode
  | [], node => some node
  | l :: rest, node =>
    match ZNode.childGet node.children l with
    | some child => nodeAtR rest child
    | none => none

/-- the records stored at a reversed relative name (`[]` when there is no such node). -/
def recsAt (node : ZNode) (p : List Label) : RecMap :=
  match nodeAtR p node with
  | some n => n.this
  | none => []

theorem ZNode.insert_rev (zr : ZoneRecord) (p : List Label) :
    ∀ node : ZNode, node.insert p.reverse zr false = insR zr p node := by
  induction p with
  | nil =>
    intro node
    rw [ZNode.insert]
    split
    · simp [insR]
    · rename_i h; simp at h
  | cons l rest ih =>
    intro node
    rw [ZNode.insert]
    split
    · rename_i h; simp at h
    · rename_i lbl h
      have hl : lbl = l := by simpa using h.symm
      subst hl
      have hd : (lbl :: rest).reverse.dropLast = rest.reverse := by simp
      simp only [hd, ih, insR]
      rfl

theorem ZNode.insert_eq_insR (node : ZNode) (rel : List Label) (zr : ZoneRecord) :
    node.insert rel zr false = insR zr rel.reverse node := by
  rw [← ZNode.insert_rev, List.reverse_reverse]

theorem resolve_nodeAtR (name : Name) (qtype : Nat) (p : List Label) :
    ∀ (node : ZNode) (isApex : Bool) (n : ZNode), nodeAtR p node = some n →
      ∃ cd, node.resolve name qtype p.reverse isApex = zoneResultHelper name qtype n.this n.nsdname cd := by
  induction p with
  | nil =>
    intro node isApex n h
    simp only [nodeAtR, Option.some.injEq] at h
    subst h
    rw [ZNode.resolve]
    split
    · exact ⟨_, rfl⟩
    · rename_i h; simp at h
  | cons l rest ih =>
    intro node isApex n h
    rw [ZNode.resolve]
    split
    · rename_i h; simp at h
    · rename_i lbl h'
      have hl : lbl = l := by simpa using h'.symm
      subst hl
      have hd : (lbl :: rest).reverse.dropLast = rest.reverse := by simp
      simp only [nodeAtR] at h
      cases hc : ZNode.childGet node.children lbl with
      | none => simp [hc] at h
      | some child =>
        simp only [hc] at h
        simp only [hd]
        exact ih child false n h

@[simp] theorem ZNode.nsdname_mk (a : Name) (b : RecMap) (c : Option RecMap)
    (d : List (Label × ZNode)) : (ZNode.mk a b c d).nsdname = a := rfl
@[simp] theorem ZNode.this_mk (a : Name) (b : RecMap) (c : Option RecMap)
    (d : List (Label × ZNode)) : (ZNode.mk a b c d).this = b := rfl
@[simp] theorem ZNode.wildcards_mk (a : Name) (b : RecMap) (c : Option RecMap)
    (d : List (Label × ZNode)) : (ZNode.mk a b c d).wildcards = c := rfl
@[simp] theorem ZNode.children_mk (a : Name) (b : RecMap) (c : Option RecMap)
    (d : List (Label × ZNode)) : (ZNode.mk a b c d).children = d := rfl

theorem recsAt_nil (node : ZNode) : recsAt node [] = node.this := rfl

theorem recsAt_cons (node : ZNode) (l : Label) (rest : List Label) :
    recsAt node (l :: rest) =
      match ZNode.childGet node.children l with
      | some c => recsAt c rest
      | none => [] := by
  simp only [recsAt, nodeAtR]
  cases ZNode.childGet node.children l <;> rfl

theorem recsAt_new (nsd : Name) (p : List Label) : recsAt (ZNode.new nsd) p = [] := by
  cases p with
  | nil => rfl
  | cons l rest => simp [recsAt_cons, ZNode.new, ZNode.children, ZNode.childGet]

/-- what an insert does to the records stored at every (reversed) relative name -/
theorem recsAt_insR (zr : ZoneRecord) (p : List Label) :
    ∀ node node', insR zr p node = some node' →
      ∀ q, recsAt node' q = if q = p then (recsAt node p).insertRecord zr else recsAt node q := by
  induction p with
  | nil =>
    intro node node' h q
    simp only [insR, Option.some.injEq] at h
    subst h
    cases q with
    | nil => simp [recsAt_nil]
    | cons l' rest' => simp [recsAt_cons]
  | cons l rest ih =>
    intro node node' h q
    simp only [insR] at h
    cases hc : ZNode.childGet node.children l with
    | some child =>
      simp only [hc] at h
      cases hi : insR zr rest child with
      | none => simp [hi] at h
      | some child' =>
        simp only [hi, Option.some.injEq] at h
        subst h
        cases q with
        | nil => simp [recsAt_nil]
        | cons l' rest' =>
          simp only [recsAt_cons, ZNode.children_mk, childGet_childSet]
          by_cases hl : l' = l
          · subst hl
            simp only [if_true, hc, List.cons.injEq, true_and]
            exact ih child child' hi rest'
          · simp [hl]
    | none =>
      simp only [hc] at h
      cases hf : Name.fromLabels (l :: node.nsdname.labels) with
      | none => simp [hf] at h
      | some nsd =>
        simp only [hf] at h
        cases hi : insR zr rest (ZNode.new nsd) with
        | none => simp [hi] at h
        | some child' =>
          simp only [hi, Option.some.injEq] at h
          subst h
          cases q with
          | nil => simp [recsAt_nil]
          | cons l' rest' =>
            simp only [recsAt_cons, ZNode.children_mk, childGet_childSet]
            by_cases hl : l' = l
            · subst hl
              simp only [if_true, hc, List.cons.injEq, true_and]
              have := ih (ZNode.new nsd) child' hi rest'
              simpa [recsAt_new] using this
            · simp [hl]

/-! ## counting records -/

mutual
/-- number of (non-wildcard) records in a tree -/
def recCount : ZNode → Nat
  | .mk _ this _ ch => rcount this + recCountCh ch
def recCountCh : List (Label × ZNode) → Nat
  | [] => 0
  | (_, c) :: rest => recCount c + recCountCh rest
end

theorem recCount_eq (node : ZNode) :
    recCount node = rcount node.this + recCountCh node.children := by
  cases node; simp [recCount, ZNode.this, ZNode.children]

theorem recCount_new (nsd : Name) : recCount (ZNode.new nsd) = 0 := by
  simp [ZNode.new, recCount, recCountCh]

theorem recCountCh_childSet_some (cs : List (Label × ZNode)) (l : Label) (c c' : ZNode)
    (h : ZNode.childGet cs l = some c) :
    recCountCh (ZNode.childSet cs l c') + recCount c = recCountCh cs + recCount c' := by
  induction cs with
  | nil => simp [ZNode.childGet] at h
  | cons kv rest ih =>
    obtain ⟨k0, v0⟩ := kv
    simp only [ZNode.childGet] at h
    by_cases h0 : k0 = l
    · simp only [h0, if_true, Option.some.injEq] at h
      subst h
      simp only [ZNode.childSet, h0, if_true, recCountCh]
      omega
    · simp only [h0, if_false] at h
      simp only [ZNode.childSet, h0, if_false, recCountCh]
      have := ih h
      omega

theorem recCountCh_childSet_none (cs : List (Label × ZNode)) (l : Label) (c' : ZNode)
    (h : ZNode.childGet cs l = none) :
    recCountCh (ZNode.childSet cs l c') = recCountCh cs + recCount c' := by
  induction cs with
  | nil => simp [ZNode.childSet, recCountCh]
  | cons kv rest ih =>
    obtain ⟨k0, v0⟩ := kv
    simp only [ZNode.childGet] at h
    by_cases h0 : k0 = l
    · simp [h0] at h
    · simp only [h0, if_false] at h
      simp only [ZNode.childSet, h0, if_false, recCountCh, ih h]
      omega

theorem recCount_insR (zr : ZoneRecord) (p : List Label) :
    ∀ node node', insR zr p node = some node' →
      recCount node' + rcount (recsAt node p) =
        recCount node + rcount ((recsAt node p).insertRecord zr) := by
  induction p with
  | nil =>
    intro node node' h
    simp only [insR, Option.some.injEq] at h
    subst h
    rw [recCount_eq node]
    simp only [recCount, recsAt_nil]
    omega
  | cons l rest ih =>
    intro node node' h
    simp only [insR] at h
    cases hc : ZNode.childGet node.children l with
    | some child =>
      simp only [hc] at h
      cases hi : insR zr rest child with
      | none => simp [hi] at h
      | some child' =>
        simp only [hi, Option.some.injEq] at h
        subst h
        rw [recCount_eq node]
        simp only [recCount, recsAt_cons, hc]
        have h1 := ih child child' hi
        have h2 := recCountCh_childSet_some node.children l child child' hc
        omega
    | none =>
      simp only [hc] at h
      cases hf : Name.fromLabels (l :: node.nsdname.labels) with
      | none => simp [hf] at h
      | some nsd =>
        simp only [hf] at h
        cases hi : insR zr rest (ZNode.new nsd) with
        | none => simp [hi] at h
        | some child' =>
          simp only [hi, Option.some.injEq] at h
          subst h
          rw [recCount_eq node]
          simp only [recCount, recsAt_cons, hc]
          have h1 := ih (ZNode.new nsd) child' hi
          rw [recsAt_new, recCount_new] at h1
          have h2 := recCountCh_childSet_none node.children l child' hc
          omega

theorem flattenRecords_append (a b : List (Name × List ZoneRecord)) :
    Hosts.flattenRecords (a ++ b) = Hosts.flattenRecords a ++ Hosts.flattenRecords b := by
  simp [Hosts.flattenRecords]

mutual
theorem flatten_length : ∀ node : ZNode,
    (Hosts.flattenRecords node.allRecords).length = recCount node
  | .mk nsd this w ch => by
    simp only [ZNode.allRecords, recCount, flattenRecords_append, List.length_append]
    rw [flatten_length_ch ch]
    congr 1
    unfold rcount
    split
    · rename_i h
      have h' : List.flatMap (·.2) this = [] := by simpa using h
      simp [Hosts.flattenRecords, h']
    · simp [Hosts.flattenRecords]
theorem flatten_length_ch : ∀ ch : List (Label × ZNode),
    (Hosts.flattenRecords (allRecordsChildren ch)).length = recCountCh ch
  | [] => by simp [allRecordsChildren, recCountCh, Hosts.flattenRecords]
  | (_, c) :: rest => by
    simp only [allRecordsChildren, recCountCh, flattenRecords_append, List.length_append]
    rw [flatten_length c, flatten_length_ch rest]
end

/-! ## the tree invariant -/

/-- the recorded length is the encoded length -/
def NameOK (n : Name) : Prop := n.len = n.labels.length + sumLen n.labels

/-- names of children extend the parent's name by the child's key, recorded lengths are right,
    no wildcard records anywhere, distinct child keys, distinct record-type keys. -/
inductive TreeOK : ZNode → Prop
  | mk (nsd : Name) (this : RecMap) (ch : List (Label × ZNode)) :
      NameOK nsd → RecMapOK this → (ch.map (·.1)).Nodup →
      (∀ l c, (l, c) ∈ ch → c.nsdname.labels = l :: nsd.labels) →
      (∀ l c, (l, c) ∈ ch → TreeOK c) →
      TreeOK (.mk nsd this none ch)

theorem TreeOK_new (nsd : Name) (h : NameOK nsd) : TreeOK (ZNode.new nsd) := by
  refine TreeOK.mk nsd [] [] h ?_ ?_ ?_ ?_
  · simp [RecMapOK]
  · simp
  · intro l c hc; cases hc
  · intro l c hc; cases hc

theorem TreeOK.nameOK {node : ZNode} (h : TreeOK node) : NameOK node.nsdname := by
  cases h; simpa

theorem TreeOK.recMapOK {node : ZNode} (h : TreeOK node) : RecMapOK node.this := by
  cases h; simpa

theorem TreeOK.wild {node : ZNode} (h : TreeOK node) : node.wildcards = none := by
  cases h; rfl

theorem TreeOK.child {node : ZNode} (h : TreeOK node) (l : Label) (c : ZNode)
    (hc : ZNode.childGet node.children l = some c) :
    TreeOK c ∧ c.nsdname.labels = l :: node.nsdname.labels := by
  cases h with
  | mk nsd this ch h1 h2 h3 h4 h5 =>
    have := childGet_mem _ _ _ hc
    exact ⟨h5 l c this, h4 l c this⟩

theorem LabelsShape_cons (l : Label) (ls : List Label) (hl : l ≠ []) (h : LabelsShape ls) :
    LabelsShape (l :: ls) := by
  obtain ⟨h1, h2, h3⟩ := h
  cases ls with
  | nil => exact absurd rfl h1
  | cons a as =>
    refine ⟨by simp, by simpa using h2, ?_⟩
    intro x hx
    simp only [List.dropLast_cons_cons, List.mem_cons] at hx
    rcases hx with rfl | hx
    · exact hl
    · exact h3 x hx

/-- an insert along a path of non-empty labels whose full name fits into 255 octets succeeds and
    keeps the invariant -/
theorem insR_ok (zr : ZoneRecord) (p : List Label) :
    ∀ node, TreeOK node → LabelsShape node.nsdname.labels → (∀ l ∈ p, l ≠ []) →
      (p.reverse ++ node.nsdname.labels).length + sumLen (p.reverse ++ node.nsdname.labels)
        ≤ DOMAINNAME_MAX_LEN →
      ∃ node', insR zr p node = some node' ∧ TreeOK node' ∧ node'.nsdname = node.nsdname := by
  induction p with
  | nil =>
    intro node hok _ _ _
    refine ⟨_, rfl, ?_, rfl⟩
    cases hok with
    | mk nsd this ch h1 h2 h3 h4 h5 =>
      exact TreeOK.mk nsd _ ch h1 (RecMapOK_insertRecord _ h2 _) h3 h4 h5
  | cons l rest ih =>
    intro node hok hshape hne hlen
    have hl : l ≠ [] := hne l (by simp)
    have hrest : ∀ x ∈ rest, x ≠ [] := fun x hx => hne x (by simp [hx])
    have hlen' : (rest.reverse ++ (l :: node.nsdname.labels)).length +
        sumLen (rest.reverse ++ (l :: node.nsdname.labels)) ≤ DOMAINNAME_MAX_LEN := by
      simpa [List.append_assoc] using hlen
    have hok0 := hok
    cases hok with
    | mk nsd this ch h1 h2 h3 h4 h5 =>
      simp only [ZNode.nsdname_mk] at hshape hlen'
      simp only [insR, ZNode.children_mk, ZNode.nsdname_mk, ZNode.this_mk, ZNode.wildcards_mk]
      cases hc : ZNode.childGet ch l with
      | some child =>
        obtain ⟨hcok, hcl⟩ := hok0.child l child hc
        simp only [ZNode.nsdname_mk] at hcl
        obtain ⟨child', hi, hok', hnsd'⟩ :=
          ih child hcok (by rw [hcl]; exact LabelsShape_cons l _ hl hshape) hrest
            (by rw [hcl]; exact hlen')
        refine ⟨.mk nsd this none (ZNode.childSet ch l child'), by simp only [hi], ?_, rfl⟩
        refine TreeOK.mk nsd this (ZNode.childSet ch l child') h1 h2
          (childSet_keys_nodup ch h3 l child') ?_ ?_
        · intro l' c' hm
          rcases mem_childSet _ _ _ _ hm with e | hm
          · cases e; rw [hnsd']; exact hcl
          · exact h4 l' c' hm
        · intro l' c' hm
          rcases mem_childSet _ _ _ _ hm with e | hm
          · cases e; exact hok'
          · exact h5 l' c' hm
      | none =>
        have hshape' := LabelsShape_cons l _ hl hshape
        have hb : (l :: nsd.labels).length + sumLen (l :: nsd.labels) ≤ DOMAINNAME_MAX_LEN := by
          simp only [List.length_append, List.length_reverse, List.length_cons, sumLen_append,
            sumLen_cons] at hlen' ⊢
          omega
        have hf := fromLabels_eq (l :: nsd.labels)
        rw [if_pos ⟨hshape', hb⟩] at hf
        simp only [hf]
        obtain ⟨child', hi, hok', hnsd'⟩ :=
          ih (ZNode.new ⟨l :: nsd.labels, (l :: nsd.labels).length + sumLen (l :: nsd.labels)⟩)
            (TreeOK_new _ (by simp [NameOK])) hshape' hrest hlen'
        refine ⟨.mk nsd this none (ZNode.childSet ch l child'), by simp only [hi], ?_, rfl⟩
        refine TreeOK.mk nsd this (ZNode.childSet ch l child') h1 h2
          (childSet_keys_nodup ch h3 l child') ?_ ?_
        · intro l' c' hm
          rcases mem_childSet _ _ _ _ hm with e | hm
          · cases e; rw [hnsd']; rfl
          · exact h4 l' c' hm
        · intro l' c' hm
          rcases mem_childSet _ _ _ _ hm with e | hm
          · cases e; exact hok'
          · exact h5 l' c' hm

/-- descending keeps the invariant and spells the name -/
theorem nodeAtR_ok (p : List Label) :
    ∀ node n, TreeOK node → nodeAtR p node = some n →
      TreeOK n ∧ n.nsdname.labels = p.reverse ++ node.nsdname.labels := by
  induction p with
  | nil =>
    intro node n hok h
    simp only [nodeAtR, Option.some.injEq] at h
    subst h; exact ⟨hok, by simp⟩
  | cons l rest ih =>
    intro node n hok h
    simp only [nodeAtR] at h
    cases hc : ZNode.childGet node.children l with
    | none => simp [hc] at h
    | some child =>
      simp only [hc] at h
      obtain ⟨hcok, hcl⟩ := hok.child l child hc
      obtain ⟨h1, h2⟩ := ih child n hcok h
      exact ⟨h1, by rw [h2, hcl]; simp⟩

/-! ## `allRecords` through `nodeAtR` -/

theorem mem_allRecordsChildren (ch : List (Label × ZNode)) (x : Name × List ZoneRecord) :
    x ∈ allRecordsChildren ch ↔ ∃ l c, (l, c) ∈ ch ∧ x ∈ c.allRecords := by
  induction ch with
  | nil => simp [allRecordsChildren]
  | cons kv rest ih =>
    obtain ⟨k0, v0⟩ := kv
    simp only [allRecordsChildren, List.mem_append, ih, List.mem_cons, Prod.mk.injEq]
    constructor
    · rintro (h | ⟨l, c, hm, hx⟩)
      · exact ⟨k0, v0, Or.inl ⟨rfl, rfl⟩, h⟩
      · exact ⟨l, c, Or.inr hm, hx⟩
    · rintro ⟨l, c, (⟨rfl, rfl⟩ | hm), hx⟩
      · exact Or.inl hx
      · exact Or.inr ⟨l, c, hm, hx⟩

theorem mem_allRecords (node : ZNode) (x : Name × List ZoneRecord) :
    x ∈ node.allRecords ↔
      (x = (node.nsdname, node.this.flatMap (·.2)) ∧ node.this.flatMap (·.2) ≠ []) ∨
      x ∈ allRecordsChildren node.children := by
  cases node with
  | mk nsd this w ch =>
    simp only [ZNode.allRecords, List.mem_append, ZNode.nsdname_mk, ZNode.this_mk,
      ZNode.children_mk]
    by_cases he : (List.flatMap (·.2) this) = []
    · simp [he]
    · have : (List.flatMap (·.2) this).isEmpty = false := by simpa using he
      simp [this, he]

/-- every node reached by descent with a non-empty record map is listed -/
theorem allRecords_of_nodeAtR (p : List Label) :
    ∀ node n, nodeAtR p node = some n → n.this.flatMap (·.2) ≠ [] →
      (n.nsdname, n.this.flatMap (·.2)) ∈ node.allRecords := by
  induction p with
  | nil =>
    intro node n h hne
    simp only [nodeAtR, Option.some.injEq] at h
    subst h
    exact (mem_allRecords _ _).mpr (Or.inl ⟨rfl, hne⟩)
  | cons l rest ih =>
    intro node n h hne
    simp only [nodeAtR] at h
    cases hc : ZNode.childGet node.children l with
    | none => simp [hc] at h
    | some child =>
      simp only [hc] at h
      refine (mem_allRecords _ _).mpr (Or.inr ?_)
      exact (mem_allRecordsChildren _ _).mpr ⟨l, child, childGet_mem _ _ _ hc, ih child n h hne⟩

/-- under the invariant, everything listed sits at a node reached by descent -/
theorem nodeAtR_of_allRecords (node : ZNode) (hok : TreeOK node) :
    ∀ x ∈ node.allRecords, ∃ p n, nodeAtR p node = some n ∧ x = (n.nsdname, n.this.flatMap (·.2)) ∧
      n.this.flatMap (·.2) ≠ [] := by
  induction hok with
  | mk nsd this ch h1 h2 h3 h4 h5 ih =>
    intro x hx
    rcases (mem_allRecords _ _).mp hx with ⟨rfl, hne⟩ | hx
    · exact ⟨[], _, rfl, rfl, hne⟩
    · obtain ⟨l, c, hm, hx⟩ := (mem_allRecordsChildren _ _).mp hx
      obtain ⟨p, n, hp, hxe, hne⟩ := ih l c hm x hx
      refine ⟨l :: p, n, ?_, hxe, hne⟩
      simp only [nodeAtR, ZNode.children_mk, childGet_of_mem ch h3 l c hm]
      exact hp

theorem mem_allWildcardChildren (ch : List (Label × ZNode)) (x : Name × List ZoneRecord) :
    x ∈ allWildcardChildren ch ↔ ∃ l c, (l, c) ∈ ch ∧ x ∈ c.allWildcardRecords := by
  induction ch with
  | nil => simp [allWildcardChildren]
  | cons kv rest ih =>
    obtain ⟨k0, v0⟩ := kv
    simp only [allWildcardChildren, List.mem_append, ih, List.mem_cons, Prod.mk.injEq]
    constructor
    · rintro (h | ⟨l, c, hm, hx⟩)
      · exact ⟨k0, v0, Or.inl ⟨rfl, rfl⟩, h⟩
      · exact ⟨l, c, Or.inr hm, hx⟩
    · rintro ⟨l, c, (⟨rfl, rfl⟩ | hm), hx⟩
      · exact Or.inl hx
      · exact Or.inr ⟨l, c, hm, hx⟩

theorem allWildcardRecords_nil (node : ZNode) (hok : TreeOK node) :
    node.allWildcardRecords = [] := by
  induction hok with
  | mk nsd this ch h1 h2 h3 h4 h5 ih =>
    simp only [ZNode.allWildcardRecords, List.nil_append]
    apply List.eq_nil_iff_forall_not_mem.mpr
    intro x hx
    obtain ⟨l, c, hm, hx⟩ := (mem_allWildcardChildren _ _).mp hx
    rw [ih l c hm] at hx
    cases hx

/-! ## names relative to the root -/

/-- the reversed name relative to the root: labels without the final empty one, apex side first -/
def relR (n : Name) : List Label := n.labels.dropLast.reverse

theorem WFName.labels_eq {n : Name} (h : WFName n) : n.labels = (relR n).reverse ++ [[]] := by
  obtain ⟨ys, hys⟩ := List.getLast?_eq_some_iff.mp h.1.2.1
  simp [relR, hys]

theorem WFName.eq_mk {n : Name} (h : WFName n) :
    n = ⟨n.labels, n.labels.length + sumLen n.labels⟩ := by
  cases n with
  | mk ls len => have := h.2.2.1; simp only at this; simp [this]

theorem relR_inj {n n' : Name} (h : WFName n) (h' : WFName n') (e : relR n = relR n') : n = n' := by
  have hl : n.labels = n'.labels := by rw [h.labels_eq, h'.labels_eq, e]
  rw [h.eq_mk, h'.eq_mk, hl]

theorem name_eq_of_labels {nm n : Name} (hnm : NameOK nm) (h : WFName n)
    (e : nm.labels = (relR n).reverse ++ [[]]) : nm = n := by
  have hl : nm.labels = n.labels := by rw [e, ← h.labels_eq]
  cases nm with
  | mk ls len =>
    simp only [NameOK] at hnm
    simp only at hl
    rw [h.eq_mk, hnm, hl]

theorem relativeDomain_root (z : Zone) (hz : z.apex = Name.root) (n : Name) (h : WFName n) :
    z.relativeDomain n = some (relR n).reverse := by
  unfold Zone.relativeDomain
  rw [hz]
  have hs : n.isSubdomainOf Name.root = true := by
    rw [C16_subdomain_iff_suffix]
    exact ⟨(relR n).reverse, by rw [h.labels_eq]; simp [Name.root]⟩
  rw [if_pos hs]
  have : n.labels.length - Name.root.labels.length = n.labels.length - 1 := by simp [Name.root]
  rw [this, ← List.dropLast_eq_take]
  simp [relR]

/-- the path of a well-formed name consists of non-empty labels and fits into 255 octets -/
theorem WFName.path_ok {n : Name} (h : WFName n) :
    (∀ l ∈ relR n, l ≠ []) ∧
    ((relR n).reverse ++ Name.root.labels).length + sumLen ((relR n).reverse ++ Name.root.labels)
      ≤ DOMAINNAME_MAX_LEN := by
  constructor
  · intro l hl
    simp only [relR, List.mem_reverse] at hl
    exact h.1.2.2 l hl
  · have : (relR n).reverse ++ Name.root.labels = n.labels := by rw [h.labels_eq]; rfl
    rw [this, ← h.2.2.1]
    exact h.2.2.2

/-! ## association lists of addresses -/

theorem AddrMap.get_append_single {α : Type} (m : AddrMap α) (n n' : Name) (a : α) :
    AddrMap.get (m ++ [(n, a)]) n' =
      match AddrMap.get m n' with
      | some x => some x
      | none => if n = n' then some a else none := by
  induction m with
  | nil => simp [AddrMap.get]
  | cons kv rest ih =>
    obtain ⟨k0, v0⟩ := kv
    simp only [List.cons_append, AddrMap.get]
    by_cases h0 : k0 = n'
    · simp [h0]
    · simp only [h0, if_false]; exact ih

theorem AddrMap.get_mem {α : Type} (m : AddrMap α) (n : Name) (a : α) (h : AddrMap.get m n = some a) :
    (n, a) ∈ m := by
  induction m with
  | nil => simp [AddrMap.get] at h
  | cons kv rest ih =>
    obtain ⟨k0, v0⟩ := kv
    simp only [AddrMap.get] at h
    by_cases h0 : k0 = n
    · simp only [h0, if_true, Option.some.injEq] at h
      simp [h0, h]
    · simp only [h0, if_false] at h
      exact List.mem_cons_of_mem _ (ih h)

theorem AddrMap.get_none_of_not_mem {α : Type} (m : AddrMap α) (n : Name)
    (h : n ∉ m.map (·.1)) : AddrMap.get m n = none := by
  induction m with
  | nil => rfl
  | cons kv rest ih =>
    obtain ⟨k0, v0⟩ := kv
    simp only [List.map_cons, List.mem_cons, not_or] at h
    simp only [AddrMap.get]
    have : ¬ k0 = n := fun e => h.1 e.symm
    simp only [this, if_false]
    exact ih h.2

theorem AddrMap.get_insert {α : Type} (m : AddrMap α) (k k' : Name) (v : α) :
    AddrMap.get (AddrMap.insert m k v) k' = if k' = k then some v else AddrMap.get m k' := by
  induction m with
  | nil =>
    simp only [AddrMap.insert, AddrMap.get]
    by_cases h : k' = k
    · simp [h]
    · have : ¬ k = k' := fun e => h e.symm
      simp [h, this]
  | cons kv rest ih =>
    obtain ⟨k0, v0⟩ := kv
    simp only [AddrMap.insert]
    by_cases h0 : k0 = k
    · subst h0
      simp only [if_true, AddrMap.get]
      by_cases h : k0 = k'
      · simp [h]
      · have : ¬ k' = k0 := fun e => h e.symm
        simp [h, this]
    · simp only [h0, if_false, AddrMap.get]
      by_cases h : k0 = k'
      · subst h; simp [h0]
      · simp only [h, if_false]; exact ih

/-! ## record maps: general insert facts -/

theorem RecMap.get_insertRecord_ne (m : RecMap) (zr : ZoneRecord) (k : Nat) (h : k ≠ zr.rtype) :
    (m.insertRecord zr).get k = m.get k := by
  unfold RecMap.insertRecord
  split
  · split
    · rfl
    · rw [RecMap.get_set, if_neg h]
  · rw [RecMap.get_set, if_neg h]

theorem RecMap.get_mem (m : RecMap) (k : Nat) (v : List ZoneRecord) (h : m.get k = some v) :
    (k, v) ∈ m := by
  induction m with
  | nil => simp [RecMap.get] at h
  | cons kv rest ih =>
    obtain ⟨k0, v0⟩ := kv
    simp only [RecMap.get] at h
    by_cases h0 : k0 = k
    · simp only [h0, if_true, Option.some.injEq] at h
      simp [h0, h]
    · simp only [h0, if_false] at h
      exact List.mem_cons_of_mem _ (ih h)

/-! ## the family invariants -/

/-- the records of type `k` in tree `r` are exactly `f a` at the name of every mapping `n ↦ a` -/
def FamInv {α : Type} (k : Nat) (f : α → ZoneRecord) (m : AddrMap α) (r : ZNode) : Prop :=
  (∀ n a, AddrMap.get m n = some a → (recsAt r (relR n)).get k = some [f a]) ∧
  (∀ p es, (recsAt r p).get k = some es →
    ∃ n a, relR n = p ∧ AddrMap.get m n = some a ∧ es = [f a])

/-- only `A` and `AAAA` record sets occur -/
def OnlyAddr (r : ZNode) : Prop :=
  ∀ p k es, (recsAt r p).get k = some es → k = RT_A ∨ k = RT_AAAA

/-- the effect of `insR zr p` on `recsAt` -/
def InsertedAt (r r' : ZNode) (p : List Label) (zr : ZoneRecord) : Prop :=
  ∀ q, recsAt r' q = if q = p then (recsAt r p).insertRecord zr else recsAt r q

theorem FamInv.fresh {α : Type} {k : Nat} {f : α → ZoneRecord} {m : AddrMap α} {r : ZNode}
    (hinv : FamInv k f m r) (hwf : ∀ kv ∈ m, WFName kv.1) {n : Name} (hn : WFName n)
    (hnone : AddrMap.get m n = none) : (recsAt r (relR n)).get k = none := by
  cases hg : (recsAt r (relR n)).get k with
  | none => rfl
  | some es =>
    obtain ⟨n', a', hrel, hget, _⟩ := hinv.2 _ _ hg
    have hwf' : WFName n' := hwf _ (AddrMap.get_mem _ _ _ hget)
    have : n' = n := relR_inj hwf' hn hrel
    subst this
    rw [hnone] at hget; cases hget

theorem FamInv.step_same {α : Type} {k : Nat} {f : α → ZoneRecord} {m : AddrMap α} {r r' : ZNode}
    (hinv : FamInv k f m r) (hwf : ∀ kv ∈ m, WFName kv.1) {n : Name} (hn : WFName n)
    (hnone : AddrMap.get m n = none) (a : α) (hk : (f a).rtype = k)
    (hr' : InsertedAt r r' (relR n) (f a)) : FamInv k f (m ++ [(n, a)]) r' := by
  have hfresh := hinv.fresh hwf hn hnone
  subst hk
  constructor
  · intro n' a' hget
    rw [AddrMap.get_append_single] at hget
    cases hm : AddrMap.get m n' with
    | some x =>
      simp only [hm, Option.some.injEq] at hget
      subst hget
      have hwf' : WFName n' := hwf _ (AddrMap.get_mem _ _ _ hm)
      have hne : relR n' ≠ relR n := by
        intro e
        have : n' = n := relR_inj hwf' hn e
        subst this
        rw [hnone] at hm; cases hm
      rw [hr', if_neg hne]
      exact hinv.1 _ _ hm
    | none =>
      simp only [hm] at hget
      by_cases e : n = n'
      · subst e
        simp only [if_true, Option.some.injEq] at hget
        subst hget
        rw [hr', if_pos rfl, RecMap.get_insertRecord_fresh _ _ hfresh, if_pos rfl]
      · simp [e] at hget
  · intro p es hg
    rw [hr'] at hg
    by_cases hp : p = relR n
    · subst hp
      rw [if_pos rfl, RecMap.get_insertRecord_fresh _ _ hfresh, if_pos rfl] at hg
      cases hg
      refine ⟨n, a, rfl, ?_, rfl⟩
      rw [AddrMap.get_append_single, hnone]; simp
    · rw [if_neg hp] at hg
      obtain ⟨n', a', hrel, hget, hes⟩ := hinv.2 _ _ hg
      refine ⟨n', a', hrel, ?_, hes⟩
      rw [AddrMap.get_append_single, hget]

theorem FamInv.step_other {α : Type} {k : Nat} {f : α → ZoneRecord} {m : AddrMap α} {r r' : ZNode}
    (hinv : FamInv k f m r) {p : List Label} {zr : ZoneRecord} (hne : k ≠ zr.rtype)
    (hr' : InsertedAt r r' p zr) : FamInv k f m r' := by
  have key : ∀ q, (recsAt r' q).get k = (recsAt r q).get k := by
    intro q
    rw [hr']
    by_cases hq : q = p
    · subst hq; rw [if_pos rfl, RecMap.get_insertRecord_ne _ _ _ hne]
    · rw [if_neg hq]
  constructor
  · intro n a hget; rw [key]; exact hinv.1 n a hget
  · intro q es hg; rw [key] at hg; exact hinv.2 q es hg

theorem OnlyAddr.step {r r' : ZNode} (h : OnlyAddr r) {p : List Label} {zr : ZoneRecord}
    (hk : zr.rtype = RT_A ∨ zr.rtype = RT_AAAA) (hr' : InsertedAt r r' p zr) : OnlyAddr r' := by
  intro q k es hg
  by_cases hkk : k = zr.rtype
  · rw [hkk]; exact hk
  · rw [hr'] at hg
    by_cases hq : q = p
    · subst hq
      rw [if_pos rfl, RecMap.get_insertRecord_ne _ _ _ hkk] at hg
      exact h _ _ _ hg
    · rw [if_neg hq] at hg
      exact h _ _ _ hg

/-! ## the zone built from a set of mappings -/

def recA (a : Nat) : ZoneRecord := ⟨RT_A, [.a a], HOSTS_TTL⟩
def recAAAA (g : List Nat) : ZoneRecord := ⟨RT_AAAA, [.aaaa g], HOSTS_TTL⟩

/-- "zone `z` is what the mappings `m4` and `m6` build" -/
structure ZInv (m4 : AddrMap Nat) (m6 : AddrMap (List Nat)) (z : Zone) : Prop where
  apex : z.apex = Name.root
  soa : z.soa = none
  nsd : z.records.nsdname = Name.root
  ok : TreeOK z.records
  count : recCount z.records = m4.length + m6.length
  fam4 : FamInv RT_A recA m4 z.records
  fam6 : FamInv RT_AAAA recAAAA m6 z.records
  only : OnlyAddr z.records

theorem ZInv_default : ZInv [] [] Zone.default := by
  refine ⟨rfl, rfl, rfl, TreeOK_new _ (by simp [NameOK, Name.root]), ?_, ?_, ?_, ?_⟩
  · simp [Zone.default, Zone.new, recCount_new]
  · constructor
    · intro n a h; simp [AddrMap.get] at h
    · intro p es h; simp [Zone.default, Zone.new, recsAt_new, RecMap.get] at h
  · constructor
    · intro n a h; simp [AddrMap.get] at h
    · intro p es h; simp [Zone.default, Zone.new, recsAt_new, RecMap.get] at h
  · intro p k es h; simp [Zone.default, Zone.new, recsAt_new, RecMap.get] at h

/-- one `Zone::insert` of the hosts conversion, on the tree level -/
theorem zone_insert_root (z : Zone) (hapex : z.apex = Name.root) (hsoa : z.soa = none)
    (hnsd : z.records.nsdname = Name.root) (hok : TreeOK z.records) (n : Name) (hn : WFName n)
    (rtype : Nat) (fields : List FieldVal) (ttl : Nat) :
    ∃ r, insR ⟨rtype, fields, ttl⟩ (relR n) z.records = some r ∧
      z.insert n rtype fields ttl false = some { z with records := r } ∧
      TreeOK r ∧ r.nsdname = Name.root := by
  obtain ⟨hne, hlen⟩ := hn.path_ok
  have hshape : LabelsShape z.records.nsdname.labels := by rw [hnsd]; exact C16_root_wf.1
  obtain ⟨r, hr, hrok, hrn⟩ := insR_ok ⟨rtype, fields, ttl⟩ (relR n) z.records hok hshape hne
    (by rw [hnsd]; exact hlen)
  refine ⟨r, hr, ?_, hrok, by rw [hrn, hnsd]⟩
  unfold Zone.insert
  rw [relativeDomain_root z hapex n hn]
  simp only [Zone.actualTtl, hsoa, ZNode.insert_eq_insR, List.reverse_reverse, hr]

theorem ZInv.step4 {m4 : AddrMap Nat} {m6 : AddrMap (List Nat)} {z : Zone} (h : ZInv m4 m6 z)
    (hwf : ∀ kv ∈ m4, WFName kv.1) (n : Name) (hn : WFName n) (hnone : AddrMap.get m4 n = none)
    (a : Nat) :
    ∃ z', z.insert n RT_A [.a a] HOSTS_TTL false = some z' ∧ ZInv (m4 ++ [(n, a)]) m6 z' := by
  obtain ⟨r, hr, hz, hrok, hrn⟩ :=
    zone_insert_root z h.apex h.soa h.nsd h.ok n hn RT_A [.a a] HOSTS_TTL
  have hins : InsertedAt z.records r (relR n) (recA a) := recsAt_insR _ _ _ _ hr
  have hfresh := h.fam4.fresh hwf hn hnone
  refine ⟨_, hz, h.apex, h.soa, hrn, hrok, ?_, ?_, ?_, ?_⟩
  · have := recCount_insR _ _ _ _ hr
    rw [rcount_insertRecord_fresh _ _ hfresh] at this
    have hc := h.count
    simp only [List.length_append, List.length_cons, List.length_nil] at *
    omega
  · exact h.fam4.step_same hwf hn hnone a rfl hins
  · exact h.fam6.step_other (show RT_AAAA ≠ RT_A by decide) hins
  · exact h.only.step (Or.inl rfl) hins

theorem ZInv.step6 {m4 : AddrMap Nat} {m6 : AddrMap (List Nat)} {z : Zone} (h : ZInv m4 m6 z)
    (hwf : ∀ kv ∈ m6, WFName kv.1) (n : Name) (hn : WFName n) (hnone : AddrMap.get m6 n = none)
    (g : List Nat) :
    ∃ z', z.insert n RT_AAAA [.aaaa g] HOSTS_TTL false = some z' ∧ ZInv m4 (m6 ++ [(n, g)]) z' := by
  obtain ⟨r, hr, hz, hrok, hrn⟩ :=
    zone_insert_root z h.apex h.soa h.nsd h.ok n hn RT_AAAA [.aaaa g] HOSTS_TTL
  have hins : InsertedAt z.records r (relR n) (recAAAA g) := recsAt_insR _ _ _ _ hr
  have hfresh := h.fam6.fresh hwf hn hnone
  refine ⟨_, hz, h.apex, h.soa, hrn, hrok, ?_, ?_, ?_, ?_⟩
  · have := recCount_insR _ _ _ _ hr
    rw [rcount_insertRecord_fresh _ _ hfresh] at this
    have hc := h.count
    simp only [List.length_append, List.length_cons, List.length_nil] at *
    omega
  · exact h.fam4.step_other (show RT_A ≠ RT_AAAA by decide) hins
  · exact h.fam6.step_same hwf hn hnone g rfl hins
  · exact h.only.step (Or.inr rfl) hins

/-- the first fold of `Hosts.toZone` -/
theorem fold4 (m6 : AddrMap (List Nat)) (rest : AddrMap Nat) :
    ∀ (done : AddrMap Nat) (z : Zone), ZInv done m6 z →
      (∀ kv ∈ done ++ rest, WFName kv.1) → AddrMap.KeysNodup (done ++ rest) →
      ∃ z', rest.foldl (fun acc kv =>
          match acc with
          | none => none
          | some z => z.insert kv.1 RT_A [.a kv.2] HOSTS_TTL false) (some z) = some z' ∧
        ZInv (done ++ rest) m6 z' := by
  induction rest with
  | nil => intro done z h _ _; exact ⟨z, rfl, by simpa using h⟩
  | cons kv rest ih =>
    intro done z h hwf hnd
    obtain ⟨n, a⟩ := kv
    have hwfd : ∀ kv ∈ done, WFName kv.1 := fun kv hkv => hwf kv (by simp [hkv])
    have hn : WFName n := hwf (n, a) (by simp)
    have hnone : AddrMap.get done n = none := by
      apply AddrMap.get_none_of_not_mem
      unfold AddrMap.KeysNodup at hnd
      simp only [List.map_append, List.map_cons] at hnd
      have := (List.nodup_append.mp hnd).2.2
      intro hmem
      exact this n hmem n (by simp) rfl
    obtain ⟨z1, hz1, hinv1⟩ := h.step4 hwfd n hn hnone a
    have e : done ++ (n, a) :: rest = (done ++ [(n, a)]) ++ rest := by simp
    obtain ⟨z', hz', hinv'⟩ := ih (done ++ [(n, a)]) z1 hinv1 (by rw [← e]; exact hwf)
      (by rw [← e]; exact hnd)
    refine ⟨z', ?_, by rw [e]; exact hinv'⟩
    simp only [List.foldl_cons, hz1]
    exact hz'

/-- the second fold of `Hosts.toZone` -/
theorem fold6 (m4 : AddrMap Nat) (rest : AddrMap (List Nat)) :
    ∀ (done : AddrMap (List Nat)) (z : Zone), ZInv m4 done z →
      (∀ kv ∈ done ++ rest, WFName kv.1) → AddrMap.KeysNodup (done ++ rest) →
      ∃ z', rest.foldl (fun acc kv =>
          match acc with
          | none => none
          | some z => z.insert kv.1 RT_AAAA [.aaaa kv.2] HOSTS_TTL false) (some z) = some z' ∧
        ZInv m4 (done ++ rest) z' := by
  induction rest with
  | nil => intro done z h _ _; exact ⟨z, rfl, by simpa using h⟩
  | cons kv rest ih =>
    intro done z h hwf hnd
    obtain ⟨n, g⟩ := kv
    have hwfd : ∀ kv ∈ done, WFName kv.1 := fun kv hkv => hwf kv (by simp [hkv])
    have hn : WFName n := hwf (n, g) (by simp)
    have hnone : AddrMap.get done n = none := by
      apply AddrMap.get_none_of_not_mem
      unfold AddrMap.KeysNodup at hnd
      simp only [List.map_append, List.map_cons] at hnd
      have := (List.nodup_append.mp hnd).2.2
      intro hmem
      exact this n hmem n (by simp) rfl
    obtain ⟨z1, hz1, hinv1⟩ := h.step6 hwfd n hn hnone g
    have e : done ++ (n, g) :: rest = (done ++ [(n, g)]) ++ rest := by simp
    obtain ⟨z', hz', hinv'⟩ := ih (done ++ [(n, g)]) z1 hinv1 (by rw [← e]; exact hwf)
      (by rw [← e]; exact hnd)
    refine ⟨z', ?_, by rw [e]; exact hinv'⟩
    simp only [List.foldl_cons, hz1]
    exact hz'

def HostsNamesWF (h : Hosts) : Prop := (∀ kv ∈ h.v4, WFName kv.1) ∧ (∀ kv ∈ h.v6, WFName kv.1)

theorem toZone_inv (h : Hosts) (wf : HostsNamesWF h) (n4 : h.v4.KeysNodup) (n6 : h.v6.KeysNodup) :
    ∃ z, h.toZone = some z ∧ ZInv h.v4 h.v6 z := by
  obtain ⟨z4, hz4, hinv4⟩ := fold4 [] h.v4 [] Zone.default ZInv_default (by simpa using wf.1)
    (by simpa using n4)
  obtain ⟨z6, hz6, hinv6⟩ := fold6 h.v4 h.v6 [] z4 (by simpa using hinv4) (by simpa using wf.2)
    (by simpa using n6)
  refine ⟨z6, ?_, by simpa using hinv6⟩
  unfold Hosts.toZone
  have key : ∀ x, x = some z4 → List.foldl (fun acc kv =>
      match acc with
      | none => none
      | some z => z.insert kv.1 RT_AAAA [.aaaa kv.2] HOSTS_TTL false) x h.v6 = some z6 := by
    intro x hx; subst hx; exact hz6
  exact key _ hz4

/-! ## main theorems -/

/-- the part of the invariant that does not need distinct keys -/
structure ZBase (z : Zone) : Prop where
  apex : z.apex = Name.root
  soa : z.soa = none
  nsd : z.records.nsdname = Name.root
  ok : TreeOK z.records

theorem fold_base {α : Type} (rt : Nat) (fl : α → List FieldVal) (l : AddrMap α) :
    ∀ z : Zone, ZBase z → (∀ kv ∈ l, WFName kv.1) →
      ∃ z', l.foldl (fun acc kv =>
          match acc with
          | none => none
          | some z => z.insert kv.1 rt (fl kv.2) HOSTS_TTL false) (some z) = some z' ∧ ZBase z' := by
  induction l with
  | nil => intro z h _; exact ⟨z, rfl, h⟩
  | cons kv rest ih =>
    intro z h hwf
    obtain ⟨r, _, hz, hrok, hrn⟩ :=
      zone_insert_root z h.apex h.soa h.nsd h.ok kv.1 (hwf kv (by simp)) rt (fl kv.2) HOSTS_TTL
    obtain ⟨z', hz', hb⟩ := ih { z with records := r } ⟨h.apex, h.soa, hrn, hrok⟩
      (fun kv' hkv' => hwf kv' (by simp [hkv']))
    refine ⟨z', ?_, hb⟩
    simp only [List.foldl_cons, hz]
    exact hz'

/-- conversion never panics on well-formed names -/
theorem toZone_isSome (h : Hosts) (wf : HostsNamesWF h) : ∃ z, h.toZone = some z := by
  obtain ⟨z4, hz4, hb4⟩ := fold_base RT_A (fun a => [FieldVal.a a]) h.v4 Zone.default
    ⟨rfl, rfl, rfl, TreeOK_new _ (by simp [NameOK, Name.root])⟩ wf.1
  obtain ⟨z6, hz6, _⟩ := fold_base RT_AAAA (fun g => [FieldVal.aaaa g]) h.v6 z4 hb4 wf.2
  refine ⟨z6, ?_⟩
  unfold Hosts.toZone
  have key : ∀ x, x = some z4 → List.foldl (fun acc kv =>
      match acc with
      | none => none
      | some z => z.insert kv.1 RT_AAAA [.aaaa kv.2] HOSTS_TTL false) x h.v6 = some z6 := by
    intro x hx; subst hx; exact hz6
  exact key _ hz4

/-- `zone_result_helper` on a record map without NS / CNAME sets, for an ordinary query type -/
theorem zoneResultHelper_direct (name : Name) (qtype : Nat) (recs : RecMap) (nsd : Name) (cd : Bool)
    (hq : lookupNat queryTypeFromU16 qtype = none) (hqc : qtype ≠ RT_CNAME)
    (hns : recs.get RT_NS = none) (hcn : recs.get RT_CNAME = none) (zrs : List ZoneRecord)
    (hg : recs.get qtype = some zrs) :
    zoneResultHelper name qtype recs nsd cd = .answer (zrs.map (·.toRR name)) := by
  have hm : rtypeMatches RT_CNAME qtype = false := by
    unfold rtypeMatches
    rw [hq]
    simp only [beq_eq_false_iff_ne, ne_eq]
    exact fun e => hqc e.symm
  unfold zoneResultHelper
  simp only [hns, hcn, hm, hq, hg]
  cases cd <;> simp

/-- the node holding the records of a mapped name -/
theorem FamInv.node {α : Type} {k : Nat} {f : α → ZoneRecord} {m : AddrMap α} {r : ZNode}
    (hinv : FamInv k f m r) {n : Name} {a : α} (hget : AddrMap.get m n = some a) :
    ∃ nd, nodeAtR (relR n) r = some nd ∧ nd.this.get k = some [f a] := by
  have h1 := hinv.1 n a hget
  unfold recsAt at h1
  cases hnd : nodeAtR (relR n) r with
  | none => simp [hnd, RecMap.get] at h1
  | some nd => simp only [hnd] at h1; exact ⟨nd, rfl, h1⟩

theorem ZInv.resolve {m4 : AddrMap Nat} {m6 : AddrMap (List Nat)} {z : Zone} (h : ZInv m4 m6 z)
    (n : Name) (hn : WFName n) (nd : ZNode) (hnd : nodeAtR (relR n) z.records = some nd)
    (qtype : Nat) (hq : lookupNat queryTypeFromU16 qtype = none) (hqc : qtype ≠ RT_CNAME)
    (zrs : List ZoneRecord) (hg : nd.this.get qtype = some zrs) :
    z.resolve n qtype = some (.answer (zrs.map (·.toRR n))) := by
  unfold Zone.resolve
  rw [relativeDomain_root z h.apex n hn]
  simp only [Option.map_some, Option.some.injEq]
  obtain ⟨cd, hcd⟩ := resolve_nodeAtR n qtype (relR n) z.records true nd hnd
  rw [hcd]
  have hrecs : recsAt z.records (relR n) = nd.this := by simp [recsAt, hnd]
  apply zoneResultHelper_direct _ _ _ _ _ hq hqc _ _ _ hg
  · cases hx : nd.this.get RT_NS with
    | none => rfl
    | some es =>
      rw [← hrecs] at hx
      rcases h.only _ _ _ hx with e | e <;> cases e
  · cases hx : nd.this.get RT_CNAME with
    | none => rfl
    | some es =>
      rw [← hrecs] at hx
      rcases h.only _ _ _ hx with e | e <;> cases e

/-- every IPv4 mapping resolves to its address: the hosts zone has no NS/CNAME, so resolve is
    direct -/
theorem resolves_v4 (h : Hosts) (wf : HostsNamesWF h) (n4 : h.v4.KeysNodup) (n6 : h.v6.KeysNodup)
    (z : Zone) (hz : h.toZone = some z) (n : Name) (a : Nat) (hm : h.v4.get n = some a) :
    z.resolve n RT_A = some (.answer [⟨n, RT_A, [.a a], CLASS_IN, Gen.HOSTS_TTL⟩]) := by
  obtain ⟨z', hz', hinv⟩ := toZone_inv h wf n4 n6
  rw [hz] at hz'; cases hz'
  have hn : WFName n := wf.1 _ (AddrMap.get_mem _ _ _ hm)
  obtain ⟨nd, hnd, hg⟩ := hinv.fam4.node hm
  exact hinv.resolve n hn nd hnd RT_A (by decide) (by decide) _ hg

/-- every IPv6 mapping resolves to its address -/
theorem resolves_v6 (h : Hosts) (wf : HostsNamesWF h) (n4 : h.v4.KeysNodup) (n6 : h.v6.KeysNodup)
    (z : Zone) (hz : h.toZone = some z) (n : Name) (g : List Nat) (hm : h.v6.get n = some g) :
    z.resolve n RT_AAAA = some (.answer [⟨n, RT_AAAA, [.aaaa g], CLASS_IN, Gen.HOSTS_TTL⟩]) := by
  obtain ⟨z', hz', hinv⟩ := toZone_inv h wf n4 n6
  rw [hz] at hz'; cases hz'
  have hn : WFName n := wf.2 _ (AddrMap.get_mem _ _ _ hm)
  obtain ⟨nd, hnd, hg⟩ := hinv.fam6.node hm
  exact hinv.resolve n hn nd hnd RT_AAAA (by decide) (by decide) _ hg

theorem mem_flattenRecords (recs : List (Name × List ZoneRecord)) (nz : Name × ZoneRecord) :
    nz ∈ Hosts.flattenRecords recs ↔ ∃ zrs, (nz.1, zrs) ∈ recs ∧ nz.2 ∈ zrs := by
  obtain ⟨nm, zr⟩ := nz
  simp only [Hosts.flattenRecords, List.mem_flatMap, List.mem_map, Prod.mk.injEq]
  constructor
  · rintro ⟨⟨nm', zrs⟩, hm, zr', hzr, rfl, rfl⟩
    exact ⟨zrs, hm, hzr⟩
  · rintro ⟨zrs, hm, hzr⟩
    exact ⟨(nm, zrs), hm, zr, hzr, rfl, rfl⟩

/-- what a listed record of the built zone is -/
theorem ZInv.listed {m4 : AddrMap Nat} {m6 : AddrMap (List Nat)} {z : Zone} (h : ZInv m4 m6 z)
    (wf4 : ∀ kv ∈ m4, WFName kv.1) (wf6 : ∀ kv ∈ m6, WFName kv.1)
    (nz : Name × ZoneRecord) (hnz : nz ∈ Hosts.flattenRecords z.allRecords) :
    (∃ a, nz.2 = recA a ∧ AddrMap.get m4 nz.1 = some a) ∨
    (∃ g, nz.2 = recAAAA g ∧ AddrMap.get m6 nz.1 = some g) := by
  obtain ⟨zrs, hmem, hzr⟩ := (mem_flattenRecords _ _).mp hnz
  obtain ⟨p, nd, hnd, hx, _⟩ := nodeAtR_of_allRecords z.records h.ok _ hmem
  simp only [Prod.mk.injEq] at hx
  obtain ⟨hnm, hzrs⟩ := hx
  obtain ⟨hndok, hlabels⟩ := nodeAtR_ok p z.records nd h.ok hnd
  rw [hzrs] at hzr
  obtain ⟨⟨k, es⟩, hkv, hzr⟩ := List.mem_flatMap.mp hzr
  simp only at hzr
  have hg : nd.this.get k = some es := RecMap.get_of_mem _ hndok.recMapOK _ _ hkv
  have hrecs : recsAt z.records p = nd.this := by simp [recsAt, hnd]
  rw [← hrecs] at hg
  rw [h.nsd] at hlabels
  rcases h.only _ _ _ hg with e | e
  · subst e
    obtain ⟨n, a, hrel, hget, hes⟩ := h.fam4.2 _ _ hg
    have hn : WFName n := wf4 _ (AddrMap.get_mem _ _ _ hget)
    have : nd.nsdname = n := name_eq_of_labels hndok.nameOK hn (by rw [hlabels, hrel]; rfl)
    left
    refine ⟨a, ?_, by rw [hnm, this]; exact hget⟩
    rw [hes] at hzr; simpa using hzr
  · subst e
    obtain ⟨n, g, hrel, hget, hes⟩ := h.fam6.2 _ _ hg
    have hn : WFName n := wf6 _ (AddrMap.get_mem _ _ _ hget)
    have : nd.nsdname = n := name_eq_of_labels hndok.nameOK hn (by rw [hlabels, hrel]; rfl)
    right
    refine ⟨g, ?_, by rw [hnm, this]; exact hget⟩
    rw [hes] at hzr; simpa using hzr

/-- the zone holds exactly one record per mapping, each A/AAAA, TTL HOSTS_TTL, carrying the mapped
    address -/
theorem toZone_records (h : Hosts) (wf : HostsNamesWF h) (n4 : h.v4.KeysNodup) (n6 : h.v6.KeysNodup)
    (z : Zone) (hz : h.toZone = some z) :
    (Hosts.flattenRecords z.allRecords).length = h.v4.length + h.v6.length ∧
    z.allWildcardRecords = [] ∧
    ∀ nz ∈ Hosts.flattenRecords z.allRecords, nz.2.ttl = Gen.HOSTS_TTL ∧
      ((nz.2.rtype = RT_A ∧ ∃ a, nz.2.fields = [.a a] ∧ h.v4.get nz.1 = some a) ∨
       (nz.2.rtype = RT_AAAA ∧ ∃ g, nz.2.fields = [.aaaa g] ∧ h.v6.get nz.1 = some g)) := by
  obtain ⟨z', hz', hinv⟩ := toZone_inv h wf n4 n6
  rw [hz] at hz'; cases hz'
  refine ⟨?_, allWildcardRecords_nil _ hinv.ok, ?_⟩
  · unfold Zone.allRecords
    rw [flatten_length, hinv.count]
  · intro nz hnz
    rcases hinv.listed wf.1 wf.2 nz hnz with ⟨a, e, hget⟩ | ⟨g, e, hget⟩
    · rw [e]; exact ⟨rfl, Or.inl ⟨rfl, a, rfl, hget⟩⟩
    · rw [e]; exact ⟨rfl, Or.inr ⟨rfl, g, rfl, hget⟩⟩

/-! ## converting back -/

/-- every mapping is listed in the built zone -/
theorem FamInv.listed {α : Type} {k : Nat} {f : α → ZoneRecord} {m : AddrMap α} {r : ZNode}
    (hinv : FamInv k f m r) (hok : TreeOK r) (hnsd : r.nsdname = Name.root) {n : Name} {a : α}
    (hn : WFName n) (hget : AddrMap.get m n = some a) :
    (n, f a) ∈ Hosts.flattenRecords r.allRecords := by
  obtain ⟨nd, hnd, hg⟩ := hinv.node hget
  obtain ⟨hndok, hlabels⟩ := nodeAtR_ok _ r nd hok hnd
  rw [hnsd] at hlabels
  have hname : nd.nsdname = n := name_eq_of_labels hndok.nameOK hn hlabels
  have hmem : f a ∈ nd.this.flatMap (·.2) :=
    List.mem_flatMap.mpr ⟨(k, [f a]), RecMap.get_mem _ _ _ hg, by simp⟩
  have hne : nd.this.flatMap (·.2) ≠ [] := by
    intro e; rw [e] at hmem; cases hmem
  have := allRecords_of_nodeAtR _ r nd hnd hne
  rw [hname] at this
  exact (mem_flattenRecords _ _).mpr ⟨_, this, hmem⟩

/-- a list of address records only -/
def AddrOnly (L : List (Name × ZoneRecord)) : Prop :=
  ∀ nz ∈ L, (∃ a, nz.2.rtype = 1 ∧ nz.2.fields = [.a a]) ∨
            (∃ g, nz.2.rtype = 28 ∧ nz.2.fields = [.aaaa g])

/-- the strict collection loop on address records: never fails; each resulting entry comes from the
    list or the start value, each missing entry is missing from both -/
theorem collectRecords_spec (L : List (Name × ZoneRecord)) :
    ∀ h0 : Hosts, AddrOnly L →
      ∃ h', Hosts.collectRecords true L h0 = .ok h' ∧
        (∀ n a, h'.v4.get n = some a →
          (∃ zr, (n, zr) ∈ L ∧ zr.rtype = 1 ∧ zr.fields = [.a a]) ∨ h0.v4.get n = some a) ∧
        (∀ n, h'.v4.get n = none →
          h0.v4.get n = none ∧ ∀ zr, (n, zr) ∈ L → zr.rtype ≠ 1) ∧
        (∀ n g, h'.v6.get n = some g →
          (∃ zr, (n, zr) ∈ L ∧ zr.rtype = 28 ∧ zr.fields = [.aaaa g]) ∨ h0.v6.get n = some g) ∧
        (∀ n, h'.v6.get n = none →
          h0.v6.get n = none ∧ ∀ zr, (n, zr) ∈ L → zr.rtype ≠ 28) := by
  induction L with
  | nil =>
    intro h0 _
    refine ⟨h0, rfl, ?_, ?_, ?_, ?_⟩
    · intro n a h; exact Or.inr h
    · intro n h; exact ⟨h, fun zr hzr => by cases hzr⟩
    · intro n g h; exact Or.inr h
    · intro n h; exact ⟨h, fun zr hzr => by cases hzr⟩
  | cons nz rest ih =>
    intro h0 hL
    obtain ⟨nm, zr⟩ := nz
    have hrest : AddrOnly rest := fun x hx => hL x (List.mem_cons_of_mem _ hx)
    obtain ⟨rt, fs, ttl⟩ := zr
    rcases hL (nm, ⟨rt, fs, ttl⟩) (by simp) with ⟨a, hrt, hfs⟩ | ⟨g, hrt, hfs⟩
    · simp only at hrt hfs
      subst hrt; subst hfs
      obtain ⟨h', hc, i1, i2, i3, i4⟩ := ih { h0 with v4 := h0.v4.insert nm a } hrest
      refine ⟨h', by simpa [Hosts.collectRecords, ZoneRecord.toRR] using hc, ?_, ?_, ?_, ?_⟩
      · intro n a' hg
        rcases i1 n a' hg with ⟨zr, hm, h1, h2⟩ | hg0
        · exact Or.inl ⟨zr, List.mem_cons_of_mem _ hm, h1, h2⟩
        · simp only [AddrMap.get_insert] at hg0
          by_cases e : n = nm
          · subst e
            simp only [if_true, Option.some.injEq] at hg0
            subst hg0
            exact Or.inl ⟨_, List.mem_cons_self, rfl, rfl⟩
          · simp only [e, if_false] at hg0; exact Or.inr hg0
      · intro n hg
        obtain ⟨hg0, hno⟩ := i2 n hg
        simp only [AddrMap.get_insert] at hg0
        by_cases e : n = nm
        · simp [e] at hg0
        · simp only [e, if_false] at hg0
          refine ⟨hg0, ?_⟩
          intro zr hm
          rcases List.mem_cons.mp hm with hm | hm
          · simp only [Prod.mk.injEq] at hm; exact absurd hm.1 e
          · exact hno zr hm
      · intro n g hg
        rcases i3 n g hg with ⟨zr, hm, h1, h2⟩ | hg0
        · exact Or.inl ⟨zr, List.mem_cons_of_mem _ hm, h1, h2⟩
        · exact Or.inr hg0
      · intro n hg
        obtain ⟨hg0, hno⟩ := i4 n hg
        refine ⟨hg0, ?_⟩
        intro zr hm
        rcases List.mem_cons.mp hm with hm | hm
        · simp only [Prod.mk.injEq] at hm; rw [hm.2]; simp
        · exact hno zr hm
    · simp only at hrt hfs
      subst hrt; subst hfs
      obtain ⟨h', hc, i1, i2, i3, i4⟩ := ih { h0 with v6 := h0.v6.insert nm g } hrest
      refine ⟨h', by simpa [Hosts.collectRecords, ZoneRecord.toRR] using hc, ?_, ?_, ?_, ?_⟩
      · intro n a hg
        rcases i1 n a hg with ⟨zr, hm, h1, h2⟩ | hg0
        · exact Or.inl ⟨zr, List.mem_cons_of_mem _ hm, h1, h2⟩
        · exact Or.inr hg0
      · intro n hg
        obtain ⟨hg0, hno⟩ := i2 n hg
        refine ⟨hg0, ?_⟩
        intro zr hm
        rcases List.mem_cons.mp hm with hm | hm
        · simp only [Prod.mk.injEq] at hm; rw [hm.2]; simp
        · exact hno zr hm
      · intro n g' hg
        rcases i3 n g' hg with ⟨zr, hm, h1, h2⟩ | hg0
        · exact Or.inl ⟨zr, List.mem_cons_of_mem _ hm, h1, h2⟩
        · simp only [AddrMap.get_insert] at hg0
          by_cases e : n = nm
          · subst e
            simp only [if_true, Option.some.injEq] at hg0
            subst hg0
            exact Or.inl ⟨_, List.mem_cons_self, rfl, rfl⟩
          · simp only [e, if_false] at hg0; exact Or.inr hg0
      · intro n hg
        obtain ⟨hg0, hno⟩ := i4 n hg
        simp only [AddrMap.get_insert] at hg0
        by_cases e : n = nm
        · simp [e] at hg0
        · simp only [e, if_false] at hg0
          refine ⟨hg0, ?_⟩
          intro zr hm
          rcases List.mem_cons.mp hm with hm | hm
          · simp only [Prod.mk.injEq] at hm; exact absurd hm.1 e
          · exact hno zr hm

/-- converting back gives the same hosts data (as maps) -/
theorem zone_roundtrip (h : Hosts) (wf : HostsNamesWF h) (n4 : h.v4.KeysNodup) (n6 : h.v6.KeysNodup)
    (z : Zone) (hz : h.toZone = some z) :
    ∃ h', Hosts.tryFromZone z = .ok h' ∧ Hosts.Equiv h' h := by
  obtain ⟨z', hz', hinv⟩ := toZone_inv h wf n4 n6
  rw [hz] at hz'; cases hz'
  have hlisted := hinv.listed wf.1 wf.2
  have hL : AddrOnly (Hosts.flattenRecords z.allRecords) := by
    intro nz hnz
    rcases hlisted nz hnz with ⟨a, e, _⟩ | ⟨g, e, _⟩
    · exact Or.inl ⟨a, by rw [e]; exact ⟨rfl, rfl⟩⟩
    · exact Or.inr ⟨g, by rw [e]; exact ⟨rfl, rfl⟩⟩
  obtain ⟨h', hc, i1, i2, i3, i4⟩ := collectRecords_spec _ Hosts.new hL
  refine ⟨h', ?_, ?_, ?_⟩
  · unfold Hosts.tryFromZone
    have : z.allWildcardRecords = [] := allWildcardRecords_nil _ hinv.ok
    simp only [this, List.isEmpty_nil, Bool.not_true, Bool.false_eq_true, if_false]
    exact hc
  · intro n
    cases hg : AddrMap.get h'.v4 n with
    | some a =>
      rcases i1 n a hg with ⟨zr, hm, h1, h2⟩ | h0
      · rcases hlisted (n, zr) hm with ⟨a', e, hget⟩ | ⟨g', e, _⟩
        · simp only at e hget
          rw [e] at h2
          simp only [recA, List.cons.injEq, FieldVal.a.injEq, and_true] at h2
          rw [hget, h2]
        · simp only at e
          rw [e] at h1
          simp [recAAAA, RT_AAAA] at h1
      · simp [Hosts.new, AddrMap.get] at h0
    | none =>
      obtain ⟨_, hno⟩ := i2 n hg
      cases hget : AddrMap.get h.v4 n with
      | none => rfl
      | some a =>
        have hn : WFName n := wf.1 _ (AddrMap.get_mem _ _ _ hget)
        have := hinv.fam4.listed hinv.ok hinv.nsd hn hget
        exact absurd rfl (hno _ this)
  · intro n
    cases hg : AddrMap.get h'.v6 n with
    | some g =>
      rcases i3 n g hg with ⟨zr, hm, h1, h2⟩ | h0
      · rcases hlisted (n, zr) hm with ⟨a', e, _⟩ | ⟨g', e, hget⟩
        · simp only at e
          rw [e] at h1
          simp [recA, RT_A] at h1
        · simp only at e hget
          rw [e] at h2
          simp only [recAAAA, List.cons.injEq, FieldVal.aaaa.injEq, and_true] at h2
          rw [hget, h2]
      · simp [Hosts.new, AddrMap.get] at h0
    | none =>
      obtain ⟨_, hno⟩ := i4 n hg
      cases hget : AddrMap.get h.v6 n with
      | none => rfl
      | some g =>
        have hn : WFName n := wf.2 _ (AddrMap.get_mem _ _ _ hget)
        have := hinv.fam6.listed hinv.ok hinv.nsd hn hget
        exact absurd rfl (hno _ this)

/-- non-vacuity, including the corner where the root name itself is a key (the record then sits at
    the apex node, `rel = []`, `isApex = true`): the hypotheses are satisfiable and the zone answers
    for both families. -/
example : ∃ z, (⟨[(Name.root, 7)], [(Name.root, [0, 0, 0, 0, 0, 0, 0, 1])]⟩ : Hosts).toZone = some z ∧
    z.resolve Name.root RT_A = some (.answer [⟨Name.root, RT_A, [.a 7], CLASS_IN, Gen.HOSTS_TTL⟩]) ∧
    z.resolve Name.root RT_AAAA =
      some (.answer [⟨Name.root, RT_AAAA, [.aaaa [0, 0, 0, 0, 0, 0, 0, 1]], CLASS_IN, Gen.HOSTS_TTL⟩]) := by
  have wf : HostsNamesWF ⟨[(Name.root, 7)], [(Name.root, [0, 0, 0, 0, 0, 0, 0, 1])]⟩ := by
    constructor <;> (intro kv hkv; simp at hkv; subst hkv; exact C16_root_wf)
  have n4 : AddrMap.KeysNodup [(Name.root, 7)] := by simp [AddrMap.KeysNodup]
  have n6 : AddrMap.KeysNodup [(Name.root, [0, 0, 0, 0, 0, 0, 0, 1])] := by simp [AddrMap.KeysNodup]
  obtain ⟨z, hz⟩ := toZone_isSome _ wf
  exact ⟨z, hz, resolves_v4 _ wf n4 n6 z hz _ _ (by simp [AddrMap.get]),
    resolves_v6 _ wf n4 n6 z hz _ _ (by simp [AddrMap.get])⟩

end Resolved
