/-
  The std text round trips of IP addresses at the `&str` level of Model/IpText.lean, from the
  print/parse lemmas of the shared std model (`Resolved.Ip`, Proofs/IpLemmas.lean):
    `Ipv4Addr::from_str(&a.to_string()) == Ok(a)`,  `Ipv6Addr::from_str(&a.to_string()) == Ok(a)`.
-/
import Resolved.Proofs.IpLemmas
import Resolved.Proofs.ZoneTextNumbers

namespace Resolved.IpText

set_option maxRecDepth 20000 in
theorem ofNat_toNat_256 : ∀ n, n < 256 → (Char.ofNat n).toNat = n := by decide

theorem utf8Encode_bytesAsChars (bs : List UInt8) (h : ∀ b ∈ bs, b.toNat < 128) :
    utf8Encode (bytesAsChars bs) = bs := by
  unfold utf8Encode Resolved.utf8Encode bytesAsChars
  induction bs with
  | nil => rfl
  | cons b bs ih =>
    have hb : b.toNat < 128 := h b (by simp)
    have hc : (Char.ofNat b.toNat).toNat = b.toNat := ofNat_toNat_256 _ b.toNat_lt
    simp only [List.map_cons, List.flatMap_cons, Resolved.utf8EncodeChar, hc, hb, if_true]
    rw [ih (fun x hx => h x (by simp [hx]))]
    simp

theorem isAddrByte_lt {b : UInt8} (h : Ip.isAddrByte b = true) : b.toNat < 128 := by
  simp only [Ip.isAddrByte, Bool.or_eq_true, Bool.and_eq_true, decide_eq_true_eq, beq_iff_eq] at h
  omega

theorem showOctet_length (n : Nat) : (Ip.showOctet n).length ≤ 3 := by
  unfold Ip.showOctet
  split
  · simp
  · split <;> simp

/-- **`Ipv4Addr::from_str(&addr.to_string()) == Ok(addr)`** for every address. -/
theorem ipv4FromStr_showIpv4 (a : Nat) (ha : a < 4294967296) : ipv4FromStr (showIpv4 a) = some a := by
  unfold ipv4FromStr showIpv4
  simp only
  rw [utf8Encode_bytesAsChars _ (fun b hb => isAddrByte_lt ((showIpv4_bytes a).1 b hb))]
  have hlen : (Ip.showIpv4 a).length ≤ 15 := by
    have l1 := showOctet_length (a / 16777216 % 256)
    have l2 := showOctet_length (a / 65536 % 256)
    have l3 := showOctet_length (a / 256 % 256)
    have l4 := showOctet_length (a % 256)
    simp only [Ip.showIpv4, List.length_append, List.length_cons, List.length_nil]
    omega
  rw [if_neg (by omega)]
  have := Ip.readIpv4Addr_showIpv4 ha (rest := []) trivial
  rw [List.append_nil] at this
  rw [this]

/-- the parser of the shared std model on the text of an IPv6 address. -/
theorem readIpv6Addr_showIpv6 (gs : List Nat) (hl : gs.length = 8) (hg : ∀ g ∈ gs, g < 65536) :
    Ip.readIpv6Addr (Ip.showIpv6 gs) = some (gs, []) := by
  unfold Ip.showIpv6
  cases hm : Ip.toIpv4Mapped gs with
  | some v =>
    obtain ⟨hi, lo, rfl, rfl⟩ := Ip.toIpv4Mapped_some hm
    simp only
    exact Ip.readIpv6Addr_mapped (hg hi (by simp)) (hg lo (by simp))
  | none =>
    simp only
    obtain ⟨a, b, hG, hstart⟩ := Ip.zeroSpan_zeroRun gs
    generalize Ip.zeroSpan gs 0 ⟨0, 0⟩ ⟨0, 0⟩ = z at hG hstart
    split
    · rename_i hz
      have ha : ∀ g ∈ a, g < 65536 := fun g h => hg g (by rw [hG]; simp [h])
      have hb : ∀ g ∈ b, g < 65536 := fun g h => hg g (by rw [hG]; simp [h])
      have htake : gs.take z.start = a := by
        rw [hG, ← hstart, List.append_assoc, List.take_left]
      have hdrop : gs.drop (z.start + z.len) = b := by
        have : z.start + z.len = (a ++ List.replicate z.len 0).length := by simp [hstart]
        rw [hG, this, List.drop_left]
      have hlen : a.length + z.len + b.length = 8 := by
        rw [hG] at hl; simpa [Nat.add_assoc] using hl
      rw [htake, hdrop]
      have h6 := Ip.readIpv6Addr_compressed hz hlen ha hb
      rw [← hG] at h6
      exact h6
    · exact Ip.readIpv6Addr_uncompressed hl hg

/-- **`Ipv6Addr::from_str(&addr.to_string()) == Ok(addr)`** for every address (eight 16-bit groups). -/
theorem ipv6FromStr_showIpv6 (gs : List Nat) (hl : gs.length = 8) (hg : ∀ g ∈ gs, g < 65536) :
    ipv6FromStr (showIpv6 gs) = some gs := by
  unfold ipv6FromStr showIpv6
  have hne : gs ≠ [] := by intro h; rw [h] at hl; simp at hl
  rw [utf8Encode_bytesAsChars _ (fun b hb => isAddrByte_lt ((showIpv6_bytes gs hg hne).1 b hb)),
    readIpv6Addr_showIpv6 gs hl hg]

end Resolved.IpText
