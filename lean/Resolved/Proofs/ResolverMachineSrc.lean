/-
  Provenance (C08): every record a machine returns was supplied by a local lookup or occurs in
  the oracle's reply to a logged exchange.  Stated for an abstract source predicate `P log r`
  ("`r` is accounted for, given the exchanges in `log`") that is monotone in the log, contains the
  records of logged replies, and contains what `resolveLocal` returns on reachable states.
-/
import Resolved.Proofs.ResolverMachineInv

namespace Resolved

open Gen

def ResolvedRecord.allRrs (r : ResolvedRecord) : List RR := r.rrs ++ r.soaRR.toList

theorem nonAuth_rrs (a : List RR) (b : Option RR) : (ResolvedRecord.nonAuthoritative a b).rrs = a := rfl
theorem nonAuth_soaRR (a : List RR) (b : Option RR) : (ResolvedRecord.nonAuthoritative a b).soaRR = b := rfl

/-- every record of a local result (answer / authority sections alike). -/
def LocalResult.allRrs : LocalResult → List RR
  | .done r => r.allRrs
  | .partialAnswer rrs => rrs
  | .delegation rrs soa _ => rrs ++ soa.toList
  | .cname rrs _ => rrs

def NameserverResponse.allRrs : NameserverResponse → List RR
  | .answer rrs soa => rrs ++ soa.toList
  | .cname rrs _ => rrs
  | .delegation rrs _ _ => rrs

/-- the hypotheses on the source predicate. -/
structure SrcHyp (n : Net) (st0 : St) (P : List Exchange → RR → Prop) : Prop where
  mono : ∀ {l1 l2 : List Exchange} {r : RR}, l1 <+: l2 → P l1 r → P l2 r
  reply : ∀ {log : List Exchange} {r : RR}, FromLog n.oracle log r → P log r
  loc : ∀ {st : St} {fuel : Nat} {q : Question} {lr : LocalResult}, Reach n st0 st →
    (resolveLocal fuel st.ctx q).2 = .ok lr → ∀ r ∈ lr.allRrs, P st.run.log r

theorem mem_prioritisingMerge {a b : List RR} {r : RR} (h : r ∈ prioritisingMerge a b) : r ∈ a ∨ r ∈ b := by
  unfold prioritisingMerge at h
  rcases List.mem_append.mp h with h | h
  · exact Or.inl h
  · exact Or.inr (List.mem_filter.mp h).1

/-- the filter never invents a record, SOA of a negative answer included. -/
theorem validate_allRrs_from_reply {q : Question} {m : Message} {mc : Nat} {resp : NameserverResponse}
    (h : validateNameserverResponse q m mc = some resp) : ∀ r ∈ resp.allRrs, r ∈ m.allRrs := by
  intro r hr
  cases resp with
  | answer rrs soa =>
    simp only [NameserverResponse.allRrs, List.mem_append] at hr
    rcases hr with hr | hr
    · exact validate_rrs_from_reply h r hr
    · cases soa with
      | none => cases hr
      | some s =>
        simp only [Option.toList_some, List.mem_singleton] at hr
        subst hr
        have := (C06_nodata_soa q m mc rrs r h).2.1
        simp [Message.allRrs, this]
  | cname rrs c => exact validate_rrs_from_reply h r hr
  | delegation rrs hs z => exact validate_rrs_from_reply h r hr

theorem query_validated_allRrs_fromLog {oracle : Oracle} {run : Run} {addr : FieldVal} {port : Nat} {q : Question}
    {rd : Bool} {mc : Nat} {resp : NameserverResponse}
    (h : (queryNameserver oracle run addr port q rd).2.bind (fun res => validateNameserverResponse q res mc)
      = some resp) :
    ∀ r ∈ resp.allRrs, FromLog oracle (queryNameserver oracle run addr port q rd).1.log r := by
  intro r hr
  cases hm : (queryNameserver oracle run addr port q rd).2 with
  | none => rw [hm] at h; cases h
  | some m =>
    rw [hm] at h
    simp only [Option.bind_some] at h
    obtain ⟨⟨ex, hex, ho⟩, _⟩ := queryNameserver_reply hm
    exact ⟨ex, hex, m, ho, validate_allRrs_from_reply h r hr⟩

section

variable (cfg : RecCfg) (st0 : St) (P : List Exchange → RR → Prop)

/-- all the records of an `ok` result are accounted for at the log of the returned state. -/
def ResOK (p : St × Except ResolutionError ResolvedRecord) : Prop :=
  ∀ res, p.2 = .ok res → ∀ r ∈ res.allRrs, P p.1.run.log r

def MachineSrc (fuel : Nat) : Prop :=
  (∀ st q, Reach cfg.net st0 st → ResOK P (resolveRec cfg fuel st q)) ∧
  (∀ st q combined mc cands next locally, Reach cfg.net st0 st → (∀ r ∈ combined, P st.run.log r) →
    ResOK P (candidateLoop cfg fuel st q combined mc cands next locally)) ∧
  (∀ st rrs q, Reach cfg.net st0 st → (∀ r ∈ rrs, P st.run.log r) →
    ResOK P (resolveCombined cfg fuel st rrs q))

theorem ResOK.error {P : List Exchange → RR → Prop} (st : St) (e : ResolutionError) : ResOK P (st, .error e) := by
  intro res h; cases h

end

theorem machine_src (cfg : RecCfg) (st0 : St) (P : List Exchange → RR → Prop) (hP : SrcHyp cfg.net st0 P) :
    ∀ fuel, MachineSrc cfg st0 P fuel := by
  intro fuel
  induction fuel with
  | zero =>
    refine ⟨?_, ?_, ?_⟩
    · intro st q _; rw [resolveRec]; exact ResOK.error _ _
    · intro st q combined mc cands next locally _ _; rw [candidateLoop]; exact ResOK.error _ _
    · intro st rrs q _ _; rw [resolveCombined]; exact ResOK.error _ _
  | succ fuel ih =>
    obtain ⟨ihR, ihL, ihC⟩ := ih
    obtain ⟨gR, gL, gC, gT⟩ := machine_good cfg fuel
    refine ⟨?_, ?_, ?_⟩
    · -- resolveRec
      intro st q hr
      rw [resolveRec_succ]
      split
      · exact ResOK.error _ _
      split
      · exact ResOK.error _ _
      split
      · exact ResOK.error _ _
      rename_i ht hl hd
      have ht' : st.run.timedOut = false := eq_false_of_ne_true ht
      have hl' : (⟨(resolveLocal (RECURSION_LIMIT + 1) st.ctx q).1, st.run⟩ : St).ctx.atRecursionLimit = false := by
        simp only [Ctx.atRecursionLimit, resolveLocal_stack]
        exact eq_false_of_ne_true hl
      have hd' : (⟨(resolveLocal (RECURSION_LIMIT + 1) st.ctx q).1, st.run⟩ : St).ctx.isDuplicate q = false := by
        simp only [Ctx.isDuplicate, resolveLocal_stack]
        exact eq_false_of_ne_true hd
      -- the state after the local lookup and the push
      have hr2 : Reach cfg.net st0 ⟨(resolveLocal (RECURSION_LIMIT + 1) st.ctx q).1.push q, st.run⟩ :=
        hr.trans ((Reach.loc st _ q).trans (Reach.push ⟨_, st.run⟩ q ht' hl' hd'))
      split
      · rename_i resolved hloc
        intro res hres r hmem
        simp only [Except.ok.injEq] at hres
        subst hres
        exact hP.loc hr hloc r hmem
      · rename_i rrs cq hloc
        have hrrs : ∀ r ∈ rrs, P st.run.log r := fun r hmem => hP.loc hr hloc r hmem
        exact ihC _ rrs cq hr2 hrrs
      · rename_i other hnd hnc
        unfold recUpstream
        have hcg : Good cfg.net ⟨(resolveLocal (RECURSION_LIMIT + 1) st.ctx q).1.push q, st.run⟩
            (initialCandidates ⟨(resolveLocal (RECURSION_LIMIT + 1) st.ctx q).1.push q, st.run⟩ q
              (resolveLocal (RECURSION_LIMIT + 1) st.ctx q).2).1 := by
          unfold initialCandidates
          split
          · exact Good.refl _ _
          · exact candidateNameservers_good cfg.net _ _
        split
        · exact ResOK.error _ _
        · rename_i c _
          refine ihL _ q _ _ _ _ _ (hr2.trans hcg.1) ?_
          intro r hmem
          refine hP.mono hcg.1.log_prefix ?_
          show P st.run.log r
          cases hloc : (resolveLocal (RECURSION_LIMIT + 1) st.ctx q).2 with
          | error e => rw [hloc] at hmem; simp [initialCombined] at hmem
          | ok lr =>
            rw [hloc] at hmem
            cases lr with
            | partialAnswer rrs => exact hP.loc hr hloc r hmem
            | done _ => simp [initialCombined] at hmem
            | delegation _ _ _ => simp [initialCombined] at hmem
            | cname _ _ => simp [initialCombined] at hmem
    · -- candidateLoop
      intro st q combined mc cands next locally hr hcomb
      rw [candidateLoop_succ]
      split
      · exact ResOK.error _ _
      split
      · exact ResOK.error _ _
      rename_i candidate _
      have htry := gT st locally candidate (rtypesFor cfg.mode)
      split
      · exact ResOK.error _ _
      rename_i ht1
      have hcomb1 : ∀ r ∈ combined, P (tryTypes cfg fuel st locally candidate (rtypesFor cfg.mode)).1.run.log r :=
        fun r hmem => hP.mono htry.1.log_prefix (hcomb r hmem)
      have hr1 := hr.trans htry.1
      split
      · rename_i addr haddr
        have hfam := tryTypes_family cfg fuel st locally candidate addr haddr
        generalize (tryTypes cfg fuel st locally candidate (rtypesFor cfg.mode)).1 = st1 at ht1 hcomb1 hr1 ⊢
        have hq := Reach.query (n := cfg.net) st1 addr q hfam (eq_false_of_ne_true ht1)
        have hpre : st1.run.log <+: (queryNameserver cfg.oracle st1.run addr cfg.port q false).1.log :=
          hq.log_prefix
        have hr2 := hr1.trans hq
        unfold loopQuery
        split
        · exact ResOK.error _ _
        cases hresp : (queryNameserver cfg.oracle st1.run addr cfg.port q false).2.bind
            (fun res => validateNameserverResponse q res mc) with
        | none => exact ResOK.error _ _
        | some resp =>
          have hsrc := query_validated_allRrs_fromLog hresp
          have hsrc' := query_validated_fromLog hresp
          generalize (queryNameserver cfg.oracle st1.run addr cfg.port q false).1 = run2 at hsrc hsrc' hpre hr2 ⊢
          have hcomb2 : ∀ r ∈ combined, P run2.log r := fun r hmem => hP.mono hpre (hcomb1 r hmem)
          cases resp with
          | answer rrs soa =>
            intro res hres r hmem
            simp only [loopAfterReply, Except.ok.injEq] at hres
            subst hres
            simp only [ResolvedRecord.allRrs, nonAuth_rrs, nonAuth_soaRR, List.mem_append] at hmem
            simp only [loopAfterReply]
            rcases hmem with hmem | hmem
            · rcases mem_prioritisingMerge hmem with hmem | hmem
              · exact hcomb2 r hmem
              · exact hP.reply (hsrc r (by simp [NameserverResponse.allRrs, hmem]))
            · exact hP.reply (hsrc r (by simp [NameserverResponse.allRrs, hmem]))
          | cname rrs c =>
            refine ihC _ _ _ (hr2.trans (Reach.cache ⟨st1.ctx, run2⟩ rrs hsrc')) ?_
            intro r hmem
            rcases mem_prioritisingMerge hmem with hmem | hmem
            · exact hcomb2 r hmem
            · exact hP.reply (hsrc r hmem)
          | delegation rrs hs zone =>
            unfold loopAfterReply
            simp only
            split
            · rename_i rr hglue
              intro res hres r hmem
              simp only [Except.ok.injEq] at hres
              subst hres
              simp only [ResolvedRecord.allRrs, nonAuth_rrs, nonAuth_soaRR, Option.toList_none,
                List.append_nil] at hmem
              rcases mem_prioritisingMerge hmem with hmem | hmem
              · exact hcomb2 r hmem
              · simp only [List.mem_singleton] at hmem
                subst hmem
                have hin : r ∈ rrs := by
                  unfold glueFor at hglue
                  split at hglue
                  · exact List.mem_of_find?_eq_some hglue
                  · split at hglue
                    · exact List.mem_of_find?_eq_some hglue
                    · cases hglue
                exact hP.reply (hsrc r hin)
            · exact ihL _ _ _ _ _ _ _ (hr2.trans (Reach.cache ⟨st1.ctx, run2⟩ rrs hsrc')) hcomb2
      · unfold loopNoAddr
        split
        · split
          · exact ihL _ _ _ _ _ _ _ hr1 hcomb1
          · exact ihL _ _ _ _ _ _ _ hr1 hcomb1
        · exact ihL _ _ _ _ _ _ _ hr1 hcomb1
    · -- resolveCombined
      intro st rrs q hr hrrs
      rw [resolveCombined_succ]
      have hrec := ihR st q hr
      have hpre := (gR st q).1.log_prefix
      split
      · rename_i resolved hres
        intro res hh r hmem
        simp only [Except.ok.injEq] at hh
        subst hh
        simp only [ResolvedRecord.allRrs, nonAuth_rrs, nonAuth_soaRR, List.mem_append] at hmem
        rcases hmem with (hmem | hmem) | hmem
        · exact hP.mono hpre (hrrs r hmem)
        · exact hrec resolved hres r (by simp [ResolvedRecord.allRrs, hmem])
        · exact hrec resolved hres r (by simp [ResolvedRecord.allRrs, hmem])
      · exact ResOK.error _ _
      · exact ResOK.error _ _
      · exact ResOK.error _ _

theorem fwd_src (cfg : FwdCfg) (st0 : St) (P : List Exchange → RR → Prop) (hP : SrcHyp cfg.net st0 P) :
    ∀ (fuel : Nat) (st : St) (q : Question), Reach cfg.net st0 st → ResOK P (resolveFwd cfg fuel st q) := by
  intro fuel
  induction fuel with
  | zero => intro st q _; rw [resolveFwd]; exact ResOK.error _ _
  | succ fuel ih =>
    intro st q hr
    rw [resolveFwd]
    split
    · exact ResOK.error _ _
    split
    · exact ResOK.error _ _
    split
    · exact ResOK.error _ _
    rename_i ht hl hd
    have ht' : st.run.timedOut = false := eq_false_of_ne_true ht
    have hl' : (⟨(resolveLocal (RECURSION_LIMIT + 1) st.ctx q).1, st.run⟩ : St).ctx.atRecursionLimit = false := by
      simp only [Ctx.atRecursionLimit, resolveLocal_stack]
      exact eq_false_of_ne_true hl
    have hd' : (⟨(resolveLocal (RECURSION_LIMIT + 1) st.ctx q).1, st.run⟩ : St).ctx.isDuplicate q = false := by
      simp only [Ctx.isDuplicate, resolveLocal_stack]
      exact eq_false_of_ne_true hd
    have hr1 : Reach cfg.net st0 ⟨(resolveLocal (RECURSION_LIMIT + 1) st.ctx q).1, st.run⟩ :=
      hr.trans (Reach.loc st _ q)
    have hr2 : Reach cfg.net st0 ⟨(resolveLocal (RECURSION_LIMIT + 1) st.ctx q).1.push q, st.run⟩ :=
      hr1.trans (Reach.push ⟨_, st.run⟩ q ht' hl' hd')
    simp only []
    split
    · rename_i resolved hloc
      intro res hres r hmem
      simp only [Except.ok.injEq] at hres
      subst hres
      exact hP.loc hr hloc r hmem
    · rename_i rrs cq hloc
      have hrrs : ∀ r ∈ rrs, P st.run.log r := fun r hmem => hP.loc hr hloc r hmem
      have hrec := ih _ cq hr2
      have hpre := (resolveFwd_good cfg fuel ⟨(resolveLocal (RECURSION_LIMIT + 1) st.ctx q).1.push q, st.run⟩
        cq).1.log_prefix
      split
      · rename_i resolved hres
        intro res hh r hmem
        simp only [Except.ok.injEq] at hh
        subst hh
        simp only [ResolvedRecord.allRrs, nonAuth_rrs, nonAuth_soaRR, List.mem_append] at hmem
        rcases hmem with (hmem | hmem) | hmem
        · exact hP.mono hpre (hrrs r hmem)
        · exact hrec resolved hres r (by simp [ResolvedRecord.allRrs, hmem])
        · exact hrec resolved hres r (by simp [ResolvedRecord.allRrs, hmem])
      · exact ResOK.error _ _
      · exact ResOK.error _ _
      · exact ResOK.error _ _
    · rename_i other hnd hnc
      have hq := Reach.query (n := cfg.net) ⟨(resolveLocal (RECURSION_LIMIT + 1) st.ctx q).1, st.run⟩ cfg.addr q rfl ht'
      have hpre : st.run.log <+: (queryNameserver cfg.oracle st.run cfg.addr cfg.port q true).1.log := hq.log_prefix
      split
      · exact ResOK.error _ _
      · split
        · rename_i response hresp
          obtain ⟨⟨ex, hex, ho⟩, _⟩ := queryNameserver_reply hresp
          intro res hh r hmem
          simp only [Except.ok.injEq] at hh
          subst hh
          simp only [ResolvedRecord.allRrs, nonAuth_rrs, nonAuth_soaRR, List.mem_append] at hmem
          show P (queryNameserver cfg.oracle st.run cfg.addr cfg.port q true).1.log r
          rcases hmem with hmem | hmem
          · rcases mem_prioritisingMerge hmem with hmem | hmem
            · refine hP.mono hpre ?_
              cases hloc : (resolveLocal (RECURSION_LIMIT + 1) st.ctx q).2 with
              | error e => rw [hloc] at hmem; simp at hmem
              | ok lr =>
                rw [hloc] at hmem
                cases lr with
                | partialAnswer rrs => exact hP.loc hr hloc r hmem
                | done _ => simp at hmem
                | delegation _ _ _ => simp at hmem
                | cname _ _ => simp at hmem
            · exact hP.reply ⟨ex, hex, response, ho, by simp [Message.allRrs, hmem]⟩
          · cases hs : getNxdomainNodataSoa q response 0 with
            | none => rw [hs] at hmem; cases hmem
            | some soa =>
              rw [hs] at hmem
              simp only [Option.toList_some, List.mem_singleton] at hmem
              subst hmem
              have h3 := (getNxdomainNodataSoa_some hs).2.2.1
              have hin : r ∈ response.authority.filter (fun rr => rr.rtype == RT_SOA) := by simp [h3]
              exact hP.reply ⟨ex, hex, response, ho, by simp [Message.allRrs, (List.mem_filter.mp hin).1]⟩
        · exact ResOK.error _ _

/-! ## The concrete source predicate -/

/-- `r` was returned by a local lookup (zones + cache) made on a state the machine can reach from
    `st0` (same zones; the cache differs from the initial one only by the effects of local
    lookups and by insertions of records of logged replies — see `Reach`). -/
def LocalSrc (n : Net) (st0 : St) (log : List Exchange) (r : RR) : Prop :=
  ∃ (st : St) (fuel : Nat) (q : Question) (lr : LocalResult),
    Reach n st0 st ∧ st.run.log <+: log ∧ (resolveLocal fuel st.ctx q).2 = .ok lr ∧ r ∈ lr.allRrs

/-- `r` occurs in the oracle's reply to an exchange of `log`, or a local lookup returned it. -/
def Src (n : Net) (st0 : St) (log : List Exchange) (r : RR) : Prop :=
  FromLog n.oracle log r ∨ LocalSrc n st0 log r

theorem src_hyp (n : Net) (st0 : St) : SrcHyp n st0 (Src n st0) where
  mono := by
    intro l1 l2 r hpre h
    rcases h with h | ⟨st, fuel, q, lr, h1, h2, h3, h4⟩
    · exact Or.inl (h.mono hpre)
    · exact Or.inr ⟨st, fuel, q, lr, h1, h2.trans hpre, h3, h4⟩
  reply := fun h => Or.inl h
  loc := fun {st fuel q lr} hr h r hmem => Or.inr ⟨st, fuel, q, lr, hr, List.prefix_refl _, h, hmem⟩

end Resolved
