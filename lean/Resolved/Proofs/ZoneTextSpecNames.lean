/-
  C11: the name parser against the name resolution of the specification:
  `parse_domain origin (text of a NameRef) = ZTSpec.resolve origin (that NameRef)`.
-/
import Resolved.Proofs.ZoneTextNames
import Resolved.Proofs.ZoneTextRenderLine
import Resolved.Proofs.ZoneTextZone

namespace Resolved.ZoneText

open Resolved Resolved.IpText Gen ZTSpec

/-! ## joined labels -/

/-- `l1.l2.….ln` as octets. -/
def joinDots : List Label → List UInt8
  | [] => []
  | [l] => l
  | l :: m :: ms => l ++ 46 :: joinDots (m :: ms)

theorem joinDots_cons (l : Label) (ls : List Label) (h : ls ≠ []) :
    joinDots (l :: ls) = l ++ 46 :: joinDots ls := by
  cases ls with
  | nil => exact absurd rfl h
  | cons m ms => rfl

theorem joinDots_append (a b : List Label) (ha : a ≠ []) (hb : b ≠ []) :
    joinDots (a ++ b) = joinDots a ++ 46 :: joinDots b := by
  induction a with
  | nil => exact absurd rfl ha
  | cons l ls ih =>
    cases ls with
    | nil => simp [joinDots_cons l b hb, joinDots]
    | cons m ms =>
      rw [List.cons_append, joinDots_cons l _ (by simp), ih (by simp), joinDots_cons l (m :: ms) (by simp)]
      simp

/-- octets of a label list in which no label contains a dot. -/
def NoDots (ls : List Label) : Prop := ∀ l ∈ ls, ∀ b ∈ l, b ≠ 46

theorem splitDot_joinDots (ls : List Label) (hne : ls ≠ []) (h : NoDots ls) :
    Name.splitDot (joinDots ls) = ls := by
  induction ls with
  | nil => exact absurd rfl hne
  | cons l ls ih =>
    cases ls with
    | nil => exact splitDot_nodot l (h l (by simp))
    | cons m ms =>
      rw [joinDots_cons l _ (by simp), splitDot_append_dot l _ (h l (by simp)),
        ih (by simp) (fun x hx => h x (by simp [hx]))]

theorem splitDot_joinDots_dot (ls : List Label) (hne : ls ≠ []) (h : NoDots ls) :
    Name.splitDot (joinDots ls ++ [46]) = ls ++ [[]] := by
  have : joinDots ls ++ [46] = joinDots (ls ++ [[]]) := by
    rw [joinDots_append ls [[]] hne (by simp)]
    simp [joinDots]
  rw [this]
  apply splitDot_joinDots _ (by simp)
  intro l hl
  simp only [List.mem_append, List.mem_singleton] at hl
  rcases hl with hl | hl
  · exact h l hl
  · subst hl; simp

theorem atomOctets_labelAtoms (l : Label) : atomOctets (labelAtoms l) = l := by
  induction l with
  | nil => rfl
  | cons b bs ih =>
    simp only [atomOctets, labelAtoms, List.map_cons, List.map_map] at ih ⊢
    rw [ih]

theorem atomOctets_dottedLabels (ls : List Label) : atomOctets (ZTSpec.dottedLabels ls) = joinDots ls := by
  induction ls with
  | nil => rfl
  | cons l ls ih =>
    cases ls with
    | nil => simp [ZTSpec.dottedLabels, joinDots, atomOctets_labelAtoms]
    | cons m ms =>
      have : atomOctets (ZTSpec.dottedLabels (l :: m :: ms))
          = atomOctets (labelAtoms l) ++ 46 :: atomOctets (ZTSpec.dottedLabels (m :: ms)) := by
        simp [ZTSpec.dottedLabels, atomOctets, dot]
      rw [this, ih, atomOctets_labelAtoms]
      rfl

/-! ## `from_dotted_string` on joined labels, against `mkName` -/

theorem lowerLabel_eq (l : Label) : lowerLabel l = l.map lowerByte := rfl

theorem chunksToLabels_plain (ls : List Label) (hlen : ∀ l ∈ ls, 1 ≤ l.length ∧ l.length ≤ 63) :
    Name.dottedChunksToLabels (ls ++ [[]]) = some (ls.map lowerLabel ++ [[]]) := by
  induction ls with
  | nil => simp [Name.dottedChunksToLabels, Label.tryFrom, LABEL_MAX_LEN]
  | cons l ls ih =>
    have hl := hlen l (by simp)
    have hne : l.isEmpty = false := by
      cases l with
      | nil => simp at hl
      | cons _ _ => rfl
    have htry : Label.tryFrom l = some (lowerLabel l) := by
      unfold Label.tryFrom
      rw [if_neg (by simp [LABEL_MAX_LEN]; omega)]
      rfl
    have hrest := ih (fun x hx => hlen x (by simp [hx]))
    cases hls : ls ++ [[]] with
    | nil => simp at hls
    | cons c cs =>
      rw [List.cons_append, hls]
      simp only [Name.dottedChunksToLabels, hne, Bool.false_eq_true, if_false, htry]
      rw [← hls, hrest]
      simp

theorem sum_lengths (ls : List Label) :
    (ls.map (fun l => l.length + 1)).sum + 1 = (ls ++ [[]]).length + sumLen (ls ++ [[]]) := by
  induction ls with
  | nil => simp [sumLen]
  | cons l ls ih =>
    simp only [List.map_cons, List.sum_cons, List.cons_append, List.length_cons, sumLen_cons] at ih ⊢
    omega

/-- what `mkName` accepts. -/
def LenOK (ls : List Label) : Prop := ∀ l ∈ ls, 1 ≤ l.length ∧ l.length ≤ 63

theorem mkName_eq (ls : List Label) (hlen : LenOK ls) :
    mkName ls =
      if (ls ++ [[]]).length + sumLen (ls ++ [[]]) ≤ 255 then
        .ok ⟨ls.map lowerLabel ++ [[]], (ls ++ [[]]).length + sumLen (ls ++ [[]])⟩
      else .error .badName := by
  unfold mkName
  simp only
  have hall : ((ls.map lowerLabel).all fun l => decide (1 ≤ l.length ∧ l.length ≤ 63)) = true := by
    simp only [List.all_map, List.all_eq_true, Function.comp, decide_eq_true_eq]
    intro l hl
    simpa [lowerLabel] using hlen l hl
  have hsum : ((ls.map lowerLabel).map (fun l => l.length + 1)).sum + 1
      = (ls ++ [[]]).length + sumLen (ls ++ [[]]) := by
    rw [← sum_lengths]
    simp [lowerLabel, Function.comp_def]
  rw [hsum, hall]
  simp

theorem sumLen_lower (ls : List Label) : sumLen (ls.map lowerLabel) = sumLen ls := by
  induction ls with
  | nil => rfl
  | cons l ls ih => simp [sumLen_cons, ih, lowerLabel]

/-- `from_labels` on lower-cased non-empty labels followed by the root label. -/
theorem fromLabels_plain (ls : List Label) (hlen : LenOK ls) :
    Name.fromLabels (ls.map lowerLabel ++ [[]]) =
      if (ls ++ [[]]).length + sumLen (ls ++ [[]]) ≤ 255 then
        some ⟨ls.map lowerLabel ++ [[]], (ls ++ [[]]).length + sumLen (ls ++ [[]])⟩
      else none := by
  rw [fromLabels_eq]
  have hshape : LabelsShape (ls.map lowerLabel ++ [[]]) := by
    refine ⟨by simp, by simp, ?_⟩
    intro l hl
    rw [List.dropLast_concat] at hl
    simp only [List.mem_map] at hl
    obtain ⟨x, hx, rfl⟩ := hl
    have h1 := (hlen x hx).1
    intro he
    have h0 : (lowerLabel x).length = 0 := by rw [he]; rfl
    have h2 : (lowerLabel x).length = x.length := by simp [lowerLabel]
    omega
  have hl1 : (ls.map lowerLabel ++ [[]]).length = (ls ++ [[]]).length := by simp
  have hl2 : sumLen (ls.map lowerLabel ++ [[]]) = sumLen (ls ++ [[]]) := by
    simp [sumLen_append, sumLen_lower]
  rw [hl1, hl2]
  simp only [hshape, true_and, DOMAINNAME_MAX_LEN]

/-- **`from_dotted_string("l1.l2.….ln.")` is `mkName [l1, …, ln]`** for dot-free labels of 1 … 63 octets. -/
theorem fromDotted_joinDots (ls : List Label) (hne : ls ≠ []) (hlen : LenOK ls) (hnd : NoDots ls) :
    Name.fromDotted (joinDots ls ++ [46]) = (match mkName ls with | .ok n => some n | .error _ => none) := by
  have hne46 : joinDots ls ++ [46] ≠ [46] := by
    cases ls with
    | nil => exact absurd rfl hne
    | cons l rest =>
      have hl := (hlen l (by simp)).1
      cases l with
      | nil => simp at hl
      | cons b bs =>
        cases rest with
        | nil => simp [joinDots]
        | cons m ms => simp [joinDots]
  unfold Name.fromDotted
  rw [if_neg hne46, splitDot_joinDots_dot ls hne hnd, chunksToLabels_plain ls hlen]
  simp only
  rw [fromLabels_plain ls hlen, mkName_eq ls hlen]
  split <;> rfl

/-! ## labels accepted by the side condition -/

theorem labelOk_iff (l : Label) :
    labelOk false l = true ↔ (1 ≤ l.length ∧ l.length ≤ 63) ∧ ∀ b ∈ l, b.toNat < 128 ∧ b ≠ 46 := by
  simp [labelOk, and_assoc]

theorem labelsOk_props {ls : List Label} (h : ls.all (labelOk false) = true) :
    LenOK ls ∧ NoDots ls ∧ ∀ l ∈ ls, ∀ b ∈ l, b.toNat < 128 := by
  simp only [List.all_eq_true] at h
  refine ⟨fun l hl => ((labelOk_iff l).mp (h l hl)).1, fun l hl b hb => (((labelOk_iff l).mp (h l hl)).2 b hb).2,
    fun l hl b hb => (((labelOk_iff l).mp (h l hl)).2 b hb).1⟩

theorem joinDots_ascii (ls : List Label) (h : ∀ l ∈ ls, ∀ b ∈ l, b.toNat < 128) :
    ∀ b ∈ joinDots ls, b.toNat < 128 := by
  induction ls with
  | nil => intro b hb; simp [joinDots] at hb
  | cons l ls ih =>
    cases ls with
    | nil => intro b hb; exact h l (by simp) b (by simpa [joinDots] using hb)
    | cons m ms =>
      intro b hb
      rw [joinDots_cons l _ (by simp)] at hb
      simp only [List.mem_append, List.mem_cons] at hb
      rcases hb with hb | hb | hb
      · exact h l (by simp) b hb
      · subst hb; decide
      · exact ih (fun x hx => h x (by simp [hx])) b hb

theorem joinDots_ne_nil (ls : List Label) (hne : ls ≠ []) (hlen : LenOK ls) : joinDots ls ≠ [] := by
  cases ls with
  | nil => exact absurd rfl hne
  | cons l rest =>
    have hl := (hlen l (by simp)).1
    cases l with
    | nil => simp at hl
    | cons b bs => cases rest <;> simp [joinDots]

theorem joinDots_getLast (ls : List Label) (hne : ls ≠ []) (hlen : LenOK ls) (hnd : NoDots ls) :
    ∃ b, (joinDots ls).getLast? = some b ∧ b ≠ 46 := by
  induction ls with
  | nil => exact absurd rfl hne
  | cons l ls ih =>
    cases ls with
    | nil =>
      have hl := (hlen l (by simp)).1
      obtain ⟨b, hb⟩ : ∃ b, l.getLast? = some b := by
        cases hgl : l.getLast? with
        | none => simp at hgl; subst hgl; simp at hl
        | some b => exact ⟨b, rfl⟩
      exact ⟨b, by simpa [joinDots] using hb, hnd l (by simp) b (List.mem_of_getLast? hb)⟩
    | cons m ms =>
      obtain ⟨b, hb1, hb2⟩ := ih (by simp) (fun x hx => hlen x (by simp [hx])) (fun x hx => hnd x (by simp [hx]))
      refine ⟨b, ?_, hb2⟩
      rw [joinDots_cons l _ (by simp), List.getLast?_append]
      cases hj : joinDots (m :: ms) with
      | nil => rw [hj] at hb1; simp at hb1
      | cons y ys => rw [hj] at hb1; rw [List.getLast?_cons_cons, hb1]; rfl

theorem joinDots_eq_at (ls : List Label) (hlen : LenOK ls) (h : joinDots ls = [64]) : ls = [[64]] := by
  cases ls with
  | nil => simp [joinDots] at h
  | cons l rest =>
    cases rest with
    | nil => simp [joinDots] at h; rw [h]
    | cons m ms =>
      rw [joinDots_cons l _ (by simp)] at h
      have hl := (hlen l (by simp)).1
      cases l with
      | nil => simp at hl
      | cons b bs => simp at h

/-! ## the dotted string of a text name -/

theorem dottedLabels_true_eq_joinDots (ls : List Label) (h : ∀ l ∈ ls, ∀ b ∈ l, b.toNat < 128) :
    Name.dottedLabels ls true = joinDots ls := by
  induction ls with
  | nil => rfl
  | cons l ls ih =>
    rw [dottedLabels_cons_true l ls (h l (by simp))]
    cases ls with
    | nil => simp [Name.dottedLabels, joinDots]
    | cons m ms =>
      have hrest : ∀ x ∈ m :: ms, ∀ b ∈ x, b.toNat < 128 := fun x hx => h x (by simp [hx])
      rw [dottedLabels_false_eq (m :: ms) hrest (by simp), ih hrest, joinDots_cons l _ (by simp)]

theorem TextName.init {n : Name} (h : TextName n) : n.labels = n.labels.dropLast ++ [[]] := by
  obtain ⟨ys, hys⟩ := List.getLast?_eq_some_iff.mp h.shape.1.2.1
  rw [hys]; simp

/-- the dotted string of a text name that is not the root: its labels joined by dots, and a final dot. -/
theorem toDotted_eq_joinDots {n : Name} (h : TextName n) (hr : n.isRoot = false) :
    n.toDotted = joinDots n.labels.dropLast ++ [46] := by
  rw [toDotted_nonroot hr, h.init]
  obtain ⟨l, ls, hls, hl0, hlsne⟩ := h.first_ne_nil hr
  have hinit : n.labels.dropLast ≠ [] := by
    rw [hls]
    cases ls with
    | nil => exact absurd rfl hlsne
    | cons m ms => simp
  rw [dottedLabels_append _ _ _ (fun x hx b hb => h.labels_ascii x (List.dropLast_subset _ hx) b hb) hinit,
    dottedLabels_true_eq_joinDots _ (fun x hx b hb => h.labels_ascii x (List.dropLast_subset _ hx) b hb)]
  simp [Name.dottedLabels]

theorem TextName.init_props {n : Name} (h : TextName n) :
    LenOK n.labels.dropLast ∧ NoDots n.labels.dropLast ∧
    (∀ l ∈ n.labels.dropLast, ∀ b ∈ l, b.toNat < 128) ∧ n.labels.dropLast.map lowerLabel = n.labels.dropLast := by
  have hmem : ∀ l ∈ n.labels.dropLast, l ∈ n.labels := fun l hl => List.dropLast_subset _ hl
  refine ⟨?_, ?_, ?_, ?_⟩
  · intro l hl
    have hne := h.shape.1.2.2 l hl
    have hle := (h.2 l (hmem l hl)).1
    refine ⟨?_, by simpa [LABEL_MAX_LEN] using hle⟩
    cases l with
    | nil => exact absurd rfl hne
    | cons _ _ => simp
  · intro l hl b hb; exact ((h.2 l (hmem l hl)).2 b hb).2.1
  · intro l hl b hb; exact ((h.2 l (hmem l hl)).2 b hb).1
  · have : ∀ l ∈ n.labels.dropLast, lowerLabel l = l := fun l hl =>
      map_lowerByte_text l (h.2 l (hmem l hl))
    generalize n.labels.dropLast = L at this
    induction L with
    | nil => rfl
    | cons x xs ih =>
      simp only [List.map_cons]
      rw [this x (by simp), ih (fun l hl => this l (by simp [hl]))]

/-! ## what `mkName` builds is a text name -/

theorem lowerByte_props (b : UInt8) (h1 : b.toNat < 128) (h2 : b ≠ 46) :
    (lowerByte b).toNat < 128 ∧ lowerByte b ≠ 46 := by
  unfold lowerByte
  split
  · rename_i hu
    have : (UInt8.ofNat (b.toNat + 32)).toNat = b.toNat + 32 := by simp; omega
    refine ⟨by omega, ?_⟩
    intro he
    have := congrArg UInt8.toNat he
    simp at this
    omega
  · exact ⟨h1, h2⟩

theorem mkName_textName {ls : List Label} {n : Name} (hlen : LenOK ls) (hnd : NoDots ls)
    (hascii : ∀ l ∈ ls, ∀ b ∈ l, b.toNat < 128) (h : mkName ls = .ok n) : TextName n := by
  rw [mkName_eq ls hlen] at h
  split at h
  · rename_i hle
    cases h
    refine ⟨?_, ?_⟩
    · simp only
      rw [fromLabels_plain ls hlen, if_pos hle]
    · intro l hl
      simp only [List.mem_append, List.mem_map, List.mem_singleton] at hl
      rcases hl with ⟨x, hx, rfl⟩ | rfl
      · refine ⟨by simpa [lowerLabel, LABEL_MAX_LEN] using (hlen x hx).2, ?_⟩
        intro b hb
        simp only [lowerLabel, List.mem_map] at hb
        obtain ⟨a, ha, rfl⟩ := hb
        have := lowerByte_props a (hascii x hx a ha) (hnd x hx a ha)
        exact ⟨this.1, this.2, lowerByte_not_upper a⟩
      · exact ⟨by simp, by simp⟩
  · cases h

theorem root_textName : TextName Name.root := by
  refine ⟨by decide, ?_⟩
  intro l hl
  simp [Name.root] at hl
  subst hl
  exact ⟨by simp, by simp⟩

/-! ## `parse_domain` against `resolve` -/

/-- the parser's error for the specification's error. -/
def nameErr : SpecError → Error
  | .noOrigin => .expectedOrigin
  | _ => .expectedDomainName

def nameResult : Except SpecError Name → Except Error Name
  | .ok n => .ok n
  | .error e => .error (nameErr e)

def nameChars (n : NameRef) : List Char := (atomOctets (nameAtoms n)).map octetAsChar

theorem parseDomain_abs (o : Option Name) (ls : List Label) (hok : ls.all (labelOk false) = true) :
    parseDomain o (nameChars (.abs ls)) = nameResult (resolve o (.abs ls)) := by
  obtain ⟨hlen, hnd, hascii⟩ := labelsOk_props hok
  cases ls with
  | nil =>
    have : nameChars (.abs []) = ([46] : List UInt8).map octetAsChar := rfl
    rw [this, parseDomain_of_octets o [46] (by simp) (by decide)]
    simp only [resolve, nameResult]
    rw [mkName_eq [] (by intro l hl; simp at hl)]
    rfl
  | cons l rest =>
    have hoct : atomOctets (nameAtoms (.abs (l :: rest))) = joinDots (l :: rest) ++ [46] := by
      simp [nameAtoms, atomOctets, ← atomOctets_dottedLabels, dot]
    unfold nameChars
    rw [hoct]
    have hne : joinDots (l :: rest) ++ [46] ≠ [] := by simp
    have hasc : ∀ b ∈ joinDots (l :: rest) ++ [46], b.toNat < 128 := by
      intro b hb
      simp only [List.mem_append, List.mem_singleton] at hb
      rcases hb with hb | hb
      · exact joinDots_ascii _ hascii b hb
      · subst hb; decide
    rw [parseDomain_of_octets o _ hne hasc]
    have h64 : joinDots (l :: rest) ++ [46] ≠ [64] := by
      intro he
      have := congrArg List.getLast? he
      simp at this
    rw [if_neg h64, if_pos (by simp), fromDotted_joinDots (l :: rest) (by simp) hlen hnd]
    simp only [resolve, nameResult]
    cases hm : mkName (l :: rest) with
    | ok n => rfl
    | error e =>
      rw [mkName_eq _ hlen] at hm
      split at hm
      · cases hm
      · cases hm; rfl

theorem parseDomain_rel (o : Option Name) (ho : ∀ on, o = some on → TextName on) (ls : List Label)
    (hne : ls ≠ []) (hok : ls.all (labelOk false) = true) (hat : ls ≠ [[64]]) :
    parseDomain o (nameChars (.rel ls)) = nameResult (resolve o (.rel ls)) := by
  obtain ⟨hlen, hnd, hascii⟩ := labelsOk_props hok
  have hoct : atomOctets (nameAtoms (.rel ls)) = joinDots ls := by
    unfold nameAtoms
    split
    · rename_i heq; cases heq
    · rename_i heq; cases heq
    · rename_i heq; cases heq; exact absurd rfl hat
    · rename_i heq; cases heq; exact atomOctets_dottedLabels ls
    · rename_i heq; cases heq
  unfold nameChars
  rw [hoct]
  have hjne := joinDots_ne_nil ls hne hlen
  have hjasc := joinDots_ascii ls hascii
  obtain ⟨lastb, hlast1, hlast2⟩ := joinDots_getLast ls hne hlen hnd
  rw [parseDomain_of_octets o _ hjne hjasc]
  have h64 : joinDots ls ≠ [64] := fun he => hat (joinDots_eq_at ls hlen he)
  have hnl : ¬ (joinDots ls).getLast? = some 46 := by
    rw [hlast1]; intro he; exact hlast2 (Option.some.inj he)
  rw [if_neg h64, if_neg hnl]
  cases o with
  | none => rfl
  | some on =>
    have hon := ho on rfl
    simp only [resolve]
    have hfr : Name.fromRelativeDotted on (joinDots ls)
        = (match mkName (ls ++ on.labels.dropLast) with | .ok n => some n | .error _ => none) := by
      unfold Name.fromRelativeDotted
      have e1 : (joinDots ls).isEmpty = false := by
        cases hj : joinDots ls with
        | nil => exact absurd hj hjne
        | cons _ _ => rfl
      rw [e1]
      simp only [Bool.false_eq_true, if_false]
      rw [if_neg hnl]
      cases hr : on.isRoot with
      | true =>
        have hroot := isRoot_eq_root hon hr
        have hd : on.toDotted = [46] := by simp [Name.toDotted, hr]
        rw [hd]
        simp only [List.head?_cons, if_true]
        rw [fromDotted_joinDots ls hne hlen hnd, hroot]
        simp [Name.root]
      | false =>
        obtain ⟨hl2, hn2, ha2, -⟩ := hon.init_props
        obtain ⟨a0, as, hlabs, ha0, hasne⟩ := hon.first_ne_nil hr
        have hinit : on.labels.dropLast ≠ [] := by
          rw [hlabs]
          cases as with
          | nil => exact absurd rfl hasne
          | cons m ms => simp
        rw [toDotted_eq_joinDots hon hr]
        have hhead : ¬ (joinDots on.labels.dropLast ++ [46]).head? = some 46 := by
          have hfirst : ∃ rest, on.labels.dropLast = a0 :: rest := by
            rw [hlabs]
            cases as with
            | nil => exact absurd rfl hasne
            | cons m ms => exact ⟨(m :: ms).dropLast, by simp [List.dropLast]⟩
          obtain ⟨rest, hrest⟩ := hfirst
          rw [hrest]
          cases a0 with
          | nil => exact absurd rfl ha0
          | cons b bs =>
            have hb : b ≠ 46 := hn2 (b :: bs) (by rw [hrest]; simp) b (by simp)
            cases rest with
            | nil => simp [joinDots]; exact hb
            | cons m ms => simp [joinDots]; exact hb
        rw [if_neg hhead]
        have hjoin : joinDots ls ++ [46] ++ (joinDots on.labels.dropLast ++ [46])
            = joinDots (ls ++ on.labels.dropLast) ++ [46] := by
          rw [joinDots_append ls _ hne hinit]; simp
        rw [hjoin, fromDotted_joinDots (ls ++ on.labels.dropLast) (by simp [hne])
          (fun l hl => by
            simp only [List.mem_append] at hl
            rcases hl with hl | hl
            · exact hlen l hl
            · exact hl2 l hl)
          (fun l hl => by
            simp only [List.mem_append] at hl
            rcases hl with hl | hl
            · exact hnd l hl
            · exact hn2 l hl)]
    rw [hfr]
    have hlen' : LenOK (ls ++ on.labels.dropLast) := by
      intro l hl
      simp only [List.mem_append] at hl
      rcases hl with hl | hl
      · exact hlen l hl
      · exact hon.init_props.1 l hl
    cases hm : mkName (ls ++ on.labels.dropLast) with
    | ok n => rfl
    | error e =>
      rw [mkName_eq _ hlen'] at hm
      split at hm
      · cases hm
      · cases hm; rfl

end Resolved.ZoneText
