/-
  C02 refinement: `zone_result_helper` on a record map agrees with the specification's `classify`
  on the flat record list it represents (up to the order inside an ANY answer).
-/
import Resolved.Proofs.ZoneRepr

namespace Resolved

open Gen ZSpec

/-! ## sameResult -/

theorem sameResult_refl (a : ZoneResult) : sameResult a a = true := by
  cases a <;> simp [sameResult]

theorem sameResult_of_eq {a b : ZoneResult} (h : a = b) : sameResult a b = true := by
  subst h; exact sameResult_refl a

theorem sameResult_answer_of_perm {x y : List RR} (h : x.Perm y) :
    sameResult (.answer x) (.answer y) = true := by
  simp only [sameResult, Bool.and_eq_true, beq_iff_eq, List.all_eq_true, List.contains_iff_mem]
  exact ⟨⟨h.length_eq, fun a ha => h.mem_iff.mp ha⟩, fun a ha => h.mem_iff.mpr ha⟩

/-! ## RecRepr consequences -/

theorem RecRepr.get_eq {m : RecMap} {zrs : List ZoneRecord} (h : RecRepr m zrs) (k : Nat) :
    (m.get k).getD [] = ofType zrs k := by
  rw [h.2 k]; split <;> rename_i h0 <;> simp [h0]

theorem RecRepr.nsOf_eq {m : RecMap} {zrs : List ZoneRecord} (h : RecRepr m zrs) :
    nsOf m = ofType zrs RT_NS := h.get_eq RT_NS

theorem RecRepr.nil_right {zrs : List ZoneRecord} (h : RecRepr [] zrs) : zrs = [] := by
  cases zrs with
  | nil => rfl
  | cons z zs =>
    have := h.2 z.rtype
    simp [ofType] at this

theorem ofType_filter_ne (zrs : List ZoneRecord) (k k' : Nat) :
    ofType (zrs.filter (fun z => z.rtype != k)) k' = if k' = k then [] else ofType zrs k' := by
  unfold ofType
  rw [List.filter_filter]
  split
  · rename_i h; subst h
    rw [List.filter_eq_nil_iff]
    intro a _; simp
  · rename_i h
    apply List.filter_congr
    intro a _
    by_cases ha : a.rtype = k' <;> simp [ha, h]

theorem RecRepr.cons_inv {k : Nat} {v : List ZoneRecord} {rest : RecMap} {zrs : List ZoneRecord}
    (h : RecRepr ((k, v) :: rest) zrs) :
    v = ofType zrs k ∧ RecRepr rest (zrs.filter (fun z => z.rtype != k)) := by
  obtain ⟨hn, hg⟩ := h
  simp only [RecMap.keys, List.map_cons, List.nodup_cons] at hn
  have hk := hg k
  simp only [RecMap.get_cons, if_true] at hk
  have hv : v = ofType zrs k := by
    split at hk
    · cases hk
    · exact Option.some.inj hk
  refine ⟨hv, hn.2, ?_⟩
  intro k'
  rw [ofType_filter_ne]
  by_cases hkk : k' = k
  · subst hkk
    simp only [if_true]
    exact (RecMap.get_eq_none_iff rest k').mpr hn.1
  · have := hg k'
    have hne : ¬ k = k' := fun e => hkk e.symm
    simp only [RecMap.get_cons, hne, if_false] at this
    simp only [hkk, if_false]
    exact this

theorem RecRepr.flatMap_perm (m : RecMap) : ∀ (zrs : List ZoneRecord), RecRepr m zrs →
    (m.flatMap (·.2)).Perm zrs := by
  induction m with
  | nil => intro zrs h; rw [h.nil_right]; exact List.Perm.refl _
  | cons kv rest ih =>
    intro zrs h
    obtain ⟨k, v⟩ := kv
    obtain ⟨hv, hrest⟩ := h.cons_inv
    simp only [List.flatMap_cons]
    have h1 := ih _ hrest
    have h2 : (ofType zrs k ++ zrs.filter (fun z => z.rtype != k)).Perm zrs := by
      have := List.filter_append_perm (fun z : ZoneRecord => z.rtype == k) zrs
      unfold ofType
      have he : (fun z : ZoneRecord => z.rtype != k) = (fun z => !(z.rtype == k)) := by
        funext z; rfl
      rw [he]; exact this
    rw [hv]
    exact (List.Perm.append_left _ h1).trans h2

/-! ## classify decomposed -/

/-- the data step of `classify`. -/
def classifyAnswer (zrs : List ZoneRecord) (qname : Name) (qtype : Nat) : ZoneResult :=
  match lookupNat queryTypeFromU16 qtype with
  | some "Wildcard" => .answer (zrs.map (·.toRR qname))
  | some _ => .answer []
  | none => .answer ((ofType zrs qtype).map (·.toRR qname))

/-- `classify` after the delegation test. -/
def classifyData (zrs : List ZoneRecord) (qname : Name) (qtype : Nat) : ZoneResult :=
  match (if rtypeMatches RT_CNAME qtype then none else (ofType zrs RT_CNAME).head?) with
  | some z =>
    match z.fields with
    | [.name target] => .cname target (z.toRR qname)
    | _ => .panic
  | none => classifyAnswer zrs qname qtype

theorem classify_eq (zrs : List ZoneRecord) (qname : Name) (qtype : Nat) (o : Option Name) (cd : Bool) :
    classify zrs qname qtype o cd =
      if cd && qtype != RT_NS && !(ofType zrs RT_NS).isEmpty then
        match o with
        | some o => .delegation ((ofType zrs RT_NS).map (·.toRR o))
        | none => .panic
      else classifyData zrs qname qtype := rfl

theorem answerOf_classifyAnswer (m : RecMap) (zrs : List ZoneRecord) (name : Name) (qtype : Nat)
    (h : RecRepr m zrs) :
    sameResult (answerOf name qtype m) (classifyAnswer zrs name qtype) = true := by
  unfold answerOf classifyAnswer
  rw [lookupNat_qt]
  by_cases h1 : qtype = 252
  · simp only [h1, if_true]; exact sameResult_refl _
  by_cases h2 : qtype = 253
  · subst h2; simp only [if_true]; exact sameResult_refl _
  by_cases h3 : qtype = 254
  · subst h3; simp only [if_true]; exact sameResult_refl _
  by_cases h4 : qtype = 255
  · subst h4
    simp only [if_true]
    have : (List.flatMap (fun kv : Nat × List ZoneRecord => kv.2.map (fun x => x.toRR name)) m) =
        (m.flatMap (·.2)).map (fun x => x.toRR name) := by
      rw [List.map_flatMap]
    exact (this ▸ sameResult_answer_of_perm ((h.flatMap_perm m zrs).map _))
  simp only [h1, h2, h3, h4, if_false]
  have hq := h.2 qtype
  split at hq
  · rename_i h0; rw [hq, h0]; exact sameResult_refl _
  · rw [hq]; exact sameResult_refl _

theorem helperData_classifyData (m : RecMap) (zrs : List ZoneRecord) (name : Name) (qtype : Nat)
    (h : RecRepr m zrs) :
    sameResult (helperData name qtype m) (classifyData zrs name qtype) = true := by
  unfold helperData classifyData cnameOf
  have hcn := h.2 RT_CNAME
  cases hm : rtypeMatches RT_CNAME qtype with
  | false =>
    simp only [Bool.not_false, if_true, Bool.false_eq_true, if_false]
    cases hc : ofType zrs RT_CNAME with
    | nil =>
      simp only [hc, if_true] at hcn
      simp only [hcn, List.head?_nil]
      exact answerOf_classifyAnswer m zrs name qtype h
    | cons z zs =>
      simp only [hc, reduceCtorEq, if_false] at hcn
      simp only [hcn, List.head?_cons]
      generalize z.fields = fs
      rcases fs with _ | ⟨f, _ | ⟨g, t⟩⟩
      · exact sameResult_refl _
      · cases f <;> exact sameResult_refl _
      · cases f <;> exact sameResult_refl _
  | true =>
    simp only [Bool.not_true, Bool.false_eq_true, if_false, if_true]
    exact answerOf_classifyAnswer m zrs name qtype h

theorem helper_classify (m : RecMap) (zrs : List ZoneRecord) (name : Name) (qtype : Nat) (nsd : Name)
    (cd : Bool) (h : RecRepr m zrs) :
    sameResult (zoneResultHelper name qtype m nsd cd) (classify zrs name qtype (some nsd) cd) = true := by
  rw [zoneResultHelper_eq, classify_eq, h.nsOf_eq]
  split
  · exact sameResult_refl _
  · exact helperData_classifyData m zrs name qtype h

end Resolved
