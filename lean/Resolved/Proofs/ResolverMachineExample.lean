/-
  A tiny concrete universe for the non-vacuity examples of C07 / C08 / C10 / C18: one root hint
  (`. NS a.`, `a. A 1.2.3.4`), one question (`x. A`), an upstream that answers every exchange.
-/
import Resolved.Model.Resolver

namespace Resolved

open Gen

instance exceptDecEq {ε α : Type} [DecidableEq ε] [DecidableEq α] : DecidableEq (Except ε α)
  | .ok a, .ok b => if h : a = b then isTrue (by rw [h]) else isFalse (fun hh => by cases hh; exact h rfl)
  | .error a, .error b => if h : a = b then isTrue (by rw [h]) else isFalse (fun hh => by cases hh; exact h rfl)
  | .ok _, .error _ => isFalse (fun hh => by cases hh)
  | .error _, .ok _ => isFalse (fun hh => by cases hh)

def exRootNs : Name := ⟨[[97], []], 3⟩        -- "a."
def exQName : Name := ⟨[[120], []], 3⟩        -- "x."
def exAlias : Name := ⟨[[121], []], 3⟩        -- "y."

def exHints : Option Zone :=
  (Zone.default.insert Name.root RT_NS [.name exRootNs] 3600 false).bind
    (fun z => z.insert exRootNs RT_A [.a 16909060] 3600 false)

def exZones : Zones := match exHints with | some z => Zones.empty.insert z | none => Zones.empty

def exCtx : Ctx := { zones := exZones, cache := PCache.new 512, now := 0, stack := [] }

def exQ : Question := { name := exQName, qtype := RT_A, qclass := CLASS_IN }

def exAnswer : RR := { name := exQName, rtype := RT_A, fields := [.a 84281096], rclass := CLASS_IN, ttl := 300 }

def exReply (ex : Exchange) (answers : List RR) : Message :=
  { header := { id := 0, isResponse := true, opcode := 0, isAuthoritative := true, isTruncated := false,
                recursionDesired := ex.recursionDesired, recursionAvailable := false, rcode := 0 },
    questions := [ex.question], answers, authority := [], additional := [] }

/-- answers every exchange after 20 ms with `x. A 5.6.7.8`. -/
def exOracle : Oracle := fun ex => { delayMs := 20, reply := some (exReply ex [exAnswer]) }

/-- never answers (every attempt runs into its 5 s time-out). -/
def exSilent : Oracle := fun _ => { delayMs := 10000, reply := none }

def exCfg : RecCfg := { mode := .onlyV4, port := 53, oracle := exOracle, hostOrder := id }
def exCfgSilent : RecCfg := { mode := .onlyV4, port := 53, oracle := exSilent, hostOrder := id }
def exFwd : FwdCfg := { addr := .a 151060737, port := 5353, oracle := exOracle }

/-! ### An upstream that lists the alias target's record BEFORE the alias record. -/

def exCnameRR : RR := { name := exQName, rtype := RT_CNAME, fields := [.name exAlias], rclass := CLASS_IN, ttl := 300 }
def exTargetRR : RR := { name := exAlias, rtype := RT_A, fields := [.a 84281096], rclass := CLASS_IN, ttl := 300 }
def exOracleUnordered : Oracle := fun ex => { delayMs := 1, reply := some (exReply ex [exTargetRR, exCnameRR]) }
def exCfgUnordered : RecCfg := { mode := .onlyV4, port := 53, oracle := exOracleUnordered, hostOrder := id }
def exFwdUnordered : FwdCfg := { addr := .a 151060737, port := 5353, oracle := exOracleUnordered }

/-! ### A referral without glue (the address of the referral's name server has to be resolved
    recursively): used for the fuel-masking counterexample. -/

def exNsHost : Name := ⟨[[110], []], 3⟩        -- "n."
def exNsRR : RR := { name := exQName, rtype := RT_NS, fields := [.name exNsHost], rclass := CLASS_IN, ttl := 300 }
def exNsAddr : RR := { name := exNsHost, rtype := RT_A, fields := [.a 151587081], rclass := CLASS_IN, ttl := 300 }

/-- root server 1.2.3.4: refers `x.` to `n.` (no glue) and answers `n. A 9.9.9.9`; the server at
    9.9.9.9 answers `x. A 5.6.7.8`. -/
def exOracleRef : Oracle := fun ex =>
  if ex.addr == .a 16909060 then
    if ex.question.name == exQName then
      { delayMs := 1, reply := some { exReply ex [] with authority := [exNsRR] } }
    else { delayMs := 1, reply := some (exReply ex [exNsAddr]) }
  else { delayMs := 1, reply := some (exReply ex [exAnswer]) }

def exCfgRef : RecCfg := { mode := .onlyV4, port := 53, oracle := exOracleRef, hostOrder := id }

/-! ### A delegation chain `levels` deep with `hosts` name servers per referral, glue only for the
    host the loop tries last: the loop makes about `levels · hosts` iterations (all at zero
    virtual time), each costing one unit of fuel. -/

def lvlZone (k : Nat) : Name := ⟨List.replicate k [120] ++ [[]], 2 * k + 1⟩
def lvlHost (k i : Nat) : Name := ⟨[[104, (k % 256).toUInt8, (i / 256).toUInt8, (i % 256).toUInt8], []], 6⟩

def bigReply (levels hosts : Nat) (qn : Name) (ex : Exchange) : Option Message :=
  if ex.question.name == qn then
    let k := match ex.addr with | .a n => if n == 16909060 then 0 else n - 1000 | _ => 0
    if k ≥ levels then
      some (exReply ex [{ name := qn, rtype := RT_A, fields := [.a 84281096], rclass := CLASS_IN, ttl := 300 }])
    else
      some { exReply ex [] with
        authority := (List.range hosts).map (fun i =>
          { name := lvlZone (k + 1), rtype := RT_NS, fields := [.name (lvlHost (k + 1) i)], rclass := CLASS_IN,
            ttl := 300 }),
        additional := [{ name := lvlHost (k + 1) 0, rtype := RT_A, fields := [.a (1000 + (k + 1))],
                         rclass := CLASS_IN, ttl := 300 }] }
  else none

def bigQ (levels : Nat) : Question := { name := lvlZone (levels + 1), qtype := RT_A, qclass := CLASS_IN }

def bigCfg (levels hosts : Nat) : RecCfg :=
  { mode := .onlyV4, port := 53, oracle := fun ex => { delayMs := 0, reply := bigReply levels hosts (bigQ levels).name ex },
    hostOrder := id }

def bigCtx : Ctx := { exCtx with cache := PCache.new 100000000 }

end Resolved
