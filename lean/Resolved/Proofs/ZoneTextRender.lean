/-
  C11: the tokeniser inverts the token renderings of the specification (Spec/ZoneTextSpec.lean):
  bare, `\X`, `\DDD` per octet in any mixture, quoted or not.
-/
import Resolved.Spec.ZoneTextSpec
import Resolved.Proofs.ZoneTextOctets

namespace Resolved.ZoneText

open Resolved Resolved.IpText Gen ZTSpec

/-! ## facts about single octets (checked for all 256 values) -/

set_option maxRecDepth 40000 in
theorem bareOk_facts : ∀ n, n < 256 →
    (bareOk true 0 (UInt8.ofNat n) = true → plainQ (Char.ofNat n) = true) ∧
    (bareOk false 0 (UInt8.ofNat n) = true → plainInit (Char.ofNat n) = true) ∧
    (bareOk false 1 (UInt8.ofNat n) = true → plainUnq (Char.ofNat n) = true) := by decide

theorem bareOk_quoted_pos (i : Nat) (b : UInt8) : bareOk true i b = bareOk true 0 b := by
  simp [bareOk]

theorem bareOk_unquoted_pos (i : Nat) (b : UInt8) : bareOk false (i + 1) b = bareOk false 1 b := by
  simp [bareOk]

set_option maxRecDepth 40000 in
theorem structural_facts : ∀ n, n < 256 → (n = 46 ∨ n = 64 ∨ n = 42) →
    plainQ (Char.ofNat n) = true ∧ plainInit (Char.ofNat n) = true ∧ plainUnq (Char.ofNat n) = true := by
  decide

set_option maxRecDepth 40000 in
theorem backslash_facts : ∀ n, n < 256 → n < 128 → ¬ (48 ≤ n ∧ n ≤ 57) →
    toDigit10 (Char.ofNat n) = none ∧ isAscii (Char.ofNat n) = true := by decide

theorem ofNat_toNat_u8 (b : UInt8) : UInt8.ofNat b.toNat = b := UInt8.ofNat_toNat

theorem tokeniseEscape_spec_backslash (b : UInt8) (h1 : b.toNat < 128) (h2 : isDigitOctet b = false)
    (rest : List Char) : tokeniseEscape (Char.ofNat b.toNat :: rest) = .ok (b, 1) := by
  have hd : ¬ (48 ≤ b.toNat ∧ b.toNat ≤ 57) := by
    simp only [isDigitOctet, Bool.and_eq_false_iff, decide_eq_false_iff_not] at h2
    omega
  have ⟨f1, f2⟩ := backslash_facts _ b.toNat_lt h1 hd
  simp only [tokeniseEscape, f1, f2, if_true]
  rw [show Char.ofNat b.toNat = octetAsChar b from rfl, charAsU8_octetAsChar]

theorem decimalEscape_eq (b : UInt8) :
    decimalEscape b = ['\\', Char.ofNat (b.toNat / 100 % 10 + 48), Char.ofNat (b.toNat / 10 % 10 + 48),
      Char.ofNat (b.toNat % 10 + 48)] := by
  have hb := b.toNat_lt
  unfold decimalEscape
  have e1 : 48 + b.toNat / 100 = b.toNat / 100 % 10 + 48 := by omega
  have e2 : 48 + b.toNat / 10 % 10 = b.toNat / 10 % 10 + 48 := by omega
  have e3 : 48 + b.toNat % 10 = b.toNat % 10 + 48 := by omega
  rw [e1, e2, e3]

/-! ## one atom -/

/-- structural atoms are `.`, `@` or `*`. -/
def StructuralOk (a : Atom) : Prop := a.2 = .structural → (a.1.toNat = 46 ∨ a.1.toNat = 64 ∨ a.1.toNat = 42)

theorem tokLoop_decimalEscape {st : TState} (hst : st ≠ .skipToEndOfComment) (b : UInt8) (rest : List Char)
    (rtoks : List Token) (rstr : List Char) (roct : List UInt8) (lc : Bool) :
    tokLoop 0 (decimalEscape b ++ rest) rtoks rstr roct st lc
      = tokLoop 0 rest rtoks (octetAsChar b :: rstr) (b :: roct) (afterEscape st) lc := by
  rw [decimalEscape_eq]
  simp only [List.cons_append, List.nil_append]
  rw [tokLoop_escape hst (tokeniseEscape_decimal b _), tokLoop_skip3]

theorem tokLoop_backslashEscape {st : TState} (hst : st ≠ .skipToEndOfComment) (b : UInt8)
    (h1 : b.toNat < 128) (h2 : isDigitOctet b = false) (rest : List Char)
    (rtoks : List Token) (rstr : List Char) (roct : List UInt8) (lc : Bool) :
    tokLoop 0 ('\\' :: Char.ofNat b.toNat :: rest) rtoks rstr roct st lc
      = tokLoop 0 rest rtoks (octetAsChar b :: rstr) (b :: roct) (afterEscape st) lc := by
  rw [tokLoop_escape hst (tokeniseEscape_spec_backslash b h1 h2 _), tokLoop_skip1]

/-- inside quotes, what `renderOctet` writes for an atom appends exactly its octet to the token. -/
theorem tokLoop_renderOctet_quoted (f : OForm) (i : Nat) (a : Atom) (ha : StructuralOk a) (rest : List Char)
    (rtoks : List Token) (rstr : List Char) (roct : List UInt8) (lc : Bool) :
    tokLoop 0 (renderOctet true f i a ++ rest) rtoks rstr roct .quotedString lc
      = tokLoop 0 rest rtoks (octetAsChar a.1 :: rstr) (a.1 :: roct) .quotedString lc := by
  obtain ⟨b, k⟩ := a
  unfold renderOctet
  simp only
  cases k with
  | structural =>
    simp only
    have := (structural_facts _ b.toNat_lt (ha rfl)).1
    simp only [List.cons_append, List.nil_append]
    rw [tokLoop_q_plain (c := Char.ofNat b.toNat) this, show Char.ofNat b.toNat = octetAsChar b from rfl,
      charAsU8_octetAsChar]
  | plain =>
    simp only
    cases f with
    | bare =>
      simp only
      split
      · rename_i hb
        simp only [beq_self_eq_true, Bool.true_and] at hb
        rw [bareOk_quoted_pos] at hb
        have := (bareOk_facts _ b.toNat_lt).1 (by rw [ofNat_toNat_u8]; exact hb)
        simp only [List.cons_append, List.nil_append]
        rw [tokLoop_q_plain (c := Char.ofNat b.toNat) this, show Char.ofNat b.toNat = octetAsChar b from rfl,
          charAsU8_octetAsChar]
      · exact tokLoop_decimalEscape (by decide) b rest rtoks rstr roct lc
    | backslash =>
      simp only
      split
      · rename_i hb
        simp only [Bool.and_eq_true, decide_eq_true_eq, Bool.not_eq_true'] at hb
        simp only [List.cons_append, List.nil_append]
        exact tokLoop_backslashEscape (by decide) b hb.1 hb.2 rest rtoks rstr roct lc
      · exact tokLoop_decimalEscape (by decide) b rest rtoks rstr roct lc
    | decimal => exact tokLoop_decimalEscape (by decide) b rest rtoks rstr roct lc
  | literal =>
    simp only
    cases f with
    | bare =>
      simp only [show (AKind.literal == AKind.plain) = false from rfl, Bool.false_and, Bool.false_eq_true,
        if_false]
      exact tokLoop_decimalEscape (by decide) b rest rtoks rstr roct lc
    | backslash =>
      simp only
      split
      · rename_i hb
        simp only [Bool.and_eq_true, decide_eq_true_eq, Bool.not_eq_true'] at hb
        simp only [List.cons_append, List.nil_append]
        exact tokLoop_backslashEscape (by decide) b hb.1 hb.2 rest rtoks rstr roct lc
      · exact tokLoop_decimalEscape (by decide) b rest rtoks rstr roct lc
    | decimal => exact tokLoop_decimalEscape (by decide) b rest rtoks rstr roct lc

/-- outside quotes: at the start of a token (`i = 0`, tokeniser between tokens) or inside it. -/
theorem tokLoop_renderOctet_unquoted (f : OForm) (i : Nat) (a : Atom) (ha : StructuralOk a) (rest : List Char)
    (rtoks : List Token) (rstr : List Char) (roct : List UInt8) (lc : Bool) (st : TState)
    (hst : (i = 0 ∧ st = .initial) ∨ (i ≠ 0 ∧ st = .unquotedString)) :
    tokLoop 0 (renderOctet false f i a ++ rest) rtoks rstr roct st lc
      = tokLoop 0 rest rtoks (octetAsChar a.1 :: rstr) (a.1 :: roct) .unquotedString lc := by
  obtain ⟨b, k⟩ := a
  have hst' : st ≠ .skipToEndOfComment ∧ afterEscape st = .unquotedString := by
    rcases hst with ⟨_, h⟩ | ⟨_, h⟩ <;> subst h <;> exact ⟨by decide, rfl⟩
  have hdec := tokLoop_decimalEscape hst'.1 b rest rtoks rstr roct lc
  rw [hst'.2] at hdec
  have hbs : ∀ (h1 : b.toNat < 128) (h2 : isDigitOctet b = false),
      tokLoop 0 ('\\' :: Char.ofNat b.toNat :: rest) rtoks rstr roct st lc
        = tokLoop 0 rest rtoks (octetAsChar b :: rstr) (b :: roct) .unquotedString lc := by
    intro h1 h2
    have := tokLoop_backslashEscape hst'.1 b h1 h2 rest rtoks rstr roct lc
    rwa [hst'.2] at this
  -- a char that is plain both at the start of a token and inside one
  have hplain : plainInit (Char.ofNat b.toNat) = true ∨ (i ≠ 0 ∧ plainUnq (Char.ofNat b.toNat) = true) →
      tokLoop 0 (Char.ofNat b.toNat :: rest) rtoks rstr roct st lc
        = tokLoop 0 rest rtoks (octetAsChar b :: rstr) (b :: roct) .unquotedString lc := by
    intro hp
    rcases hst with ⟨hi, h⟩ | ⟨hi, h⟩ <;> subst h
    · rcases hp with hp | ⟨hne, _⟩
      · rw [tokLoop_init_plain hp, show Char.ofNat b.toNat = octetAsChar b from rfl, charAsU8_octetAsChar]
      · exact absurd hi hne
    · have hu : plainUnq (Char.ofNat b.toNat) = true := by
        rcases hp with hp | ⟨_, hp⟩
        · simp only [plainInit, Bool.and_eq_true] at hp; exact hp.1.1.1
        · exact hp
      rw [tokLoop_unq_plain hu, show Char.ofNat b.toNat = octetAsChar b from rfl, charAsU8_octetAsChar]
  unfold renderOctet
  simp only
  cases k with
  | structural =>
    simp only [List.cons_append, List.nil_append]
    exact hplain (Or.inl (structural_facts _ b.toNat_lt (ha rfl)).2.1)
  | plain =>
    simp only
    cases f with
    | bare =>
      simp only
      split
      · rename_i hb
        simp only [beq_self_eq_true, Bool.true_and] at hb
        simp only [List.cons_append, List.nil_append]
        apply hplain
        cases i with
        | zero => exact Or.inl ((bareOk_facts _ b.toNat_lt).2.1 (by rw [ofNat_toNat_u8]; exact hb))
        | succ j =>
          rw [bareOk_unquoted_pos] at hb
          exact Or.inr ⟨by omega, (bareOk_facts _ b.toNat_lt).2.2 (by rw [ofNat_toNat_u8]; exact hb)⟩
      · exact hdec
    | backslash =>
      simp only
      split
      · rename_i hb
        simp only [Bool.and_eq_true, decide_eq_true_eq, Bool.not_eq_true'] at hb
        simp only [List.cons_append, List.nil_append]
        exact hbs hb.1 hb.2
      · exact hdec
    | decimal => exact hdec
  | literal =>
    simp only
    cases f with
    | bare =>
      simp only [show (AKind.literal == AKind.plain) = false from rfl, Bool.false_and, Bool.false_eq_true,
        if_false]
      exact hdec
    | backslash =>
      simp only
      split
      · rename_i hb
        simp only [Bool.and_eq_true, decide_eq_true_eq, Bool.not_eq_true'] at hb
        simp only [List.cons_append, List.nil_append]
        exact hbs hb.1 hb.2
      · exact hdec
    | decimal => exact hdec

/-! ## whole tokens -/

theorem tokLoop_renderOctetsFrom_quoted (pattern : List OForm) (atoms : List Atom) :
    ∀ (i : Nat) (rest : List Char) (rtoks : List Token) (rstr : List Char) (roct : List UInt8) (lc : Bool),
    (∀ a ∈ atoms, StructuralOk a) →
    tokLoop 0 (renderOctetsFrom true pattern i atoms ++ rest) rtoks rstr roct .quotedString lc
      = tokLoop 0 rest rtoks (((atomOctets atoms).map octetAsChar).reverse ++ rstr)
          ((atomOctets atoms).reverse ++ roct) .quotedString lc := by
  induction atoms with
  | nil => intros; rfl
  | cons a as ih =>
    intro i rest rtoks rstr roct lc hs
    simp only [renderOctetsFrom, List.append_assoc]
    rw [tokLoop_renderOctet_quoted _ _ _ (hs a (by simp)), ih _ _ _ _ _ _ (fun x hx => hs x (by simp [hx]))]
    simp [atomOctets]

theorem tokLoop_renderOctetsFrom_unquoted (pattern : List OForm) (atoms : List Atom) :
    ∀ (i : Nat) (rest : List Char) (rtoks : List Token) (rstr : List Char) (roct : List UInt8) (lc : Bool),
    (∀ a ∈ atoms, StructuralOk a) → i ≠ 0 →
    tokLoop 0 (renderOctetsFrom false pattern i atoms ++ rest) rtoks rstr roct .unquotedString lc
      = tokLoop 0 rest rtoks (((atomOctets atoms).map octetAsChar).reverse ++ rstr)
          ((atomOctets atoms).reverse ++ roct) .unquotedString lc := by
  induction atoms with
  | nil => intros; rfl
  | cons a as ih =>
    intro i rest rtoks rstr roct lc hs hi
    simp only [renderOctetsFrom, List.append_assoc]
    rw [tokLoop_renderOctet_unquoted _ _ _ (hs a (by simp)) _ _ _ _ _ _ (Or.inr ⟨hi, rfl⟩),
      ih _ _ _ _ _ _ (fun x hx => hs x (by simp [hx])) (by omega)]
    simp [atomOctets]

/-- **quoted rendering** (chosen by the variant, or forced because the token is empty): read as
    exactly one token with the atoms' octets; the tokeniser is between tokens again. -/
theorem tokLoop_renderToken_quoted (tv : TokVar) (atoms : List Atom) (hq : tv.quoted = true ∨ atoms = [])
    (hs : ∀ a ∈ atoms, StructuralOk a) (rest : List Char) (rtoks : List Token) (lc : Bool) :
    tokLoop 0 (renderToken tv atoms ++ rest) rtoks [] [] .initial lc
      = tokLoop 0 rest (((atomOctets atoms).map octetAsChar, atomOctets atoms) :: rtoks) [] [] .initial lc := by
  have hq' : (tv.quoted || atoms.isEmpty) = true := by
    rcases hq with h | h
    · simp [h]
    · subst h; simp
  unfold renderToken
  simp only [hq', if_true, List.append_assoc, List.cons_append, List.nil_append]
  rw [show tokLoop 0 ('"' :: (renderOctetsFrom true tv.pattern 0 atoms ++ ('"' :: rest))) rtoks [] [] .initial lc
        = tokLoop 0 (renderOctetsFrom true tv.pattern 0 atoms ++ ('"' :: rest)) rtoks [] [] .quotedString lc from by
      simp [tokLoop]]
  rw [tokLoop_renderOctetsFrom_quoted _ _ _ _ _ _ _ _ hs]
  simp [tokLoop]

/-- **unquoted rendering** of a non-empty token: starts a token whose octets so far are exactly the
    atoms' octets (what ends it is what follows: the gap, a line end, the end of the input). -/
theorem tokLoop_renderToken_unquoted (tv : TokVar) (atoms : List Atom) (hq : tv.quoted = false)
    (hne : atoms ≠ []) (hs : ∀ a ∈ atoms, StructuralOk a) (rest : List Char) (rtoks : List Token) (lc : Bool) :
    tokLoop 0 (renderToken tv atoms ++ rest) rtoks [] [] .initial lc
      = tokLoop 0 rest rtoks ((atomOctets atoms).map octetAsChar).reverse (atomOctets atoms).reverse
          .unquotedString lc := by
  cases atoms with
  | nil => exact absurd rfl hne
  | cons a as =>
    unfold renderToken
    simp only [hq, List.isEmpty_cons, Bool.or_false, Bool.false_eq_true, if_false, List.nil_append,
      List.append_nil, renderOctetsFrom, List.append_assoc]
    rw [tokLoop_renderOctet_unquoted _ _ _ (hs a (by simp)) _ _ _ _ _ _ (Or.inl ⟨rfl, rfl⟩),
      tokLoop_renderOctetsFrom_unquoted _ _ _ _ _ _ _ _ (fun x hx => hs x (by simp [hx])) (by omega)]
    simp [atomOctets]

end Resolved.ZoneText
