/-
  C15: `upsert` keeps the invariant.
-/
import Resolved.Proofs.CacheInv

namespace Resolved

open PCache

/-! ## Partition-level: adding a fresh value -/

theorem PInv.fresh_none {p : Partition} (h : PInv p) {rk : Nat} {v : CRec} (e lr : Nat)
    (hg : AL.get p.records rk = none) (hrt : v.rtype = rk) :
    PInv { lastRead := lr, nextExpiry := if e < p.nextExpiry then e else p.nextExpiry, size := p.size + 1,
           records := AL.set p.records rk [(v, e)] } := by
  rw [AL.set_of_get_none hg]
  refine ⟨?_, ?_, ?_, ?_, ?_⟩
  · have := AL.nodup_keys_set h.keysNodup rk [(v, e)]
    rwa [AL.set_of_get_none hg] at this
  · simp [h.size_eq]
  · exact h.nextExpiry_min.insert (x := (v, e)) (by intro t; simp [or_comm])
  · intro r hr
    simp only [List.mem_append, List.mem_singleton] at hr
    rcases hr with hr | rfl
    · exact h.noDup r hr
    · simp
  · intro r hr
    simp only [List.mem_append, List.mem_singleton] at hr
    rcases hr with hr | rfl
    · exact h.rtype_eq r hr
    · simp [hrt]

theorem PInv.fresh_some {p : Partition} (h : PInv p) {rk : Nat} {v : CRec} (e lr : Nat) {ts : Tuples}
    (hg : AL.get p.records rk = some ts) (hv : v ∉ ts.map (·.1)) (hrt : v.rtype = rk) :
    PInv { lastRead := lr, nextExpiry := if e < p.nextExpiry then e else p.nextExpiry, size := p.size + 1,
           records := AL.set p.records rk (ts ++ [(v, e)]) } := by
  obtain ⟨a, b, hab, hka⟩ := AL.get_split hg
  have hmin := h.nextExpiry_min
  have hnd := h.noDup
  have hrk := h.rtype_eq
  have hsz := h.size_eq
  rw [hab] at hmin hnd hrk hsz
  refine ⟨?_, ?_, ?_, ?_, ?_⟩
  · simp only; rw [AL.keys_set_of_get_some hg]; exact h.keysNodup
  · simp only
    rw [hab, AL.set_split hka]
    simp at hsz ⊢; omega
  · simp only
    rw [hab, AL.set_split hka]
    refine hmin.insert (x := (v, e)) ?_
    intro t; simp only [tuplesOf_append, tuplesOf_cons, List.mem_append, List.mem_singleton]
    constructor
    · rintro (h1 | (h1 | h1) | h1) <;> simp [h1]
    · rintro (h1 | h1 | h1 | h1) <;> simp [h1]
  · simp only
    rw [hab, AL.set_split hka]
    intro r hr
    simp only [List.mem_append, List.mem_cons] at hr hnd
    rcases hr with hr | rfl | hr
    · exact hnd r (Or.inl hr)
    · have := hnd (rk, ts) (Or.inr (Or.inl rfl))
      simp only [List.map_append, List.map_cons, List.map_nil]
      rw [List.nodup_append]
      refine ⟨this, by simp, ?_⟩
      intro x hx y hy
      simp at hy; subst hy
      intro e'; subst e'; exact hv hx
    · exact hnd r (Or.inr (Or.inr hr))
  · simp only
    rw [hab, AL.set_split hka]
    intro r hr
    simp only [List.mem_append, List.mem_cons] at hr hrk
    rcases hr with hr | rfl | hr
    · exact hrk r (Or.inl hr)
    · intro t ht
      simp only [List.mem_append, List.mem_singleton] at ht
      rcases ht with ht | rfl
      · exact hrk (rk, ts) (Or.inr (Or.inl rfl)) t ht
      · exact hrt
    · exact hrk r (Or.inr (Or.inr hr))

/-! ## Partition-level: re-inserting an existing value -/

theorem PInv.dup {p : Partition} (h : PInv p) {rk : Nat} {v : CRec} (e lr : Nat) {ts : Tuples} {i d : Nat}
    (hg : AL.get p.records rk = some ts) (hi : ts[i]? = some (v, d)) (hrt : v.rtype = rk) :
    PInv { lastRead := lr,
           nextExpiry :=
             if d = p.nextExpiry then minExpiry (AL.set p.records rk (swapRemove ts i ++ [(v, e)])) e
             else if e < p.nextExpiry then e else p.nextExpiry,
           size := p.size - 1 + 1,
           records := AL.set p.records rk (swapRemove ts i ++ [(v, e)]) } := by
  obtain ⟨a, b, hab, hka⟩ := AL.get_split hg
  have hperm := swapRemove_perm hi
  generalize swapRemove ts i = sr at hperm ⊢
  have hmem : ∀ t, t ∈ ts ↔ t = (v, d) ∨ t ∈ sr := by
    intro t; rw [hperm.mem_iff]; simp
  have hlen : ts.length = sr.length + 1 := by rw [hperm.length_eq]; simp
  have hmin := h.nextExpiry_min
  have hnd := h.noDup
  have hrk := h.rtype_eq
  have hsz := h.size_eq
  rw [hab] at hmin hnd hrk hsz
  have hndts : ((v, d) :: sr).map (·.1) |>.Nodup := by
    have := hnd (rk, ts) (by simp)
    exact (hperm.map _).nodup_iff.mp this
  simp only [List.map_cons, List.nodup_cons] at hndts
  -- membership in the old and the new tuple set, relative to the common rest
  have hold : ∀ t, t ∈ tuplesOf (a ++ (rk, ts) :: b) ↔ t = (v, d) ∨ t ∈ tuplesOf a ++ sr ++ tuplesOf b := by
    intro t
    simp only [tuplesOf_append, tuplesOf_cons, List.mem_append, hmem]
    constructor
    · rintro (h1 | (h1 | h1) | h1) <;> simp [h1]
    · rintro (h1 | (h1 | h1) | h1) <;> simp [h1]
  have hnew : ∀ t, t ∈ tuplesOf (a ++ (rk, sr ++ [(v, e)]) :: b) ↔
      t = (v, e) ∨ t ∈ tuplesOf a ++ sr ++ tuplesOf b := by
    intro t
    simp only [tuplesOf_append, tuplesOf_cons, List.mem_append, List.mem_singleton]
    constructor
    · rintro (h1 | (h1 | h1) | h1) <;> simp [h1]
    · rintro (h1 | (h1 | h1) | h1) <;> simp [h1]
  refine ⟨?_, ?_, ?_, ?_, ?_⟩
  · simp only; rw [AL.keys_set_of_get_some hg]; exact h.keysNodup
  · simp only
    rw [hab, AL.set_split hka]
    simp at hsz ⊢; omega
  · simp only
    rw [hab, AL.set_split hka]
    split
    · exact minExpiry_isMin ⟨(v, e), (hnew _).mpr (Or.inl rfl), rfl⟩
    · rename_i hd
      have h0 : IsMinExpiry p.nextExpiry (tuplesOf a ++ sr ++ tuplesOf b) :=
        hmin.remove (x := (v, d)) hold hd
      exact h0.insert (x := (v, e)) hnew
  · simp only
    rw [hab, AL.set_split hka]
    intro r hr
    simp only [List.mem_append, List.mem_cons] at hr hnd
    rcases hr with hr | rfl | hr
    · exact hnd r (Or.inl hr)
    · simp only [List.map_append, List.map_cons, List.map_nil]
      rw [List.nodup_append]
      refine ⟨hndts.2, by simp, ?_⟩
      intro x hx y hy
      simp at hy; subst hy
      intro e'; subst e'; exact hndts.1 hx
    · exact hnd r (Or.inr (Or.inr hr))
  · simp only
    rw [hab, AL.set_split hka]
    intro r hr
    simp only [List.mem_append, List.mem_cons] at hr hrk
    rcases hr with hr | rfl | hr
    · exact hrk r (Or.inl hr)
    · intro t ht
      simp only [List.mem_append, List.mem_singleton] at ht
      rcases ht with ht | rfl
      · exact hrk (rk, ts) (Or.inr (Or.inl rfl)) t ((hmem t).mpr (Or.inr ht))
      · exact hrt
    · exact hrk r (Or.inr (Or.inr hr))

/-! ## `upsert` in closed form, case by case -/

theorem upsert_new {c : PCache} {k : Name} (rk : Nat) (v : CRec) (ttl now : Nat)
    (hp : AL.get c.partitions k = none) :
    c.upsert k rk v ttl now =
      { c with partitions := AL.set c.partitions k
                 { lastRead := now, nextExpiry := now + ttl, size := 1, records := [(rk, [(v, now + ttl)])] }
               accessPriority := AL.set c.accessPriority k now
               expiryPriority := AL.set c.expiryPriority k (now + ttl)
               currentSize := c.currentSize + 1 } := by
  unfold PCache.upsert
  simp only [getPartition_eq, setPartition_eq, PQ_push_eq, hp]

theorem upsert_fresh_none {c : PCache} {k : Name} {p : Partition} (rk : Nat) (v : CRec) (ttl now : Nat)
    (hp : AL.get c.partitions k = some p) (hg : AL.get p.records rk = none) :
    c.upsert k rk v ttl now =
      { c with partitions := AL.set c.partitions k
                 { lastRead := now, nextExpiry := if now + ttl < p.nextExpiry then now + ttl else p.nextExpiry,
                   size := p.size + 1, records := AL.set p.records rk [(v, now + ttl)] }
               accessPriority := AL.change c.accessPriority k now
               expiryPriority := if now + ttl < p.nextExpiry then AL.change c.expiryPriority k (now + ttl)
                                 else c.expiryPriority
               currentSize := c.currentSize + 1 } := by
  unfold PCache.upsert
  simp only [getPartition_eq, getTuples_eq, setTuples_eq, setPartition_eq, PQ_change_eq, hp, hg]
  by_cases h : now + ttl < p.nextExpiry <;> simp [h]

theorem upsert_fresh_some {c : PCache} {k : Name} {p : Partition} (rk : Nat) (v : CRec) (ttl now : Nat)
    {ts : Tuples} (hp : AL.get c.partitions k = some p) (hg : AL.get p.records rk = some ts)
    (hd : findDup ts v = none) :
    c.upsert k rk v ttl now =
      { c with partitions := AL.set c.partitions k
                 { lastRead := now, nextExpiry := if now + ttl < p.nextExpiry then now + ttl else p.nextExpiry,
                   size := p.size + 1, records := AL.set p.records rk (ts ++ [(v, now + ttl)]) }
               accessPriority := AL.change c.accessPriority k now
               expiryPriority := if now + ttl < p.nextExpiry then AL.change c.expiryPriority k (now + ttl)
                                 else c.expiryPriority
               currentSize := c.currentSize + 1 } := by
  unfold PCache.upsert
  simp only [getPartition_eq, getTuples_eq, setTuples_eq, setPartition_eq, PQ_change_eq, hp, hg, hd]
  by_cases h : now + ttl < p.nextExpiry <;> simp [h]

theorem upsert_dup {c : PCache} {k : Name} {p : Partition} (rk : Nat) (v : CRec) (ttl now : Nat)
    {ts : Tuples} {i d : Nat} (hp : AL.get c.partitions k = some p) (hg : AL.get p.records rk = some ts)
    (hd : findDup ts v = some (i, d)) :
    c.upsert k rk v ttl now =
      { c with partitions := AL.set c.partitions k
                 { lastRead := now,
                   nextExpiry :=
                     if d = p.nextExpiry then
                       minExpiry (AL.set p.records rk (swapRemove ts i ++ [(v, now + ttl)])) (now + ttl)
                     else if now + ttl < p.nextExpiry then now + ttl else p.nextExpiry,
                   size := p.size - 1 + 1,
                   records := AL.set p.records rk (swapRemove ts i ++ [(v, now + ttl)]) }
               accessPriority := AL.change c.accessPriority k now
               expiryPriority :=
                 if d = p.nextExpiry then
                   AL.change c.expiryPriority k
                     (minExpiry (AL.set p.records rk (swapRemove ts i ++ [(v, now + ttl)])) (now + ttl))
                 else if now + ttl < p.nextExpiry then AL.change c.expiryPriority k (now + ttl)
                 else c.expiryPriority
               currentSize := c.currentSize - 1 + 1 } := by
  unfold PCache.upsert
  simp only [getPartition_eq, getTuples_eq, setTuples_eq, setPartition_eq, PQ_change_eq, hp, hg, hd]
  by_cases h1 : d = p.nextExpiry
  · have hle := minExpiry_le_init (AL.set p.records rk (swapRemove ts i ++ [(v, now + ttl)])) (now + ttl)
    have h2 : ¬ now + ttl <
        minExpiry (AL.set p.records rk (swapRemove ts i ++ [(v, now + ttl)])) (now + ttl) := by omega
    simp [h1, h2]
  · by_cases h : now + ttl < p.nextExpiry <;> simp [h1, h]

/-! ## `upsert` keeps `Inv` -/

theorem PInv.single (rk : Nat) (v : CRec) (e lr : Nat) (hrt : v.rtype = rk) :
    PInv { lastRead := lr, nextExpiry := e, size := 1, records := [(rk, [(v, e)])] } := by
  refine ⟨by simp, by simp, ⟨⟨(v, e), by simp, rfl⟩, by simp⟩, by simp, by simp [hrt]⟩

/-- the expiry-queue update of the no-duplicate branches -/
theorem QUpd.expiry_min {c : PCache} (h : Inv c) {k : Name} {p : Partition}
    (hp : AL.get c.partitions k = some p) (e : Nat) :
    QUpd c.expiryPriority (if e < p.nextExpiry then AL.change c.expiryPriority k e else c.expiryPriority)
      k (if e < p.nextExpiry then e else p.nextExpiry) := by
  split
  · exact QUpd.change h.eqNodup (h.eq_get_of hp) e
  · exact QUpd.same h.eqNodup (h.eq_get_of hp)

theorem Inv.upsert {c : PCache} (h : Inv c) (k : Name) {rk : Nat} {v : CRec} (ttl now : Nat)
    (hrt : v.rtype = rk) : Inv (c.upsert k rk v ttl now) := by
  cases hp : AL.get c.partitions k with
  | none =>
    rw [upsert_new rk v ttl now hp]
    exact h.add hp (PInv.single rk v (now + ttl) now hrt) rfl rfl rfl rfl
  | some p =>
    have hpi := h.pinv_of_get hp
    have haq := QUpd.change h.aqNodup (h.aq_get_of hp) now
    cases hg : AL.get p.records rk with
    | none =>
      rw [upsert_fresh_none rk v ttl now hp hg]
      exact h.replace hp (hpi.fresh_none (now + ttl) now hg hrt) rfl haq (QUpd.expiry_min h hp _)
        (by simp only; omega)
    | some ts =>
      cases hd : findDup ts v with
      | none =>
        rw [upsert_fresh_some rk v ttl now hp hg hd]
        exact h.replace hp (hpi.fresh_some (now + ttl) now hg (findDup_none.mp hd) hrt) rfl haq
          (QUpd.expiry_min h hp _) (by simp only; omega)
      | some id =>
        obtain ⟨i, d⟩ := id
        rw [upsert_dup rk v ttl now hp hg hd]
        have h1 := hpi.one_le_size
        have h2 := h.size_le hp
        refine h.replace hp (hpi.dup (now + ttl) now hg (findDup_some hd) hrt) rfl haq ?_
          (by simp only; omega)
        simp only
        split
        · exact QUpd.change h.eqNodup (h.eq_get_of hp) _
        · exact QUpd.expiry_min h hp _

end Resolved
