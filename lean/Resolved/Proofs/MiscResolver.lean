/-
  C06 helper lemmas: the exact case analysis of `queryNameserver` (Model/Resolver.lean) — which
  transport delivered the reply, what went into the log — stated on the model's own primitives
  (`attempt`, `responseMatchesRequest`).  Imports the model only, so that Props/C06 can use it
  (Proofs/ResolverMachine.lean, which has related lemmas, imports Props/C06).
-/
import Resolved.Model.Resolver

namespace Resolved

open Gen

/-- the request fits a UDP datagram (`serialised_request.len() <= 512`). -/
def mx_fitsUdp (q : Question) (rd : Bool) : Bool :=
  match encodeMessage (requestFor q rd) with
  | .ok bs => decide (bs.length ≤ UDP_MAX)
  | .error _ => false

/-- `if response_matches_request(&request, &response) { return Some(response) }`. -/
def mx_keepMatching (q : Question) (rd : Bool) (r : Message) : Option Message :=
  if responseMatchesRequest (requestFor q rd) r then some r else none

/-- the UDP exchange of `queryNameserver`. -/
def mx_udpEx (addr : FieldVal) (port : Nat) (q : Question) (rd : Bool) : Exchange :=
  { addr, port, tcp := false, question := q, recursionDesired := rd }

/-- the TCP exchange of `queryNameserver`. -/
def mx_tcpEx (addr : FieldVal) (port : Nat) (q : Question) (rd : Bool) : Exchange :=
  { addr, port, tcp := true, question := q, recursionDesired := rd }

theorem mx_udpEx_ne_tcpEx (addr : FieldVal) (port : Nat) (q : Question) (rd : Bool) :
    mx_tcpEx addr port q rd ≠ mx_udpEx addr port q rd := by
  intro h
  have := congrArg Exchange.tcp h
  simp [mx_tcpEx, mx_udpEx] at this

theorem mx_keepMatching_some {q : Question} {rd : Bool} {x : Option Message} {m : Message}
    (h : x.bind (mx_keepMatching q rd) = some m) :
    x = some m ∧ responseMatchesRequest (requestFor q rd) m = true := by
  cases x with
  | none => cases h
  | some y =>
    simp only [Option.bind_some, mx_keepMatching] at h
    split at h
    · cases h; exact ⟨rfl, by assumption⟩
    · cases h

theorem mx_keepMatching_none {q : Question} {rd : Bool} {x : Option Message}
    (h : x.bind (mx_keepMatching q rd) = none) :
    ∀ m, x = some m → responseMatchesRequest (requestFor q rd) m = false := by
  intro m hm
  subst hm
  simp only [Option.bind_some, mx_keepMatching] at h
  split at h
  · cases h
  · rename_i hn; exact eq_false_of_ne_true hn

/-- the three ways `queryNameserver` runs. -/
theorem mx_queryNameserver_cases (oracle : Oracle) (run : Run) (addr : FieldVal) (port : Nat)
    (q : Question) (rd : Bool) :
    (mx_fitsUdp q rd = true ∧
      ∃ m, (attempt oracle run (mx_udpEx addr port q rd)).2 = some m ∧
        responseMatchesRequest (requestFor q rd) m = true ∧
        queryNameserver oracle run addr port q rd
          = ((attempt oracle run (mx_udpEx addr port q rd)).1, some m)) ∨
    (mx_fitsUdp q rd = true ∧
      (attempt oracle run (mx_udpEx addr port q rd)).2.bind (mx_keepMatching q rd) = none ∧
      queryNameserver oracle run addr port q rd
        = ((attempt oracle (attempt oracle run (mx_udpEx addr port q rd)).1 (mx_tcpEx addr port q rd)).1,
           (attempt oracle (attempt oracle run (mx_udpEx addr port q rd)).1
              (mx_tcpEx addr port q rd)).2.bind (mx_keepMatching q rd))) ∨
    (mx_fitsUdp q rd = false ∧
      queryNameserver oracle run addr port q rd
        = ((attempt oracle run (mx_tcpEx addr port q rd)).1,
           (attempt oracle run (mx_tcpEx addr port q rd)).2.bind (mx_keepMatching q rd))) := by
  have hdef : queryNameserver oracle run addr port q rd =
      (match ((if mx_fitsUdp q rd = true then attempt oracle run (mx_udpEx addr port q rd) else (run, none)).2.bind
          (mx_keepMatching q rd)) with
        | some r => ((if mx_fitsUdp q rd = true then attempt oracle run (mx_udpEx addr port q rd) else (run, none)).1, some r)
        | none =>
          ((attempt oracle (if mx_fitsUdp q rd = true then attempt oracle run (mx_udpEx addr port q rd) else (run, none)).1
              (mx_tcpEx addr port q rd)).1,
           (attempt oracle (if mx_fitsUdp q rd = true then attempt oracle run (mx_udpEx addr port q rd) else (run, none)).1
              (mx_tcpEx addr port q rd)).2.bind (mx_keepMatching q rd))) := by
    unfold queryNameserver mx_fitsUdp mx_keepMatching mx_udpEx mx_tcpEx
    rfl
  rw [hdef]
  cases hf : mx_fitsUdp q rd with
  | false =>
    refine Or.inr (Or.inr ⟨rfl, ?_⟩)
    simp
  | true =>
    simp only [if_true]
    cases hb : (attempt oracle run (mx_udpEx addr port q rd)).2.bind (mx_keepMatching q rd) with
    | some m =>
      obtain ⟨h1, h2⟩ := mx_keepMatching_some hb
      exact Or.inl ⟨trivial, m, h1, h2, rfl⟩
    | none =>
      exact Or.inr (Or.inl ⟨trivial, rfl, rfl⟩)

/-- the log after one transport attempt: unchanged (already timed out) or one more exchange. -/
theorem mx_attempt_log (oracle : Oracle) (run : Run) (ex : Exchange) :
    (attempt oracle run ex).1.log = run.log ∨ (attempt oracle run ex).1.log = run.log ++ [ex] := by
  unfold attempt
  split
  · exact Or.inl rfl
  · simp only
    split
    · exact Or.inr rfl
    · split <;> exact Or.inr rfl

/-- a reply handed back by a transport attempt is what the oracle says for that exchange. -/
theorem mx_attempt_reply {oracle : Oracle} {run : Run} {ex : Exchange} {m : Message}
    (h : (attempt oracle run ex).2 = some m) : (oracle ex).reply = some m := by
  unfold attempt at h
  split at h
  · cases h
  · simp only at h
    split at h
    · cases h
    · split at h
      · cases h
      · exact h

end Resolved
